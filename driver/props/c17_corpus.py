"""C17 corpus: function skeletons -> (a) Rust twins (plain / #[tracing::instrument(..)]) for harness/attr,
(b) Coq terms of Attr/Model.v for the same skeletons.  Deterministic (own fixed seed): the Rust files
only change when this generator changes, so the cargo build stays cached.

A skeleton is a dict:
  idx, kind ('sync'|'async'|'boxed'|'implfut'), recv (None|'ref'|'mut'|'val'),
  groups [param groups], binds [flattened bindings], ret (shape), body (stmt), tail (expr), attrs {...}
Statements / expressions are tuples mirroring the Coq constructors:
  ('skip',) ('eff',k) ('use',p) ('mv',p) ('drop',p) ('ret',e) ('try',e) ('panic',k) ('seq',a,b) ('if',c,a,b) ('await',k)
  ('unit',) ('num',n) ('prim',p) ('movep',p) ('clonep',p) ('ok',e) ('err',e) ('eif',c,a,b)
  conds: ('true',) ('false',) ('flag',p) ('gt',p,k)
"""
import random

LEVEL_NAMES = {1: "ERROR", 2: "WARN", 3: "INFO", 4: "DEBUG", 5: "TRACE"}
# the attribute's keywords (attr.rs `mod kw`) that the generator / the model's `attrs` record cover
KEYWORDS = ["name", "level", "target", "parent", "follows_from", "skip", "fields", "ret", "err"]
SHAPES = ["unit", "num", "rec", "res_num_er", "res_rec_er", "res_num_rec", "impl_num", "impl_rec"]


def shape_ok_err(shape):
    """(ok payload kind, err payload kind) for Result shapes"""
    return {"res_num_er": ("num", "er"), "res_rec_er": ("rec", "er"), "res_num_rec": ("num", "rec")}.get(shape)


RUST_RET = {"unit": "()", "num": "u32", "rec": "R", "res_num_er": "Result<u32, Er>", "res_rec_er": "Result<R, Er>",
            "res_num_rec": "Result<u32, R>", "impl_num": "impl Shown", "impl_rec": "impl Shown"}
# the concrete type behind the shape (for turbofish / inner annotations)
CONCRETE = {"unit": "()", "num": "u32", "rec": "R", "impl_num": "u32", "impl_rec": "R"}


# ------------------------------------------------------------------------------------------------
# parameter groups

def path_spell(text):
    """the spelling of a path type as the Coq term `TyPath refs leading_colon segs generics` (refs given separately)"""
    t = text.strip()
    lead = t.startswith("::")
    if lead:
        t = t[2:]
    gens = "<" in t
    segs = [x.split("<")[0] for x in t.split("<")[0].split("::")] if not gens else [x for x in t[:t.index("<")].split("::")]
    return lead, segs, gens


def spell_of(sig_type):
    """('path', refs, lead, segs, generics) | ('other', refs) for a parameter type as written in the signature"""
    t = sig_type.strip()
    refs = 0
    while t.startswith("&"):
        refs += 1
        t = t[1:].strip()
        if t.startswith("'a"):
            t = t[2:].strip()
        if t.startswith("mut "):
            t = t[4:].strip()
    if t.startswith("impl ") or t.startswith("(") or t.startswith("["):
        return ("other", refs)
    lead, segs, gens = path_spell(t)
    return ("path", refs, lead, segs, gens)


def mk_bind(idx, ty, owned, rtype, named=True, pat="PIdent", access="val", name=None, spell=None, vtext=None):
    """rtype: what the attribute's documentation says the parameter is recorded as (the oracle's expectation, written by hand);
    spell: the parameter's type as written (the model derives its own RecordType from it, Attr.Model.rtype_of)."""
    return {"i": idx, "name": name or ("p%d" % idx), "ty": ty, "owned": owned, "rtype": rtype, "named": named, "pat": pat,
            "access": access, "spell": spell, "vtext": vtext}  # access: how the body holds it: val | mutval | ref | mutref | generic | genref | selfval | selfref | selfmut | copy


# how the tail call that pins the future is written (AsyncInfo::from_fn recognises it by `path_to_string(callee).ends_with("Box::pin")`)
PIN_FORMS = ["Box::pin", "std::boxed::Box::pin", "::std::boxed::Box::pin", "alloc::boxed::Box::pin", "::alloc::boxed::Box::pin",
             "Box::<_>::pin", "std::boxed::Box::<_>::pin"]


# how the return type of a fn returning a boxed future is written (the attribute never looks at it: lib.rs instrument_precise)
RET_FORMS = ["lit", "qlit", "alias", "aliasq", "alias2", "assoc"]


def boxed_ret_text(form, inner_t):
    if form == "qlit":
        return "std::pin::Pin<std::boxed::Box<dyn std::future::Future<Output = %s> + 'a>>" % inner_t
    if form == "alias":
        return "BoxFut<'a, %s>" % inner_t                      # support.rs: a generic alias with a lifetime
    if form == "aliasq":
        return "super::support::BoxFut<'a, %s>" % inner_t
    if form == "alias2":
        return "LocalFut<'a, %s>" % inner_t                    # an alias of the alias, declared in the corpus file
    if form == "assoc":
        return "Self::Fut"                                     # an associated type of a trait impl (tower-style)
    return "Pin<Box<dyn Future<Output = %s> + 'a>>" % inner_t


def pin_segments(form):
    """the callee path's segment identifiers (no leading `::`, no generic arguments), as syn sees them"""
    return [x.split("<")[0] for x in form.lstrip(":").split("::") if x and not x.startswith("<")]


GROUP_KINDS = ["val", "mutval", "ref", "mutref", "generic", "genref", "impl", "u32", "bool", "str", "refu32", "tuple", "tuple_mixed",
               "struct", "tstruct", "reftuple", "wild", "structn"]


# ---- every TYPES_FOR_VALUE entry, spelled bare / qualified / with a leading `::` / behind `&` and `&mut` / with generics
UNSIGNED = ["u8", "u16", "u32", "u64", "usize"]
SIGNED = ["i8", "i16", "i32", "i64", "isize"]
VTYPES = {}      # name -> (module path, vtext, model ty, expression of type T from a[i])
for _t in UNSIGNED:
    VTYPES[_t] = ("primitive", "u64", "vnum", "a[%d] as " + _t)
for _t in SIGNED:
    VTYPES[_t] = ("primitive", "i64", "vnum", "a[%d] as " + _t)
VTYPES["u128"] = ("primitive", "u128", "vnum", "a[%d] as u128")
VTYPES["i128"] = ("primitive", "i128", "vnum", "a[%d] as i128")
VTYPES["f32"] = ("primitive", "f64", "vnum", "a[%d] as f32")
VTYPES["f64"] = ("primitive", "f64", "vnum", "a[%d] as f64")
VTYPES["bool"] = ("primitive", "bool", "vbool", "a[%d] != 0")
VTYPES["str"] = ("primitive", "str", "vstr", None)
VTYPES["String"] = ("string", "str", "vstr", "STRS[(a[%d] %% 4) as usize].to_string()")
for _t in UNSIGNED + ["u128"]:
    _nz = "NonZero" + _t.capitalize()
    VTYPES[_nz] = ("num", "u128" if _t == "u128" else "u64", "vnum", "std::num::" + _nz + "::new((a[%d] as " + _t + ").max(1)).unwrap()")
for _t in SIGNED + ["i128"]:
    _nz = "NonZero" + _t.capitalize()
    VTYPES[_nz] = ("num", "i128" if _t == "i128" else "i64", "vnum", "std::num::" + _nz + "::new((a[%d] as " + _t + ").max(1)).unwrap()")
VTYPES["Wrapping"] = ("num", "u64", "vnum", "std::num::Wrapping(a[%d] as u32)")
VFORMS = ["bare", "q", "cq", "lq", "lcq", "rq", "mq", "rbare"]


def vq_type(tname, form):
    """the type text of TYPES_FOR_VALUE entry `tname` in spelling `form` (without the reference)"""
    mod = VTYPES[tname][0]
    last = tname + ("<u32>" if tname == "Wrapping" else "")
    if form in ("bare", "rbare"):
        return last
    root = {"q": "std", "rq": "std", "mq": "std", "cq": "core", "lq": "::std", "lcq": "::core"}[form]
    if mod == "string" and root.endswith("core"):
        root = root.replace("core", "std")     # String lives in alloc / std only
    return "%s::%s::%s" % (root, mod, last)


def mk_vq_group(tname, form, idx):
    mod, vtext, mty, expr = VTYPES[tname]
    if tname == "str" and form not in ("rq", "mq", "rbare"):
        form = "rq"                              # `str` only exists behind a reference
    ty = vq_type(tname, form)
    ref = {"rq": "&'a ", "mq": "&'a mut ", "rbare": "&'a "}.get(form, "")
    sig_ty = ref + ty
    name = "p%d" % idx
    if tname == "str":
        setup, arg = [], "STRS[(a[%d] %% 4) as usize]" % idx
        if form == "mq":
            setup = ["let v%d: &'static mut str = Box::leak(STRS[(a[%d] %% 4) as usize].to_string().into_boxed_str());" % (idx, idx)]
            arg = "v%d" % idx
    elif ref:
        setup = ["let v%d: &'static %s%s = Box::leak(Box::new(%s));" % (idx, "mut " if form == "mq" else "", ty, expr % idx)]
        arg = "v%d" % idx
    else:
        setup, arg = [], expr % idx
    b = mk_bind(idx, mty, False, "value", access="opaque", spell=spell_of(sig_ty), vtext=vtext)
    b["vq"] = (tname, form)
    return {"sig": "%s: %s" % (name, sig_ty), "setup": setup, "arg": arg, "lt": True, "kind": "vq:%s:%s" % (tname, form)}, [b]


def mk_group(kind, idx, gi):
    """returns (group dict, bindings)"""
    if kind.startswith("vq:"):
        _, tname, form = kind.split(":")
        return mk_vq_group(tname, form, idx)
    g, b = mk_group0(kind, idx, gi)
    # the type as written, per binding (destructured bindings share their group's type)
    ty = g["sig"].rsplit(": ", 1)[1] if ": " in g["sig"] else "R"
    for x in b:
        if x.get("spell") is None:
            x["spell"] = spell_of(ty)
    return g, b


def mk_group0(kind, idx, gi):
    n = lambda k=0: "p%d" % (idx + k)
    if kind == "val":
        b = [mk_bind(idx, "rec", True, "debug")]
        g = {"sig": "%s: R" % n(), "setup": ["let v%d = R::new(%d);" % (idx, idx)], "arg": "v%d" % idx}
    elif kind == "mutval":
        b = [mk_bind(idx, "rec", True, "debug", pat="PMut", access="mutval")]
        g = {"sig": "mut %s: R" % n(), "setup": ["let v%d = R::new(%d);" % (idx, idx)], "arg": "v%d" % idx}
    elif kind == "ref":
        b = [mk_bind(idx, "rec", False, "debug", access="ref")]
        g = {"sig": "%s: &'a R" % n(), "setup": ["let v%d: &'static R = Box::leak(Box::new(R::new(%d)));" % (idx, idx)], "arg": "v%d" % idx,
             "lt": True}
    elif kind == "mutref":
        b = [mk_bind(idx, "rec", False, "debug", access="mutref")]
        g = {"sig": "%s: &'a mut R" % n(), "setup": ["let v%d: &'static mut R = Box::leak(Box::new(R::new(%d)));" % (idx, idx)],
             "arg": "v%d" % idx, "lt": True}
    elif kind == "generic":
        b = [mk_bind(idx, "rec", True, "debug", pat="PGeneric", access="generic")]
        g = {"sig": "%s: G%d" % (n(), gi), "generic": "G%d: Rec + 'a" % gi, "setup": ["let v%d = R::new(%d);" % (idx, idx)], "arg": "v%d" % idx,
             "lt": True}
    elif kind == "genref":
        b = [mk_bind(idx, "rec", False, "debug", pat="PGeneric", access="genref")]
        g = {"sig": "%s: &'a G%d" % (n(), gi), "generic": "G%d: Rec + 'a" % gi,
             "setup": ["let v%d: &'static R = Box::leak(Box::new(R::new(%d)));" % (idx, idx)], "arg": "v%d" % idx, "lt": True}
    elif kind == "impl":
        b = [mk_bind(idx, "rec", True, "debug", pat="PImplTrait", access="generic")]
        g = {"sig": "%s: impl Rec + 'a" % n(), "setup": ["let v%d = R::new(%d);" % (idx, idx)], "arg": "v%d" % idx, "lt": True}
    elif kind == "u32":
        b = [mk_bind(idx, "u32", False, "value", access="copy")]
        g = {"sig": "%s: u32" % n(), "setup": [], "arg": "a[%d] as u32" % idx}
    elif kind == "bool":
        b = [mk_bind(idx, "bool", False, "value", access="copy")]
        g = {"sig": "%s: bool" % n(), "setup": [], "arg": "a[%d] != 0" % idx}
    elif kind == "str":
        b = [mk_bind(idx, "str", False, "value", access="copy")]
        g = {"sig": "%s: &'a str" % n(), "setup": [], "arg": "STRS[(a[%d] %% 4) as usize]" % idx, "lt": True}
    elif kind == "refu32":
        b = [mk_bind(idx, "u32", False, "value", pat="PRefPat", access="copy")]
        g = {"sig": "&%s: &'a u32" % n(), "setup": ["let v%d: &'static u32 = Box::leak(Box::new(a[%d] as u32));" % (idx, idx)],
             "arg": "v%d" % idx, "lt": True}
    elif kind == "tuple":
        b = [mk_bind(idx, "rec", True, "debug", pat="PTuple"), mk_bind(idx + 1, "rec", True, "debug", pat="PTuple")]
        g = {"sig": "(%s, %s): (R, R)" % (n(), n(1)), "setup": [], "arg": "(R::new(%d), R::new(%d))" % (idx, idx + 1)}
    elif kind == "tuple_mixed":
        b = [mk_bind(idx, "rec", True, "debug", pat="PTuple"), mk_bind(idx + 1, "u32", False, "debug", pat="PTuple", access="copy")]
        g = {"sig": "(%s, %s): (R, u32)" % (n(), n(1)), "setup": [], "arg": "(R::new(%d), a[%d] as u32)" % (idx, idx + 1)}
    elif kind == "struct":
        b = [mk_bind(idx, "rec", True, "debug", pat="PStruct"), mk_bind(idx + 1, "rec", True, "debug", pat="PStruct")]
        g = {"sig": "Pair { x: %s, y: %s }: Pair" % (n(), n(1)), "setup": [], "arg": "Pair { x: R::new(%d), y: R::new(%d) }" % (idx, idx + 1)}
    elif kind == "structn":
        b = [mk_bind(idx, "u32", False, "debug", pat="PStruct", access="copy"), mk_bind(idx + 1, "u32", False, "debug", pat="PStruct", access="copy")]
        g = {"sig": "PairN { x: %s, y: %s }: PairN" % (n(), n(1)), "setup": [], "arg": "PairN { x: a[%d] as u32, y: a[%d] as u32 }" % (idx, idx + 1)}
    elif kind == "tstruct":
        b = [mk_bind(idx, "rec", True, "debug", pat="PTupleStruct"), mk_bind(idx + 1, "rec", True, "debug", pat="PTupleStruct")]
        g = {"sig": "Wrap(%s, %s): Wrap" % (n(), n(1)), "setup": [], "arg": "Wrap(R::new(%d), R::new(%d))" % (idx, idx + 1)}
    elif kind == "reftuple":
        b = [mk_bind(idx, "u32", False, "debug", pat="PRefPat", access="copy"), mk_bind(idx + 1, "u32", False, "debug", pat="PRefPat", access="copy")]
        g = {"sig": "&(%s, %s): &'a (u32, u32)" % (n(), n(1)),
             "setup": ["let v%d: &'static (u32, u32) = Box::leak(Box::new((a[%d] as u32, a[%d] as u32)));" % (idx, idx, idx + 1)],
             "arg": "v%d" % idx, "lt": True}
    elif kind == "wild":
        b = [mk_bind(idx, "rec", True, "debug", named=False, pat="PWild", access="none")]
        g = {"sig": "_: R", "setup": [], "arg": "R::new(%d)" % idx}
    else:
        raise ValueError(kind)
    g["kind"] = kind
    return g, b


def mk_recv(kind):
    sp = ("path", {"val": 0, "ref": 1, "mut": 1}[kind], False, ["Self"], False)
    if kind == "val":
        return mk_bind(0, "rec", True, "debug", pat="PSelf", access="selfval", name="self", spell=sp)
    if kind == "ref":
        return mk_bind(0, "rec", False, "debug", pat="PSelf", access="selfref", name="self", spell=sp)
    return mk_bind(0, "rec", False, "debug", pat="PSelf", access="selfmut", name="self", spell=sp)


# ------------------------------------------------------------------------------------------------
# random skeletons

class Gen:
    def __init__(self, rng, idx, force=None):
        self.rng = rng
        self.idx = idx
        self.force = force or {}

    def params(self):
        rng = self.rng
        recv = self.force.get("recv", rng.choice([None] * 7 + ["ref", "mut", "val"]))
        binds, groups = [], []
        if recv:
            binds.append(mk_recv(recv))
        n_groups = rng.randint(1, 4) if not recv else rng.randint(0, 3)
        kinds = self.force.get("groups")
        if kinds is None:
            weights = {"val": 6, "mutval": 2, "ref": 3, "mutref": 2, "generic": 2, "genref": 1, "impl": 2, "u32": 4, "bool": 4, "str": 2,
                       "refu32": 1, "tuple": 2, "tuple_mixed": 2, "struct": 2, "tstruct": 1, "reftuple": 1, "wild": 1, "structn": 1}
            pool = [k for k, w in weights.items() for _ in range(w)]
            kinds = [rng.choice(pool) for _ in range(n_groups)]
            # sometimes a TYPES_FOR_VALUE entry in one of its spellings
            for gi_ in range(len(kinds)):
                if rng.random() < 0.12:
                    kinds[gi_] = "vq:%s:%s" % (rng.choice(sorted(VTYPES)), rng.choice(VFORMS))
        gi = 0
        for k in kinds:
            if len(binds) >= 7:
                break
            g, b = mk_group(k, len(binds), gi)
            gi += 1
            groups.append(g)
            binds += b
        return recv, groups, binds

    # --- expressions of a given payload kind ('unit' | 'num' | 'rec' | 'er')
    def cond(self, binds):
        rng = self.rng
        flags = [b["i"] for b in binds if b["ty"] == "bool"]
        nums = [b["i"] for b in binds if b["ty"] == "u32"]
        opts = [("true",), ("false",)]
        opts += [("flag", p) for p in flags] * 4
        opts += [("gt", p, rng.randint(0, 8)) for p in nums] * 4
        return rng.choice(opts)

    def expr(self, kind, binds, live, depth=0):
        """returns (expr, live_after) — live = set of definitely-live owned recorder bindings"""
        rng = self.rng
        if kind == "unit":
            return ("unit",), live
        if kind in ("num", "er"):
            nums = [b["i"] for b in binds if b["ty"] == "u32"]
            r = rng.random()
            if nums and r < 0.4:
                return ("prim", rng.choice(nums)), live
            if depth < 1 and r < 0.55:
                c = self.cond(binds)
                a, _ = self.expr(kind, binds, live, depth + 1)
                b, _ = self.expr(kind, binds, live, depth + 1)
                return ("eif", c, a, b), live
            return ("num", rng.randint(0, 9)), live
        if kind == "rec":
            movable = sorted(p for p in live)
            clonable = [b["i"] for b in binds if b["ty"] == "rec" and b["access"] in ("val", "mutval", "ref", "mutref", "selfval", "selfref", "selfmut")
                        and (b["owned"] is False or b["i"] in live)]
            r = rng.random()
            if depth < 1 and r < 0.2 and (movable or clonable):
                c = self.cond(binds)
                a, la = self.expr(kind, binds, live, depth + 1)
                b, lb = self.expr(kind, binds, live, depth + 1)
                return ("eif", c, a, b), la & lb
            if movable and (r < 0.7 or not clonable):
                p = rng.choice(movable)
                return ("movep", p), live - {p}
            if clonable:
                return ("clonep", rng.choice(clonable)), live
            return None, live
        raise ValueError(kind)

    def shaped(self, shape, binds, live, want=None):
        """an expression of the function's return shape; want in (None, 'ok', 'err')"""
        rng = self.rng
        oe = shape_ok_err(shape)
        if oe is None:
            k = {"unit": "unit", "num": "num", "rec": "rec", "impl_num": "num", "impl_rec": "rec"}[shape]
            return self.expr(k, binds, live)
        okk, errk = oe
        which = want or rng.choice(["ok", "ok", "err", "cond"])
        if which == "cond":
            c = self.cond(binds)
            a, la = self.shaped(shape, binds, live, "ok")
            b, lb = self.shaped(shape, binds, live, "err")
            if a is None or b is None:
                which = "ok" if a is not None else "err"
            else:
                return ("eif", c, a, b), la & lb
        if which == "ok":
            e, l2 = self.expr(okk, binds, live)
            if e is None:
                e, l2 = self.expr(errk, binds, live)
                return (None, live) if e is None else (("err", e), l2)
            return ("ok", e), l2
        e, l2 = self.expr(errk, binds, live)
        if e is None:
            e, l2 = self.expr(okk, binds, live)
            return (None, live) if e is None else (("ok", e), l2)
        return ("err", e), l2

    def stmts(self, shape, binds, live, is_async, depth, n):
        """a statement sequence; returns (stmt, live_after, diverges)"""
        rng = self.rng
        out = []
        usable = [b for b in binds if b["ty"] == "rec" and b["access"] != "none"]
        for _ in range(n):
            r = rng.random()
            owned_live = sorted(live)
            s = None
            if r < 0.22:
                s = ("eff", rng.randint(0, 20))
            elif r < 0.45 and usable:
                cands = [b["i"] for b in usable if (not b["owned"]) or b["i"] in live]
                if cands:
                    s = ("use", rng.choice(cands))
            elif r < 0.55 and owned_live:
                p = rng.choice(owned_live)
                s = ("mv", p)
                live = live - {p}
            elif r < 0.60 and owned_live:
                p = rng.choice(owned_live)
                s = ("drop", p)
                live = live - {p}
            elif r < 0.72 and is_async:
                # await sites are numbered: a site is reached at most once per run (no loops), so the site a cancelled future is
                # suspended at identifies the cancellation point (Attr.Model.cancel_at)
                self.n_await = getattr(self, "n_await", 0) + 1
                s = ("await", self.n_await)
            elif r < 0.86 and depth < 2:
                c = self.cond(binds)
                a, la, da = self.stmts(shape, binds, set(live), is_async, depth + 1, rng.randint(1, 3))
                b, lb, db = self.stmts(shape, binds, set(live), is_async, depth + 1, rng.randint(0, 2))
                s = ("if", c, a, b)
                if da and db:
                    out.append(s)
                    return self.seq(out), la & lb, True
                live = lb if da else (la if db else (la & lb))
            elif r < 0.91 and depth >= 1:
                e, l2 = self.shaped(shape, binds, live)
                if e is not None:
                    out.append(("ret", e))
                    return self.seq(out), l2, True
            elif r < 0.95 and depth >= 1:
                # rendered as `if true { panic_any(..) }`: rustc's move checker sees control continue
                s = ("panic", rng.randint(0, 9))
            elif shape_ok_err(shape) is not None:
                okk, errk = shape_ok_err(shape)
                # `drop_now(e?)`: e : Result<u32 | R, E>
                tk = rng.choice(["num", "rec"])
                c = self.cond(binds)
                a, la = self.expr(tk, binds, live)
                b, lb = self.expr(errk, binds, live)
                if a is not None and b is not None:
                    form = rng.random()
                    if form < 0.6:
                        s = ("try", ("eif", c, ("ok", a), ("err", b)), tk)
                        live = la & lb
                    elif form < 0.8:
                        s = ("try", ("ok", a), tk)
                        live = la
                    else:
                        s = ("try", ("err", b), tk)
                        live = lb
            if s is not None:
                out.append(s)
        return self.seq(out), live, False

    @staticmethod
    def seq(xs):
        if not xs:
            return ("skip",)
        s = xs[-1]
        for x in reversed(xs[:-1]):
            s = ("seq", x, s)
        return s

    def attrs(self, kind, shape, binds):
        rng = self.rng
        f = self.force
        a = default_attrs()
        if rng.random() < 0.3:
            a["name"] = rng.randint(0, 5)
            a["name_form"] = rng.choice(["kw", "kw", "bare", "const"])     # name = "..", a bare string literal, name = CONST
        if rng.random() < 0.6:
            a["level"] = rng.randint(1, 5)
            a["level_form"] = rng.choice(["str", "STR", "int", "path"])
        if rng.random() < 0.3:
            a["target"] = rng.randint(0, 3)
            a["target_form"] = rng.choice(["lit", "lit", "const"])
        r = rng.random()
        if r < 0.15:
            a["parent"] = ("none",)
        elif r < 0.35:
            a["parent"] = ("helper", rng.randint(0, 2))
        if rng.random() < 0.25:
            a["follows"] = [rng.randint(0, 2) for _ in range(rng.randint(0, 3))]
        named = [b for b in binds if b["named"]]
        for b in named:
            if rng.random() < 0.25:
                a["skips"].append(b["i"])
        # custom fields
        nf = rng.choice([0, 0, 0, 1, 1, 2, 3])
        used_names = set()
        for j in range(nf):
            r = rng.random()
            prims = [b["i"] for b in binds if b["ty"] == "u32"]
            recs = [b["i"] for b in binds if b["ty"] == "rec" and b["access"] != "none"]
            # the name: a fresh one, or (sometimes) the name of a parameter (the custom field then replaces it), or a dotted
            # name whose first segment is a parameter's name (which replaces nothing)
            nm = ("custom", j)
            plain_named = [b for b in named if b["name"] != "self"]
            if plain_named and rng.random() < 0.2:
                cand = rng.choice(plain_named)
                if ("param", cand["i"]) not in used_names:
                    nm = ("param", cand["i"])
            elif plain_named and rng.random() < 0.12:
                nm = ("dot", rng.choice(plain_named)["i"], j)
            shorts = [b for b in plain_named if b["access"] not in ("none", "opaque") and ("param", b["i"]) not in used_names]
            if r >= 0.85 and shorts and rng.random() < 0.6:
                # `?p` / `%p`: the parameter itself, no expression
                b = rng.choice(shorts)
                nm = ("param", b["i"])
                fe = ("short", b["i"])
                k = rng.choice(["debug", "display"])
            elif r < 0.25:
                fe = ("num", j, rng.randint(0, 99))
                k = rng.choice(["value", "debug", "display"])
            elif r < 0.5 and prims:
                fe = ("prim", j, rng.choice(prims))
                k = rng.choice(["value", "debug", "display"])
            elif r < 0.85 and recs:
                fe = ("rec", j, rng.choice(recs))
                k = rng.choice(["debug", "display"])
            elif nm[0] != "dot":
                fe = ("empty",)           # a bare name: Empty (under a parameter's name: the parameter has no recorded value at all)
                k = "value"
            else:
                fe = ("num", j, 7)
                k = "value"
            used_names.add(nm)
            a["fields"].append({"name": nm, "kind": k, "expr": fe})
        oe = shape_ok_err(shape)
        want_ret = f.get("ret", rng.random() < 0.45)
        want_err = f.get("err", rng.random() < 0.55) and oe is not None
        if want_ret:
            # what `ret` formats: the Ok payload when err is also given, else the whole value
            disp_ok = (oe is not None and want_err) or shape in ("num", "rec", "impl_num", "impl_rec")
            mode = rng.choice(["default", "debug", "display"] if disp_ok else ["default", "debug"])
            a["ret"] = {"level": rng.choice([None, None, rng.randint(1, 5)]), "mode": mode}
        if want_err:
            a["err"] = {"level": rng.choice([None, None, rng.randint(1, 5)]), "mode": rng.choice(["default", "debug", "display"])}
        return a

    def func(self):
        rng = self.rng
        kind = self.force.get("kind", rng.choice(["sync"] * 10 + ["async"] * 6 + ["boxed"] * 3 + ["implfut"] + ["oldtrait"] * 3))
        recv, groups, binds = self.params()
        shape = self.force.get("shape", rng.choice(SHAPES))
        live0 = {b["i"] for b in binds if b["ty"] == "rec" and b["owned"] and b["access"] != "none"}
        if shape in ("rec", "impl_rec", "res_rec_er", "res_num_rec") and not any(b["ty"] == "rec" and b["access"] != "none" for b in binds):
            shape = {"rec": "num", "impl_rec": "impl_num", "res_rec_er": "res_num_er", "res_num_rec": "res_num_er"}[shape]
        for _attempt in range(20):
            body, live, div = self.stmts(shape, binds, set(live0), kind != "sync", 0, rng.randint(2, 7))
            tail, _ = self.shaped(shape, binds, live)
            if tail is not None:
                break
        else:
            shape = {"rec": "num", "impl_rec": "impl_num", "res_rec_er": "res_num_er", "res_num_rec": "res_num_er"}.get(shape, shape)
            body, live, div = self.stmts(shape, binds, set(live0), kind != "sync", 0, rng.randint(2, 7))
            tail, _ = self.shaped(shape, binds, live)
        attrs = self.attrs(kind, shape, binds)
        pin = self.force.get("pin", rng.choice(["Box::pin"] * 4 + PIN_FORMS[1:])) if kind in ("boxed", "oldtrait") else None
        retform = self.force.get("retform", rng.choice(["lit"] * 3 + RET_FORMS[1:])) if kind in ("boxed", "oldtrait") else \
            (self.force.get("retform", rng.choice(["lit", "lit", "qlit"])) if kind == "implfut" else None)
        return {"idx": self.idx, "kind": kind, "recv": recv, "groups": groups, "binds": binds, "ret": shape, "body": body, "tail": tail,
                "attrs": attrs, "pin": pin, "retform": retform}


def _tup(x):
    return tuple(_tup(y) for y in x) if isinstance(x, list) else x


def default_attrs():
    return {"name": None, "name_form": "kw", "level": None, "level_form": "str", "target": None, "target_form": "lit", "parent": None,
            "follows": None, "skips": [], "fields": [], "ret": None, "err": None}


def from_spec(spec, idx):
    """A hand-written skeleton (corpus/C17/*.json): {"kind","recv","groups":[group kinds],"ret":shape,"body":stmt,"tail":expr,"attrs":{..}}
    with statements / expressions as nested JSON lists mirroring the tuples above."""
    recv = spec.get("recv")
    binds, groups = [], []
    if recv:
        binds.append(mk_recv(recv))
    for gi, k in enumerate(spec["groups"]):
        g, b = mk_group(k, len(binds), gi)
        groups.append(g)
        binds += b
    a = default_attrs()
    for k, v in spec.get("attrs", {}).items():
        a[k] = v
    if a["parent"] is not None:
        a["parent"] = _tup(a["parent"])
    a["fields"] = [{"name": _tup(cf["name"]), "kind": cf["kind"], "expr": _tup(cf["expr"])} for cf in a["fields"]]
    for k in ("ret", "err"):
        if a[k] is not None:
            a[k] = {"level": a[k].get("level"), "mode": a[k].get("mode", "default")}
    return {"idx": idx, "kind": spec["kind"], "recv": recv, "groups": groups, "binds": binds, "ret": spec["ret"],
            "body": _tup(spec["body"]), "tail": _tup(spec["tail"]), "attrs": a, "why": spec.get("why", ""),
            "pin": spec.get("pin", "Box::pin") if spec["kind"] in ("boxed", "oldtrait") else None,
            "retform": spec.get("retform", "lit") if spec["kind"] in ("boxed", "oldtrait", "implfut") else None}


def build_corpus(n, seed, specs=()):
    """n generated skeletons (indices 0..n-1), then the hand-written regression skeletons (indices n..)."""
    fns = build_generated(n, seed)
    for k, spec in enumerate(specs):
        fns.append(from_spec(spec, n + k))
    return fns


def build_generated(n, seed):
    rng = random.Random(seed)
    fns = []
    # systematic: every (kind x ret x err) template several times, then random
    forced = []
    for kind in ("sync", "async", "boxed", "implfut", "oldtrait"):
        for ret in (False, True):
            for err in (False, True):
                for rep in range(2 if kind in ("sync", "async") else 1):
                    shape = rng.choice(["res_num_er", "res_rec_er", "res_num_rec"]) if err or rng.random() < 0.3 else rng.choice(SHAPES)
                    forced.append({"kind": kind, "ret": ret, "err": err, "shape": shape})
    for recv in ("ref", "mut", "val"):
        for kind in ("sync", "async", "boxed", "oldtrait", "oldtrait"):
            forced.append({"kind": kind, "recv": recv})
    for gk in GROUP_KINDS:
        forced.append({"groups": [gk, "val"], "kind": "sync"})
        forced.append({"groups": ["bool", gk], "kind": "async"})
    # every spelling of the return type of a boxed-future fn, for both shapes, free functions and methods
    for k, rf in enumerate(RET_FORMS[1:]):
        forced.append({"kind": "boxed", "retform": rf, "recv": None})
        forced.append({"kind": "boxed", "retform": rf, "recv": ["ref", "mut", "val"][k % 3], "ret": True})
        forced.append({"kind": "oldtrait", "retform": rf, "recv": [None, "ref"][k % 2], "err": k % 2 == 0, "shape": "res_num_er"})
    forced.append({"kind": "implfut", "retform": "qlit"})
    # every spelling of the pinning call, for the async-block and the inner-async-fn shapes
    for pf in PIN_FORMS[1:]:
        forced.append({"kind": "boxed", "pin": pf})
        forced.append({"kind": "oldtrait", "pin": pf, "recv": rng.choice([None, "ref"])})
    # every TYPES_FOR_VALUE entry in a qualified spelling and a second one cycling through the forms; bare ones as controls
    vts = sorted(VTYPES)
    for k, tn in enumerate(vts):
        other = vts[(k + 7) % len(vts)]
        forced.append({"groups": ["vq:%s:q" % tn, "val", "vq:%s:%s" % (other, VFORMS[2 + k % 6])], "kind": ["sync", "async", "boxed"][k % 3]})
    for k in range(0, len(vts), 3):
        forced.append({"groups": ["vq:%s:bare" % vts[k], "vq:%s:rbare" % vts[(k + 1) % len(vts)], "vq:%s:lq" % vts[(k + 2) % len(vts)]], "kind": "sync"})
    for i in range(n):
        force = forced[i] if i < len(forced) else None
        fns.append(Gen(rng, i, force).func())
    return fns


# ------------------------------------------------------------------------------------------------
# Rust rendering

def bname(fn, p):
    return fn["binds"][p]["name"]


def r_cond(fn, c):
    if c[0] == "true":
        return "true"
    if c[0] == "false":
        return "false"
    if c[0] == "flag":
        return bname(fn, c[1])
    return "%s > %d" % (bname(fn, c[1]), c[2])


def r_expr(fn, e, ty):
    """ty: Rust type text of the expression when it is Ok/Err (for the turbofish)"""
    k = e[0]
    if k == "unit":
        return "()"
    if k == "num":
        return "%du32" % e[1]
    if k == "prim":
        return bname(fn, e[1])
    if k == "movep":
        b = fn["binds"][e[1]]
        return b["name"] + (".into_r()" if b["access"] == "generic" else "")
    if k == "clonep":
        return "Clone::clone(&*%s)" % ref_of(fn, e[1])
    if k == "ok":
        return "Ok::<%s, %s>(%s)" % (ty[0], ty[1], r_expr(fn, e[1], ty))
    if k == "err":
        inner = r_expr(fn, e[1], ty)
        return "Err::<%s, %s>(%s)" % (ty[0], ty[1], "Er(%s)" % inner if ty[1] == "Er" else inner)
    if k == "eif":
        return "if %s { %s } else { %s }" % (r_cond(fn, e[1]), r_expr(fn, e[2], ty), r_expr(fn, e[3], ty))
    raise ValueError(e)


def ref_of(fn, p):
    """an expression of type &T (T: Rec) for binding p"""
    b = fn["binds"][p]
    a = b["access"]
    if a in ("val", "mutval", "generic", "selfval"):
        return "&" + b["name"]
    if a in ("ref", "genref", "selfref"):
        return b["name"]
    if a in ("mutref", "selfmut"):
        return "&*" + b["name"]
    raise ValueError(a)


def res_ty(fn):
    oe = shape_ok_err(fn["ret"])
    if oe is None:
        return None
    return ({"num": "u32", "rec": "R"}[oe[0]], {"er": "Er", "rec": "R"}[oe[1]])


def r_stmt(fn, s, ind):
    pad = "    " * ind
    k = s[0]
    if k == "skip":
        return ""
    if k == "eff":
        return pad + "eff(%d);\n" % s[1]
    if k == "use":
        b = fn["binds"][s[1]]
        if b["access"] in ("mutval", "mutref", "selfmut"):
            return pad + "%s.touch_mut();\n" % b["name"]
        return pad + "%s.touch();\n" % b["name"]
    if k == "mv":
        return pad + "consume(%s);\n" % bname(fn, s[1])
    if k == "drop":
        return pad + "drop_now(%s);\n" % bname(fn, s[1])
    if k == "ret":
        return pad + "return %s;\n" % r_expr(fn, s[1], res_ty(fn))
    if k == "try":
        ety = res_ty(fn)[1]
        ty = ({"num": "u32", "rec": "R"}[s[2]], ety)
        return pad + "drop_now((%s)?);\n" % r_expr(fn, s[1], ty)
    if k == "panic":
        return pad + "if true { std::panic::panic_any(Pp(%d)); }\n" % s[1]
    if k == "seq":
        return r_stmt(fn, s[1], ind) + r_stmt(fn, s[2], ind)
    if k == "if":
        return (pad + "if %s {\n" % r_cond(fn, s[1]) + r_stmt(fn, s[2], ind + 1) + pad + "} else {\n" + r_stmt(fn, s[3], ind + 1) + pad + "}\n")
    if k == "await":
        return pad + "YieldOnce::new(%d).await;\n" % s[1]
    raise ValueError(s)


def level_text(a):
    l = a["level"]
    form = a["level_form"]
    if form == "str":
        return '"%s"' % LEVEL_NAMES[l].lower()
    if form == "STR":
        return '"%s"' % LEVEL_NAMES[l].capitalize()
    if form == "int":
        return str(6 - l)  # attr.rs: 1 = trace .. 5 = error
    return "tracing::Level::%s" % LEVEL_NAMES[l]


def ev_text(kw, ev):
    parts = []
    if ev["level"] is not None:
        parts.append("level = tracing::Level::%s" % LEVEL_NAMES[ev["level"]])
    if ev["mode"] == "debug":
        parts.append("Debug")
    elif ev["mode"] == "display":
        parts.append("Display")
    return kw + ("(%s)" % ", ".join(parts) if parts else "")


def field_name(fn, nm):
    if nm[0] == "custom":
        return "f%d" % nm[1]
    if nm[0] == "dot":
        return "%s.d%d" % (bname(fn, nm[1]), nm[2])
    return bname(fn, nm[1])


def field_text(fn, cf):
    nm = cf["name"]
    name = field_name(fn, nm)
    fe = cf["expr"]
    if fe[0] == "empty":
        return name
    sig = {"value": "", "debug": "?", "display": "%"}[cf["kind"]]
    if fe[0] == "short":
        return sig + name
    if fe[0] == "num":
        ex = "fx(%d, %d)" % (fe[1], fe[2])
    elif fe[0] == "prim":
        ex = "fx(%d, %s as u64)" % (fe[1], bname(fn, fe[2]))
    else:
        ex = "fxr(%d, %s)" % (fe[1], ref_of(fn, fe[2]))
    return "%s = %s%s" % (name, sig, ex)


def attr_text(fn, order_rng):
    a = fn["attrs"]
    pre, post = [], []
    if a["name"] is not None:
        pre.append({"kw": 'name = "name%d"', "bare": '"name%d"', "const": "name = NAME%d"}[a.get("name_form", "kw")] % a["name"])
    if a["level"] is not None:
        pre.append("level = %s" % level_text(a))
    if a["parent"] is not None:
        pre.append("parent = None" if a["parent"][0] == "none" else "parent = hp(%d)" % a["parent"][1])
    if a["follows"] is not None:
        pre.append("follows_from = hf(&[%s])" % ", ".join(str(k) for k in a["follows"]))
    if a["skips"]:
        pre.append("skip(%s)" % ", ".join(bname(fn, p) for p in a["skips"]))
    if a["fields"]:
        pre.append("fields(%s)" % ", ".join(field_text(fn, cf) for cf in a["fields"]))
    if a["ret"]:
        pre.append(ev_text("ret", a["ret"]))
    if a["err"]:
        pre.append(ev_text("err", a["err"]))
    order_rng.shuffle(pre)
    # `target` after `parent` / `follows_from` (the duplicate-argument guards of attr.rs:101-112 test `args.target`: known finding F172, probed separately by corpus_o)
    if a["target"] is not None and a.get("order") == "target_first":
        # the argument-order probe (known finding F172): `target` *before* `parent` / `follows_from`
        pre.insert(0, 'target = "tgt%d"' % a["target"])
    elif a["target"] is not None:
        tt = ('target = TGT%d' if a.get("target_form") == "const" else 'target = "tgt%d"') % a["target"]
        last_pf = max([i for i, x in enumerate(pre) if x.startswith("parent") or x.startswith("follows_from")] + [-1])
        pos = order_rng.randint(last_pf + 1, len(pre))
        pre.insert(pos, tt)
    return "#[tracing::instrument(%s)]" % ", ".join(pre) if pre else "#[tracing::instrument]"


def fn_name(fn, twin):
    return "%s%s%d" % (twin, "m" if fn["recv"] else "", fn["idx"])


def outer_params(fn):
    """the parameters with plain names `aK: TYPE` (trait method declarations / the wrapper of the inner-async-fn shape)"""
    out = []
    if fn["recv"]:
        out.append({"val": "self", "ref": "&'a self", "mut": "&'a mut self"}[fn["recv"]])
    for k, g in enumerate(fn["groups"]):
        out.append("a%d: %s" % (k, g["sig"].rsplit(": ", 1)[1]))
    return out


def is_assoc(fn):
    return fn.get("retform") == "assoc"


def render_fn(fn, twin, order_rng):
    kind = fn["kind"]
    shape = fn["ret"]
    gens = [g["generic"] for g in fn["groups"] if "generic" in g]
    need_lt = True
    generics = "<" + ", ".join(["'a"] + gens) + ">"
    fgenerics = generics                      # generics of the annotated fn itself
    vis = "pub "
    if is_assoc(fn):                          # a method of `impl<'a> SvcN<'a> for R`: the lifetime belongs to the impl
        fgenerics = ("<" + ", ".join(gens) + ">") if gens else ""
        vis = ""
    params = []
    if fn["recv"]:
        params.append({"val": "self", "ref": "&'a self", "mut": "&'a mut self"}[fn["recv"]])
    params += [g["sig"] for g in fn["groups"]]
    rt = RUST_RET[shape]
    body = r_stmt(fn, fn["body"], 2) + "        " + r_expr(fn, fn["tail"], res_ty(fn)) + "\n"
    name = fn_name(fn, twin)
    attr = (attr_text(fn, order_rng) + "\n    ") if twin == "i" else ""
    if kind == "sync":
        ret = "" if shape == "unit" else " -> " + rt
        return "    %spub fn %s%s(%s)%s {\n%s    }\n" % (attr, name, generics, ", ".join(params), ret, body)
    if kind == "async":
        ret = "" if shape == "unit" else " -> " + (rt + " + 'a" if shape.startswith("impl") else rt)
        return "    %spub async fn %s%s(%s)%s {\n%s    }\n" % (attr, name, generics, ", ".join(params), ret, body)
    inner_t = CONCRETE.get(shape, rt)
    if kind == "oldtrait":
        # async-trait <= 0.1.43 / hand-written: an inner `async fn` helper, called and pinned by the annotated function
        # (`AsyncKind::Function`).  The receiver is handed on as `_self`; the attribute keeps talking about `self`.
        fnb = dict(fn, binds=[dict(b, name="_self") if b["name"] == "self" else b for b in fn["binds"]])
        body = r_stmt(fnb, fn["body"], 3) + "            " + r_expr(fnb, fn["tail"], res_ty(fn)) + "\n"
        helper = ("__%s" % name) if fn["recv"] else ("%s_impl" % name)
        outer, inner, call = [], [], []
        if fn["recv"]:
            outer.append({"val": "self", "ref": "&'a self", "mut": "&'a mut self"}[fn["recv"]])
            inner.append({"val": "_self: R", "ref": "_self: &'a R", "mut": "_self: &'a mut R"}[fn["recv"]])
            call.append("self")
        for k, g in enumerate(fn["groups"]):
            outer.append("a%d: %s" % (k, g["sig"].rsplit(": ", 1)[1]))
            inner.append(g["sig"])
            call.append("a%d" % k)
        return ("    %s%sfn %s%s(%s) -> %s {\n        async fn %s%s(%s) -> %s {\n%s        }\n"
                "        %s(%s(%s))\n    }\n"
                % (attr, vis, name, fgenerics, ", ".join(outer), boxed_ret_text(fn.get("retform"), inner_t), helper, generics, ", ".join(inner), inner_t, body,
                   fn.get("pin") or "Box::pin", helper, ", ".join(call)))
    if kind == "boxed":
        return ("    %s%sfn %s%s(%s) -> %s {\n        %s(async move {\n%s        })\n    }\n"
                % (attr, vis, name, fgenerics, ", ".join(params), boxed_ret_text(fn.get("retform"), inner_t), fn.get("pin") or "Box::pin", body))
    return ("    %spub fn %s%s(%s) -> impl %sFuture<Output = %s> + 'a {\n        async move {\n%s        }\n    }\n"
            % (attr, name, generics, ", ".join(params), "std::future::" if fn.get("retform") == "qlit" else "", inner_t, body))


def render_assoc(fn, order_rng):
    """both twins as methods of a trait impl whose associated type is the boxed future (`fn f(..) -> Self::Fut`)"""
    gens = [g["generic"] for g in fn["groups"] if "generic" in g]
    fg = ("<" + ", ".join(gens) + ">") if gens else ""
    inner_t = CONCRETE.get(fn["ret"], RUST_RET[fn["ret"]])
    decl = "".join("    fn %s%s(%s) -> Self::Fut;\n" % (fn_name(fn, t), fg, ", ".join(outer_params(fn))) for t in "pi")
    return ("pub trait Svc%d<'a> {\n    type Fut;\n%s}\nimpl<'a> Svc%d<'a> for R {\n    type Fut = Pin<Box<dyn Future<Output = %s> + 'a>>;\n%s%s}\n"
            % (fn["idx"], decl, fn["idx"], inner_t, render_fn(fn, "p", order_rng), render_fn(fn, "i", order_rng)))


def render_mk(fn):
    setup = []
    args = []
    if fn["recv"] == "val":
        setup.append("let r0 = R::new(0);")
    elif fn["recv"] == "ref":
        setup.append("let r0: &'static R = Box::leak(Box::new(R::new(0)));")
    elif fn["recv"] == "mut":
        setup.append("let r0: &'static mut R = Box::leak(Box::new(R::new(0)));")
    for g in fn["groups"]:
        setup += g["setup"]
        args.append(g["arg"])
    pn, iname = fn_name(fn, "p"), fn_name(fn, "i")
    if fn["recv"]:
        callp = "R::%s(r0%s)" % (pn, "".join(", " + x for x in args))
        calli = "R::%s(r0%s)" % (iname, "".join(", " + x for x in args))
    elif is_assoc(fn):
        callp = "R::%s(%s)" % (pn, ", ".join(args))
        calli = "R::%s(%s)" % (iname, ", ".join(args))
    else:
        callp = "%s(%s)" % (pn, ", ".join(args))
        calli = "%s(%s)" % (iname, ", ".join(args))
    s = "fn mk%d(t: char, a: &[u64]) -> Call {\n    let a: Vec<u64> = a.to_vec();\n" % fn["idx"]
    if fn["kind"] == "sync":
        s += "    Call::Sync(Box::new(move || {\n        %s\n        if t == 'p' { finish(%s) } else { finish(%s) }\n    }))\n}\n" % (
            "\n        ".join(setup), callp, calli)
    else:
        s += "    Call::Async(Box::new(move || -> Fut {\n        %s\n        if t == 'p' { wrap(%s) } else { wrap(%s) }\n    }))\n}\n" % (
            "\n        ".join(setup), callp, calli)
    return s


HEADER = """//! GENERATED by driver/props/c17_corpus.py (deterministic) — twins for C17.  Do not edit.
#![allow(unused, unreachable_code, clippy::all)]
use super::support::*;
use std::future::Future;
use std::num::*;
use std::pin::Pin;

pub const STRS: [&str; 4] = ["s0", "s1", "s2", "s3"];
fn wrap<T: Canon + 'static>(f: impl Future<Output = T> + 'static) -> Fut {
    Box::pin(async move { finish(f.await) })
}
/// an alias of an alias of the boxed-future type
pub type LocalFut<'a, T> = BoxFut<'a, T>;
"""


def render_corpus(fns, seed):
    order_rng = random.Random(seed * 7919 + 1)
    free, methods, traits, mks = [], [], [], []
    for fn in fns:
        if is_assoc(fn):
            traits.append(render_assoc(fn, order_rng))
        else:
            for twin in ("p", "i"):
                txt = render_fn(fn, twin, order_rng)
                (methods if fn["recv"] else free).append(txt)
        mks.append(render_mk(fn))
    out = [HEADER]
    out.append("".join(free) + "impl R {\n" + "".join(methods) + "}\n" + "".join(traits))
    out.append("".join(mks))
    out.append("pub fn mk(f: usize, t: char, a: &[u64]) -> Option<Call> {\n    Some(match f {\n" +
               "".join("        %d => mk%d(t, a),\n" % (fn["idx"], fn["idx"]) for fn in fns) + "        _ => return None,\n    })\n}\n")
    out.append("pub const N_FUNCS: usize = %d;\n" % len(fns))
    return "\n".join(out)


# ------------------------------------------------------------------------------------------------
# Coq rendering

def c_opt(x, f=str):
    return "None" if x is None else "(Some %s)" % f(x)


def c_cond(c):
    return {"true": "CTrue", "false": "CFalse"}.get(c[0]) or ("(CFlag %d)" % c[1] if c[0] == "flag" else "(CGt %d %d)" % (c[1], c[2]))


def c_expr(e):
    k = e[0]
    if k == "unit":
        return "EUnit"
    if k == "num":
        return "(ENum %d)" % e[1]
    if k == "prim":
        return "(EPrim %d)" % e[1]
    if k == "movep":
        return "(EMoveP %d)" % e[1]
    if k == "clonep":
        return "(ECloneP %d)" % e[1]
    if k == "ok":
        return "(EOk %s)" % c_expr(e[1])
    if k == "err":
        return "(EErr %s)" % c_expr(e[1])
    return "(EIf %s %s %s)" % (c_cond(e[1]), c_expr(e[2]), c_expr(e[3]))


def c_stmt(s):
    k = s[0]
    if k == "skip":
        return "SSkip"
    if k in ("eff", "use", "mv", "drop", "panic", "await"):
        return "(%s %d)" % ({"eff": "SEff", "use": "SUse", "mv": "SMoveOut", "drop": "SDropNow", "panic": "SPanic", "await": "SAwait"}[k], s[1])
    if k == "ret":
        return "(SRet %s)" % c_expr(s[1])
    if k == "try":
        return "(STry %s)" % c_expr(s[1])
    if k == "seq":
        return "(SSeq %s %s)" % (c_stmt(s[1]), c_stmt(s[2]))
    return "(SIf %s %s %s)" % (c_cond(s[1]), c_stmt(s[2]), c_stmt(s[3]))


MODEL_TY = {"rec": "TRec", "u32": "TU32", "bool": "TBool", "str": "TStr", "vnum": "TU32", "vbool": "TBool", "vstr": "TStr"}


def c_spell(sp):
    if sp[0] == "other":
        return "(TyOther %d)" % sp[1]
    _, refs, lead, segs, gens = sp
    return "(TyPath %d %s [%s] %s)" % (refs, "true" if lead else "false", "; ".join('"%s"%%string' % x for x in segs), "true" if gens else "false")


def c_param(b):
    """RecordType is NOT taken from the generator: the model computes it from the type as written (last-segment rule) and the
    TYPES_FOR_VALUE table the translator read off expand.rs"""
    return "(mkParam %s %s (rtype_of Gen_attr.gen_types_for_value %s %s) %s %s)" % (
        MODEL_TY[b["ty"]], "true" if b["owned"] else "false", c_spell(b["spell"]), b["pat"], "true" if b["named"] else "false", b["pat"])


def c_func(fn):
    kind = {"sync": "KSync", "async": "KAsync", "boxed": "KBoxed", "implfut": "KBoxed", "oldtrait": "KHelper"}[fn["kind"]]
    if fn["kind"] in ("boxed", "oldtrait"):
        # the model decides from the callee as written whether the attribute sees "a fn returning a boxed future" at all
        inner_t = CONCRETE.get(fn["ret"], RUST_RET[fn["ret"]])
        kind = "(kind_of_fn (match Gen_attr.gen_box_pin_suffix with Some s => s | None => EmptyString end) [%s] %s %s)" % (
            "; ".join('"%s"%%string' % x for x in pin_segments(fn.get("pin") or "Box::pin")),
            c_spell(spell_of(boxed_ret_text(fn.get("retform"), inner_t))), kind)
    return "(mkFunc %s [%s] %s %s)" % (kind, "; ".join(c_param(b) for b in fn["binds"]), c_stmt(fn["body"]), c_expr(fn["tail"]))


def c_ev(ev):
    if ev is None:
        return "None"
    return "(Some (mkEv %s %s))" % (c_opt(ev["level"]), {"default": "MDefault", "debug": "MDebug", "display": "MDisplay"}[ev["mode"]])


def c_field(cf, binds):
    n = cf["name"]
    nm = "(FnCustom %d)" % n[1] if n[0] == "custom" else ("(FnDot %d %d)" % (n[1], n[2]) if n[0] == "dot" else "(FnParam %d)" % n[1])
    k = {"value": "FKValue", "debug": "FKDebug", "display": "FKDisplay"}[cf["kind"]]
    fe = cf["expr"]
    if fe[0] == "empty":
        ex = "FxEmpty"
    elif fe[0] == "short":
        ex = "(FxShort %d %s)" % (fe[1], {"rec": "TRec", "u32": "TU32", "bool": "TBool", "str": "TStr"}[binds[fe[1]]["ty"]])
    else:
        ex = "(%s %d %d)" % ({"num": "FxNum", "prim": "FxPrim", "rec": "FxRec"}[fe[0]], fe[1], fe[2])
    return "(mkCF %s %s %s)" % (nm, k, ex)


def c_attrs(a, binds):
    par = "None" if a["parent"] is None else ("(Some PxNone)" if a["parent"][0] == "none" else "(Some (PxHelper %d))" % a["parent"][1])
    fol = "None" if a["follows"] is None else "(Some [%s])" % "; ".join(str(k) for k in a["follows"])
    return "(mkAttrs %s %s %s %s %s [%s] [%s] %s %s)" % (
        c_opt(a["name"]), c_opt(a["level"]), c_opt(a["target"]), par, fol, "; ".join(str(p) for p in a["skips"]),
        "; ".join(c_field(cf, binds) for cf in a["fields"]), c_ev(a["ret"]), c_ev(a["err"]))


def c_args(vals, cancel_site=None):
    """an `N -> N` environment; cancel_site K: the caller drops the future while it is suspended at await site K"""
    arms = " ".join("| %d => %d" % (i, v) for i, v in enumerate(vals) if v)
    if cancel_site is not None:
        arms += " | %d => 1" % (1000 + cancel_site)
    return "(fun p : N => match p with %s | _ => 0 end)" % arms


# ------------------------------------------------------------------------------------------------
# static description used by the driver (coverage keys)

def template_key(fn):
    a = fn["attrs"]
    return "%s/%s%s" % ({"sync": "sync", "oldtrait": "async-helper"}.get(fn["kind"], "async"), "ret" if a["ret"] else "", "err" if a["err"] else "") + \
           ("" if a["ret"] or a["err"] else "plain") + ("" if (fn.get("pin") or "Box::pin") == "Box::pin" else "@" + fn["pin"]) + \
           ("" if (fn.get("retform") or "lit") == "lit" else "->" + fn["retform"])


def pattern_key(fn):
    return ",".join(sorted(set(b["pat"] + ("" if b["ty"] == "rec" else ":" + b["ty"]) + ("" if b["owned"] or b["ty"] != "rec" else ":ref")
                               + (":%s:%s" % b["vq"] if b.get("vq") else "")
                               for b in fn["binds"])))


def attr_key(fn):
    a = fn["attrs"]
    ks = []
    for k in ("name", "level", "target", "parent", "follows"):
        if a[k] is not None:
            ks.append(k + {"name": ":" + a.get("name_form", "kw"), "target": ":" + a.get("target_form", "lit"), "level": ":" + a.get("level_form", "str")}.get(k, ""))
    if a["skips"]:
        ks.append("skip")
    for cf in a["fields"]:
        ks.append("field:%s:%s%s" % (cf["kind"], cf["expr"][0], {"param": ":override", "dot": ":dotted"}.get(cf["name"][0], "")))
    for k in ("ret", "err"):
        if a[k]:
            ks.append("%s:%s:%s" % (k, a[k]["mode"], "lvl" if a[k]["level"] else "-"))
    return ",".join(sorted(set(ks)))
