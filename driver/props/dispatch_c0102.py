"""Shared by driver/props/c01.py and c02.py: case language, generators, harness / model runners, shrinking.

A case = {"cols": [(thr, [targets], dyn, hint)], "ops": [op, ...]} with op one of
  ("new",) ("drop",c) ("open",t,d) ("close",t,k) ("setglobal",t,c) ("emit",t,cs) ("probe",t,cs)
  ("getdefault",t,cs|None) ("getcurrent",t) ("rebuild",) ("flip",c) ("panic",t,[d,...])
  ("emitcb",t,cs,k,cs2)   emission whose receiving collector's callback does k: 0 nothing, 1 panics (caught), 2 emits cs2 re-entrantly,
                          3 emits cs2 then panics  (model: Dispatch/Reentry.v, C02 only)
  ("exit",t,d,cs)         thread t exits: its guards are dropped innermost-first, then two thread-local destructors each do
                          `with_default(&d, || emit cs)` — one while tracing-core's thread-local is alive, one after it is destroyed (C02 only)
  ("exitguard",t,d)       thread t drops its guards LIFO, opens a scope on d whose DefaultGuard lives in a thread-local destroyed AFTER
                          tracing-core's own thread-local, and exits (C02 only)
  ("tryinit",t)           tracing-subscriber's SubscriberInitExt::try_init on a fresh collector (the next `col` line): = new; setglobal; drop
                          of the handle (C02 only, package harness/dispatch_init)
Encodings are those of coq/theories/Dispatch/Model.v and harness/dispatch/src/bin/h_dispatch.rs:
dispatcher d: 0 = Dispatch::none(), c+1 = collector c; interest 0/1/2; level / filter rank 0..5 (0 = OFF).
"""
import json
import os
import sys

import vlib

REQUIRES = ("From Coq Require Import NArith List String.\nImport ListNotations.\n"
            "From TV Require Import Dispatch.Model Dispatch.Shape Dispatch.Reentry Dispatch.Source.\nLocal Open Scope N_scope.")
KIND_NUM = {"span": 0, "event": 1, "hint": 2}


def translate(ctx, rep, guard_too=True):
    """Run translators/dispatch_shape.py on ctx.repo (every run), write coq/gen/Gen_dispatch.v, record the tie
    (C02: dispatch.rs's default machinery only; C01, whose model also contains the macro guard and callsite.rs: everything).
    Returns (dispatch readings, guard readings).  d["fx"]: True = dispatch.rs never populates the thread-local from the
    global default (F1 repaired), False = the shape from before fix aa353f7, None = mixture / unrecognised (fail closed:
    the tie is broken and Properties/C02.v no longer compiles)."""
    tdir = os.path.join(vlib.VERIF, "translators")
    if tdir not in sys.path:
        sys.path.insert(0, tdir)
    import dispatch_shape
    d, g, unrec_d, unrec_g = dispatch_shape.shapes(ctx.repo)
    text, _ = dispatch_shape.main(ctx.repo, None)
    vlib.gen_if_changed(os.path.join(vlib.COQ, "gen", "Gen_dispatch.v"), text)
    rep.tie("translator:Gen_dispatch:dispatch.rs", not unrec_d, "; ".join(unrec_d[:4]), unrec_d[:1] or None)
    if guard_too:
        rep.tie("translator:Gen_dispatch:callsite.rs,collect.rs,lib.rs,macros.rs,level_filters.rs", not unrec_g, "; ".join(unrec_g[:4]), unrec_g[:1] or None)
    d["unrec"], g["unrec"] = len(unrec_d), len(unrec_g)
    ctx.log("dispatch.rs variant read off the source: %s" % {True: "repaired (thread-local never caches the global default)",
                                                             False: "as before fix aa353f7 (F1 shape)", None: "UNRECOGNISED"}[d["fx"]])
    return d, g


def model_fx(d):
    """The variant the model is run with = Source.src_fx (an unrecognised mixture counts as unrepaired)."""
    return bool(d["fx"])


def static_max_from_table(g, features, release=False):
    """Python mirror of Shape.static_max_of on the table as read (the Coq side pins the harness builds in C01_source_static_max
    and proves C01_static_cap_is_configured for every selection)."""
    def first(rel):
        hit = [lvl for f, rel_only, lvl in g["static"] if rel_only == rel and f in features]
        if not hit:
            return None
        return hit[-1] if g.get("static_last") else hit[0]
    r = first(release)
    if r is None and release and g.get("static_ft"):
        r = first(False)
    return 5 if r is None else r


def check_source_summary(ctx, rep, d, g):
    """Coq's view of the generated file == Python's reading (guards against the two drifting apart)."""
    try:
        res = vlib.coq_eval(ctx, REQUIRES, [("summary", "src_summary"),
                                            ("smax", '[src_static_max []; src_static_max ["max_level_info"%string]; '
                                                     'src_static_max_of true ["max_level_info"%string; "release_max_level_trace"%string]; '
                                                     'src_static_max_of true ["max_level_info"%string]]')],
                            tag="source_summary", shards=1)
        got = res["summary"]     # [src_fx, dispatch_shape_ok, guard_shape_ok, #unrecognised dispatch.rs, #unrecognised elsewhere]
        ok = got[0] == (1 if model_fx(d) else 0) and got[3:] == [d["unrec"], g["unrec"]] and \
            (d["unrec"] > 0 or got[1] == 1) and (g["unrec"] > 0 or got[2] == 1) and \
            res["smax"] == [static_max_from_table(g, []), static_max_from_table(g, ["max_level_info"]),
                            static_max_from_table(g, ["max_level_info", "release_max_level_trace"], True), static_max_from_table(g, ["max_level_info"], True)]
        rep.tie("translator:python-reading==coq-reading", ok, "src_summary=%s src_static_max=%s" % (got, res["smax"]), None if ok else {"coq": res})
    except Exception as ex:
        rep.tie("translator:python-reading==coq-reading", False, str(ex)[:300])


# ------------------------------------------------------------------------------------------------
# rendering

def case_text(case):
    out = []
    for thr, tg, dyn, hint in case["cols"]:
        out.append("col %d %s %d %d" % (thr, ",".join(map(str, tg)) if tg else "-", dyn, hint))
    for o in case["ops"]:
        k = o[0]
        if k == "getdefault":
            out.append("op getdefault %d%s" % (o[1], "" if o[2] is None else " %d" % o[2]))
        elif k == "panic":
            out.append("op panic %d %s" % (o[1], ",".join(map(str, o[2]))))
        else:
            out.append("op " + " ".join([k] + [str(x) for x in o[1:]]))
    return "\n".join(out) + "\n"


def parse_case_text(text):
    cols, ops = [], []
    for line in text.splitlines():
        w = line.split()
        if not w or w[0].startswith("#"):
            continue
        if w[0] == "col":
            cols.append((int(w[1]), [] if w[2] == "-" else [int(x) for x in w[2].split(",")], int(w[3]), int(w[4])))
        elif w[0] == "op":
            k = w[1]
            if k == "getdefault":
                ops.append(("getdefault", int(w[2]), int(w[3]) if len(w) > 3 else None))
            elif k == "panic":
                ops.append(("panic", int(w[2]), [int(x) for x in w[3].split(",")]))
            else:
                ops.append(tuple([k] + [int(x) for x in w[2:]]))
    return {"cols": cols, "ops": ops}


def coq_disp(d):
    return "DNone" if d == 0 else "(DCol %d)" % (d - 1)


def coq_cs(pool, i):
    p = pool[i]
    return "(mk_cs %d %d %d %d)" % (i, p["lvl"], p["tgt"], KIND_NUM[p["kind"]])


def expand(ops):
    """Model-side expansion: `panic t [d1..dn]` = n opens, one get_default, n LIFO closes (what unwinding does).
    Returns (expanded ops, index map: for each original op the list of expanded positions)."""
    out, idx = [], []
    ncreated = 0
    for o in ops:
        if o[0] == "new":
            ncreated += 1
        if o[0] == "tryinit":
            # try_init(self) = set_global_default(Dispatch::new(self)): a new collector is registered whatever happens; the user never
            # holds a handle on it (kept alive by the global default if the call succeeds, dead otherwise)
            c = ncreated
            ncreated += 1
            idx.append([len(out), len(out) + 1, len(out) + 2])
            out += [("new",), ("setglobal", o[1], c), ("drop", c)]
        elif o[0] == "exitguard":
            # LIFO drop of every guard the thread may still hold, set_default(&d); then the thread-local state is destroyed and the
            # guard (owned by a thread-local that outlives it) is dropped: the scope is uncounted again — for every later op exactly a close
            t, dd = o[1], o[2]
            k = sum(1 for q in out if q[0] == "open" and q[1] == t)
            pos = []
            for q in [("close", t, 0)] * k + [("open", t, dd), ("close", t, 0)]:
                pos.append(len(out))
                out.append(q)
            idx.append(pos)
        elif o[0] == "panic":
            t, ds = o[1], o[2]
            pos = []
            for d in ds:
                pos.append(len(out))
                out.append(("open", t, d))
            pos.append(len(out))
            out.append(("getdefault", t, None))
            for _ in ds:
                pos.append(len(out))
                out.append(("close", t, 0))
            idx.append(pos)
        elif o[0] == "exit":
            # get_current (registers CURRENT_STATE), LIFO drop of every guard the thread may still hold (surplus closes are refused
            # no-ops in the model), the destructor that runs while the thread-local is alive (an ordinary scope), and the one after
            t, dd, cs = o[1], o[2], o[3]
            k = sum(1 for q in out if q[0] == "open" and q[1] == t)
            pos = []
            for q in [("getcurrent", t)] + [("close", t, 0)] * k + [("open", t, dd), ("emit", t, cs), ("close", t, 0), ("deadscope", t, cs)]:
                pos.append(len(out))
                out.append(q)
            idx.append(pos)
        else:
            idx.append([len(out)])
            out.append(o)
    return out, idx


def coq_op(pool, o):
    k = o[0]
    if k == "new":
        return "New"
    if k == "drop":
        return "DropHandle %d" % o[1]
    if k == "open":
        return "Open %d %s" % (o[1], coq_disp(o[2]))
    if k == "close":
        return "Close %d %d%%nat" % (o[1], o[2])
    if k == "setglobal":
        return "SetGlobal %d %d" % (o[1], o[2])
    if k == "emit":
        return "Emit %d %s" % (o[1], coq_cs(pool, o[2]))
    if k == "probe":
        return "Probe %d %s" % (o[1], coq_cs(pool, o[2]))
    if k == "getdefault":
        return "GetDefault %d" % o[1]
    if k == "getcurrent":
        return "GetCurrent %d" % o[1]
    if k == "rebuild":
        return "Rebuild"
    if k == "flip":
        return "Flip %d" % o[1]
    raise ValueError(o)


def coq_xop(pool, o):
    if o[0] == "deadscope":
        return "XDeadScope %d %s" % (o[1], coq_cs(pool, o[2]))
    if o[0] == "emitcb":
        return "XEmitCb %d %s (mk_cb %d %s)" % (o[1], coq_cs(pool, o[2]), o[3], coq_cs(pool, o[4]))
    return "XBase (%s)" % coq_op(pool, o)


def coq_case(pool, case, x=False):
    cols = "[" + "; ".join("mk_fspec %d [%s] %d %d" % (thr, "; ".join(map(str, tg)), dyn, hint) for thr, tg, dyn, hint in case["cols"]) + "]"
    ops, _ = expand(case["ops"])
    return "(%s, [%s])" % (cols, "; ".join((coq_xop if x else coq_op)(pool, o) for o in ops))


# ------------------------------------------------------------------------------------------------
# implementation side

BUILDS = {
    # variant: (harness package, binary, tracing features, cargo --release i.e. no debug assertions)
    None: ("dispatch", "h_dispatch", [], False),
    "info": ("dispatch_info", "h_dispatch_info", ["max_level_info"], False),
    "rel_trace": ("dispatch_rel_trace", "h_dispatch_rel_trace", ["max_level_info", "release_max_level_trace"], True),
    "rel_info": ("dispatch_rel_info", "h_dispatch_rel_info", ["max_level_info"], True),
    "init": ("dispatch_init", "h_dispatch_init", [], False),
    "info_debug": ("dispatch_info_debug", "h_dispatch_info_debug", ["max_level_info", "max_level_debug"], False),
    "rel_info_debug": ("dispatch_rel_info_debug", "h_dispatch_rel_info_debug", ["release_max_level_info", "release_max_level_debug", "max_level_error"], True),
}
LEVEL_NAMES = ["off", "error", "warn", "info", "debug", "trace"]


def build(ctx, rep, release=False, capped=False, variant=None):
    """Default build: harness/dispatch (STATIC_MAX_LEVEL = TRACE).  Variants (each its own package with the same source via a
    symlink, so all stay cached): "info" = `max_level_info` with debug assertions; "rel_trace" / "rel_info" = release-profile
    builds (no debug assertions) with `max_level_info` + `release_max_level_trace` / with only `max_level_info`."""
    if capped:
        variant = "info"
    pkg, exe, features, rel = BUILDS[variant]
    rel = rel or release
    ok, paths, log = vlib.cargo_build(ctx, pkg, [exe], release=rel)
    if not ok:
        rep.tie("build:" + exe, False, vlib.last_error(log))
        return None, None
    rc, out = vlib.run_bin(paths[exe], ["--pool"], timeout=60)
    rows = [json.loads(l) for l in out.splitlines() if l.startswith("{")]
    pool = [r for r in rows if "i" in r]
    smax = [r for r in rows if "static_max" in r][0]["static_max"]
    return paths[exe], {"pool": pool, "static_max": smax, "features": features, "release": rel}


def configured_cap(features, release):
    """What the feature NAMES configure for this profile (Shape.configured_cap): the most restrictive selected
    `release_max_level_<n>` (no debug assertions) / `max_level_<n>`; None = the family selects nothing."""
    prefix = "release_max_level_" if release else "max_level_"
    for lvl, n in enumerate(LEVEL_NAMES):
        if prefix + n in features:
            return lvl
    return None


def run_impl(ctx, binpath, cases, tag="batch"):
    """cases: {id: case}.  Returns {id: [op records]} ; a child that crashed / hung yields {'rc':..}."""
    path = os.path.join(ctx.work, "%s.cases" % tag)
    with open(path, "w") as f:
        for cid, c in cases.items():
            f.write("case %s\n" % cid)
            f.write(case_text(c))
    rc, out = vlib.run_bin(binpath, ["--batch", path, str(vlib.NCPU)], timeout=1800)
    res = {}
    for l in out.splitlines():
        if l.startswith("{"):
            r = json.loads(l)
            res[r["case"]] = r
    return res


def run_impl_one(binpath, case):
    rc, out = vlib.sh([binpath, "--one"], 120, input=case_text(case))
    return rc, [json.loads(l) for l in out.splitlines() if l.startswith("{")]


# ------------------------------------------------------------------------------------------------
# model side

def run_model(ctx, pool, smax, cases, fx, what=("run",), tag="cases", chunk=40, x=False):
    """Evaluates the model (and optionally spec_case / f1_case) on every case.  x=True: the re-entrancy model of Dispatch/Reentry.v
    (ops may include emitcb); the specification / F1 monitor then see the history with the callbacks forgotten (`erase`).
    Returns {id: {'run':..,'spec':..,'f1':..}}."""
    ids = list(cases)
    terms = []
    base = "erase (snd c)" if x else "snd c"
    for i in range(0, len(ids), chunk):
        part = ids[i:i + chunk]
        lits = "; ".join(coq_case(pool, cases[c], x) for c in part)
        fields = []
        if "run" in what:
            # the variant is Source.src_fx (and src_unwind_resets), i.e. what the translator read on this run (fx is only cross-checked, see check_source_summary)
            fields.append(("src_xrun_case %d (fst c) (snd c)" if x else "src_run_case %d (fst c) (snd c)") % smax)
        if "spec" in what:
            fields.append("spec_case (%s)" % base)
        if "f1" in what:
            fields.append("f1_case %d (fst c) (%s)" % (smax, base))
        body = fields[0] if len(fields) == 1 else "(" + ", ".join(fields) + ")"
        terms.append(("k%d" % i, "map (fun c : list fspec * list %s => %s) [%s]" % ("xop" if x else "op", body, lits)))
    res = vlib.coq_eval(ctx, REQUIRES, terms, tag=tag, shards=min(vlib.NCPU, max(1, len(terms))))
    out = {}
    for i in range(0, len(ids), chunk):
        part = ids[i:i + chunk]
        vals = res["k%d" % i]
        for cid, v in zip(part, vals):
            if len(what) == 1:
                v = (v,)
            out[cid] = dict(zip([w for w in ("run", "spec", "f1") if w in what], v))
    return out


def expected_from_model(pool, case, mrun):
    """Translate the model's observation list (over expanded ops) into what the harness prints per original op."""
    ops = case["ops"]
    _, idx = expand(ops)
    exp = []
    for o, pos in zip(ops, idx):
        k = o[0]
        rows = [mrun[p] for p in pos]
        last = rows[-1]
        e = {"k": k, "max": last[-1], "del": [], "bad": 0}
        head = rows[0]
        if k == "tryinit":
            e["c"] = rows[0][1]
            e["ok"] = rows[1][1]
        elif k == "exitguard":
            if rows[-2][0] == 2:
                e["bad"] = 1
        elif k == "exit":
            p = pool[o[3]]
            for r in rows:
                if r[0] == 4 and r[2] > 0:
                    e["del"].append([r[2] - 1, KIND_NUM[p["kind"]], p["lvl"], p["tgt"]])
        elif k == "panic":
            if any(r[0] == 2 for r in rows[:len(o[2])]):
                # an inexpressible dispatcher: the harness refuses the whole op; the model must not have moved either
                e["bad"] = 1
            else:
                e["d"] = rows[len(o[2])][1]
                e["unwound"] = 1
        elif head[0] == 2:
            e["bad"] = 1
        elif head[0] == 0:
            e["c"] = head[1]
        elif head[0] == 3:
            e["ok"] = head[1]
        elif head[0] == 4:
            if head[2] > 0:
                p = pool[o[2]]
                e["del"] = [[head[2] - 1, KIND_NUM[p["kind"]], p["lvl"], p["tgt"]]]
        elif head[0] == 5:
            e["r"] = head[2]
        elif head[0] == 6:
            e["d"] = head[1]
        elif head[0] == 7:
            # emitcb: [7, consulted, delivered, nested (0 none / 1 nobody / c+2), panicked, max]
            p = pool[o[2]]
            if head[2] > 0:
                e["del"] = [[head[2] - 1, KIND_NUM[p["kind"]], p["lvl"], p["tgt"]]]
            if head[3] >= 2:
                q = pool[o[4]]
                e["del"].append([head[3] - 2, KIND_NUM[q["kind"]], q["lvl"], q["tgt"]])
            e["panic"] = head[4]
        elif head[0] == 8:
            e["d"] = -2          # get_current returned None
        exp.append(e)
    return exp


def diff_case(pool, case, impl_recs, mrun):
    """First disagreement between the implementation's records and the model, or None."""
    exp = expected_from_model(pool, case, mrun)
    if len(impl_recs) != len(exp):
        return {"what": "length", "impl": len(impl_recs), "model": len(exp)}
    for i, (r, e) in enumerate(zip(impl_recs, exp)):
        got = {"k": r["k"], "max": r["max"], "del": r["del"], "bad": r.get("bad", 0)}
        want = {"k": e["k"], "max": e["max"], "del": e["del"], "bad": e["bad"]}
        for f in ("c", "ok", "r", "d", "unwound", "panic"):
            if f in e:
                want[f] = e[f]
                got[f] = r.get(f)
        if e["k"] == "panic" and e["bad"]:
            # model-side expansion of a refused panic op may have executed a prefix: compare only the refusal
            got = {"bad": got["bad"]}
            want = {"bad": 1}
        if got != want:
            return {"op_index": i, "op": list(case["ops"][i]), "impl": got, "model": want}
    return None


# ------------------------------------------------------------------------------------------------
# python-side bookkeeping used by oracles / non-triviality rules (never by the tie)

def py_static_ok(col, p):
    thr, tg, dyn, hint = col
    return p["lvl"] <= thr and p["tgt"] in tg


def py_reg(col, p):
    if not py_static_ok(col, p):
        return 0
    return 1 if col[2] != 0 else 2


def hint_sound(col):
    thr, tg, dyn, hint = col
    return hint == 0 or (hint - 1) >= thr


def shrink(case, violates, max_rounds=6):
    """Greedy one-op removal (ddmin with granularity 1) on the op list; keeps `cols` (ids are positional)."""
    ops = list(case["ops"])
    for _ in range(max_rounds):
        changed = False
        i = len(ops) - 1
        while i >= 0:
            if ops[i][0] != "new":  # removing a `new` renumbers collectors
                trial = ops[:i] + ops[i + 1:]
                c2 = {"cols": case["cols"], "ops": trial}
                try:
                    if violates(c2):
                        ops = trial
                        changed = True
                except Exception:
                    pass
            i -= 1
        if not changed:
            break
    return {"cols": case["cols"], "ops": ops}


def load_corpus(prop):
    d = os.path.join(vlib.VERIF, "corpus", prop)
    out = {}
    if os.path.isdir(d):
        for f in sorted(os.listdir(d)):
            if f.endswith(".case"):
                out["corpus:" + f[:-5]] = parse_case_text(vlib.read(os.path.join(d, f)))
    return out


def load_replay(path):
    j = json.load(open(path))
    c = j.get("case", j)
    c = c.get("case", c) if "cols" not in c else c
    return {"cols": [tuple(x) for x in c["cols"]], "ops": [tuple(o) for o in c["ops"]]}
