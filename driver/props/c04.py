"""C04 — Racing callsite registration and collector turnover converge; none is stranded.

Leg A: theorems of coq/theories/Properties/C04.v about the micro-step model Dispatch/Sched_Model.v (every schedule,
       any number of threads).
Leg B: (i) operation-granularity correspondence: multi-thread histories, one process per history, real static
       callsites, driven op by op; per op the sequence of register_callsite / max_level_hint / enabled calls, the
       delivery and LevelFilter::current() must equal the model's.  (ii) forced schedules through the H3 yield points
       (skipped, and recorded as skipped, when the repository under check has no yield call sites): per schedule entry
       the yield point the released thread parks at, the event log, completion and MAX_LEVEL must equal the model's
       run of the same schedule.
Leg C: oracle on the implementation's observations only (sched_common.oracle_case): no hang / panic; an emission that
       starts with collector c current is delivered iff c's filter accepts it; nothing is delivered to a rejecting
       collector (known finding F41: a global default installed while the emission runs); at quiescence every probe is
       delivered iff the current collector accepts it; MAX_LEVEL is never below a live collector's hint; every
       registered callsite was offered to every collector live at the end."""
import itertools
import os
import sys

import vlib
from vlib import Report, coq_prove, cargo_build

from props import sched_common as sc

PLAIN_KINDS = ["level", "lvlnh", "targets", "dyn", "none"]


def rand_spec(rng, kinds=PLAIN_KINDS):
    k = rng.choice(kinds)
    if k in ("level", "lvlnh"):
        return (k, rng.choice([0, 1, 2, 3, 3, 4, 5, 5]))
    if k in ("targets", "env"):
        return (k, rng.randint(0, 5), rng.randint(0, 5))
    if k == "dyn":
        h = rng.randint(1, 5)
        return (k, rng.randint(0, h), h)
    return ("none",)


def tail(n, reps=140):
    return [t for _ in range(reps) for t in range(n)]


# ------------------------------------------------------------------------------------------------
# (i) operation-granularity histories

def gen_history(rng, malformed=False):
    n = rng.randint(1, 4)
    filters = [rand_spec(rng) for _ in range(rng.randint(2, 6))]
    ncoll = rng.randint(1, 6)
    css = rng.sample(range(sc.NCS), rng.randint(2, 7))
    ops = []
    created = set()
    any_scope = False
    length = rng.randint(5, 40)
    for _ in range(length):
        t = rng.randrange(n)
        r = rng.random()
        if malformed and r < 0.25:
            op = rng.choice([("drop", 9), ("setdefault", 9), ("reload", 9, 0), ("close",), ("drop", rng.randrange(ncoll)),
                             ("new", rng.choice(sorted(created) or [0]), 0, "plain"), ("setglobal", 9)])
            if op[0] == "new" and op[1] not in created:
                created.add(op[1])
        elif r < 0.45:
            op = ("emit", rng.choice(css))
        elif r < 0.60:
            c = rng.randrange(ncoll)
            fid = rng.randrange(len(filters))
            op = ("new", c, fid, "plain" if (rng.random() < 0.8 or filters[fid][0] == "lvlnh") else "rlayer")
            created.add(c)
        elif r < 0.70:
            op = ("drop", rng.randrange(ncoll))
        elif r < 0.82:
            op = ("setdefault", rng.randrange(ncoll))
            any_scope = True
        elif r < 0.89:
            op = ("close",)
        elif r < 0.93 and not any_scope:
            op = ("setglobal", rng.randrange(ncoll))     # only before the first scope anywhere (finding F1 is C02's)
        elif r < 0.97:
            op = ("rebuild",)
        else:
            op = ("emit", rng.randrange(sc.NCS))
        ops.append((t, op))
    # rlayer stacks cannot express lvlnh/dyn-with-L<H hints differently; they can: keep
    probes = [(t, ("emit", cs)) for t in range(n) for cs in rng.sample(css, min(len(css), 3))]
    return {"n": n, "filters": filters, "pre": ops, "progs": [[] for _ in range(n)], "sched": [], "post": probes}


def nontrivial_history(case):
    """a drop or a rebuild between two emits at the same callsite, or two collectors created with filters that
    disagree on an emitted callsite"""
    seen = {}
    turn = 0
    ok = False
    for _, op in case["pre"]:
        if op[0] in ("drop", "rebuild", "new"):
            turn += 1
        if op[0] == "emit":
            if op[1] in seen and seen[op[1]] < turn:
                ok = True
            seen[op[1]] = turn
    return ok


# ------------------------------------------------------------------------------------------------
# (ii) forced-schedule scenarios

def gen_scenario(rng):
    n = rng.choice([2, 2, 2, 3])
    filters = [rand_spec(rng) for _ in range(rng.randint(2, 4))]
    css = rng.sample(range(sc.NCS), rng.randint(1, 3))
    use_global = rng.random() < 0.18        # then no scoped default anywhere in the case (F1 is C02's)
    pre = []
    ncoll = 0
    for _ in range(rng.randint(0, 2)):
        pre.append((rng.randrange(n), ("new", ncoll, rng.randrange(len(filters)), "plain")))
        ncoll += 1
    if not use_global:
        for t in range(n):
            if ncoll and rng.random() < 0.7:
                pre.append((t, ("setdefault", rng.randrange(ncoll))))
    elif ncoll and rng.random() < 0.4:
        pre.append((0, ("setglobal", rng.randrange(ncoll))))
    for _ in range(rng.randint(0, 2)):
        pre.append((rng.randrange(n), ("emit", rng.choice(css))))
    if ncoll and rng.random() < 0.3:
        pre.append((rng.randrange(n), ("drop", rng.randrange(ncoll))))
    progs = []
    fresh = ncoll
    for t in range(n):
        p = []
        for _ in range(rng.randint(1, 3 if n == 2 else 2)):
            r = rng.random()
            if r < 0.45:
                p.append(("emit", rng.choice(css)))
            elif r < 0.68:
                p.append(("new", fresh, rng.randrange(len(filters)), "plain"))
                fresh += 1
            elif r < 0.76 and fresh:
                p.append(("drop", rng.randrange(fresh)))
            elif r < 0.84:
                p.append(("rebuild",))
            elif r < 0.94 and fresh:
                if use_global:
                    p.append(("setglobal", rng.randrange(fresh)))
                else:
                    p.append(("setdefault", rng.randrange(fresh)))
            elif not use_global:
                p.append(("close",))
            else:
                p.append(("emit", rng.choice(css)))
        progs.append(p)
    post = [(t, ("emit", cs)) for t in range(n) for cs in css]
    post += [(rng.randrange(n), ("emit", rng.randrange(sc.NCS))) for _ in range(2)]
    return {"n": n, "filters": filters, "pre": pre, "progs": progs, "sched": [], "post": post}


def schedules_for(rng, n, how_many):
    """schedules that do not need to know the step counts: entries for finished / blocked threads are stutters"""
    out = []
    for _ in range(how_many):
        r = rng.random()
        order = list(range(n))
        rng.shuffle(order)
        if r < 0.45:      # one preemption: a runs k steps, the others run to completion, a finishes
            a = order[0]
            s = [a] * rng.choice([rng.randint(0, 14), rng.randint(0, 45)])
            for b in order[1:]:
                s += [b] * 90
            s += [a] * 90
        elif r < 0.75:    # two preemptions
            a, b = order[0], order[1]
            s = [a] * rng.randint(0, 30) + [b] * rng.randint(0, 30) + [a] * rng.randint(0, 30)
            for c in order[2:]:
                s += [c] * rng.randint(0, 90)
            s += [b] * 90 + [a] * 90
        elif r < 0.9:     # random bursts
            s = []
            for _ in range(rng.randint(4, 14)):
                s += [rng.randrange(n)] * rng.choice([1, 1, 2, 3, 5, 8])
        else:             # fine-grained alternation
            s = [order[i % n] for i in range(rng.randint(10, 60))]
        out.append(s + tail(n))
    return out


def exhaustive_scenarios():
    """2-thread scenarios small enough to enumerate EVERY interleaving of their yield-granularity steps"""
    f = [("level", 5), ("level", 2)]
    return [
        # first hit (no collector: 11 steps) vs rebuild_interest_cache (5 steps)
        ("firsthit-vs-rebuild", {"n": 2, "filters": f, "pre": [(0, ("new", 0, 0, "plain")), (0, ("drop", 0)), (1, ("emit", 4))],
                                 "progs": [[("emit", 2)], [("rebuild",)]], "post": [(0, ("emit", 2)), (1, ("emit", 2))]}, 11, 5),
        # cached emission (3 steps) vs Dispatch::new with one registered callsite (13 steps)
        ("cached-vs-new", {"n": 2, "filters": f, "pre": [(0, ("new", 0, 0, "plain")), (0, ("setdefault", 0)), (0, ("emit", 3))],
                           "progs": [[("emit", 3)], [("new", 1, 1, "plain")]], "post": [(0, ("emit", 3)), (1, ("emit", 3))]}, 3, 13),
    ]


def interleavings(na, nb):
    for pos in itertools.combinations(range(na + nb), na):
        s = [1] * (na + nb)
        for p in pos:
            s[p] = 0
        yield s


# ------------------------------------------------------------------------------------------------

def detect_hooks(ctx, binpath):
    """does the repository under check have the H3 yield call sites?  (a canary case)"""
    case = {"n": 1, "filters": [("level", 5)], "pre": [], "progs": [[("new", 0, 0, "plain"), ("emit", 2), ("rebuild",)]],
            "sched": [0] * 50, "post": []}
    r = sc.run_impl(ctx, binpath, [case], "canary")[0]
    seen = (r["hooks"] or {}).get("seen", [])
    return bool((r["hooks"] or {}).get("core")), seen, r


def compare_and_judge(ctx, rep, cases, impl, model, stream, nontrivial_rule, known="F41"):
    disagree = []
    for i, (case, im) in enumerate(zip(cases, impl)):
        rep.evaluations += 1
        viol, flags = sc.oracle_case(case, im, known)
        for what, replay, finding in viol:
            rep.violation(what, replay, finding=finding)
        if model is not None:
            d = sc.diff(case, im, model[i])
            if d is not None:
                disagree.append({"case": sc.case_text(case), "disagreement": d})
            else:
                rep.traces_validated += 1
        if nontrivial_rule(case, im, flags):
            rep.nontrivial.add((stream, sc.case_text(case)))
        for _, op in case["pre"] + case["post"]:
            rep.count("op:" + op[0])
        for p in case["progs"]:
            for op in p:
                rep.count("racing-op:" + op[0])
        if flags.get("mid_install"):
            rep.count("mid-install-observed")
        if 996 in (im.get("yields") or []):
            rep.count("slept-on-a-lock (oracle only)")
    if model is not None:
        rep.tie("correspondence:" + stream, not disagree, "%d of %d cases disagree" % (len(disagree), len(cases)), disagree[:1] or None)
    return disagree


def run(ctx):
    rep = Report(ctx)
    rep.rule = ("op-granularity histories: non-trivial = a drop / rebuild / new between two emits at the same callsite; distinct = distinct case text. "
                "forced schedules: non-trivial = at least one preemption while some thread is inside an operation (register / register_dispatch / "
                "rebuild / emit); distinct = distinct (scenario, schedule)")
    rep.trusted_base = [
        "Coq 8.16.1 kernel + vm_compute", "harness/sched/h_sched.rs (observing Collect wrapper, plain filter collector, deterministic scheduler with a shadow of the DISPATCHERS lock)",
        "hooks/H3_core.patch: yield points only add scheduling points (add-only, cfg-guarded)",
        "driver/props/sched_common.py: Python specification of LevelFilter/Targets/DynFilterFn/None verdicts, scopes and liveness (the oracle)",
        "std: RwLock as a reader/writer lock, Arc/Weak liveness, atomics under sequential consistency (modelled, not verified)"]
    rep.assumptions = [
        "sequential consistency at the granularity of the code's atomic operations and lock events (weak-memory effects are outside the model)",
        "collector callbacks are pure functions of the value in the collector's cell and do not emit (no re-entrant registration)",
        "the current collector is resolved as C02 specifies (innermost scope, else global default); generated cases avoid finding F1's class",
        "deadlock-freedom is proved of the model and sampled on the code (hang detection under forced schedules): label partial",
        "the steps that hold a reload cell's write lock have no yield point: forced schedules do not preempt inside them (the theorems do)"]
    # ---- leg A
    # ---- translator: the yield points of the modelled sources (static tie, proved equal to the model's in Sched_Points.v)
    sys.path.insert(0, os.path.join(vlib.VERIF, "translators"))
    import sched_points
    text, unrec = sched_points.main(ctx.repo, None)
    vlib.gen_if_changed(os.path.join(vlib.COQ, "gen", "Gen_sched_points.v"), text)
    rep.tie("translator:Gen_sched_points", not unrec, "; ".join(unrec[:4]), unrec[:1] or None)
    rep.proof = coq_prove(ctx, "C04", ["theories/Properties/C04.vo"])
    # ---- build
    ok, paths, log = cargo_build(ctx, "sched", ["h_sched"])
    if not ok:
        rep.tie("build:h_sched", False, vlib.last_error(log))
        return rep
    binpath = paths["h_sched"]
    hooks, seen, canary = detect_hooks(ctx, binpath)
    ctx.notes.append("H3 yield call sites %s in %s (yield ids seen by the canary: %s)" % ("present" if hooks else "ABSENT: forced-schedule part skipped", ctx.repo, seen))
    rep.extra["h3_hooks_present"] = hooks
    if hooks:
        sc.calibrate_locks(ctx, rep, binpath)
    thorough = ctx.thorough()
    rng = ctx.rng

    # ---- corpus first
    corpus = load_corpus(hooks)
    # ---- (i) op-granularity
    n_hist = 1500 if thorough else 220
    hist = [c for _, c in corpus if not any(c["progs"])]
    hist += [gen_history(rng, malformed=(i % 6 == 5)) for i in range(n_hist)]
    impl = sc.run_impl(ctx, binpath, hist, "hist")
    model = None
    try:
        model = sc.model_eval(ctx, hist, "mhist")
    except Exception as ex:
        rep.tie("model-eval:histories", False, str(ex)[:300])
    compare_and_judge(ctx, rep, hist, impl, model, "histories", lambda c, im, fl: nontrivial_history(c))
    for c in hist:
        rep.count("threads:%d" % c["n"])
        rep.count("history-length:%d-%d" % (len(c["pre"]) // 10 * 10, len(c["pre"]) // 10 * 10 + 9))

    # ---- (ii) forced schedules
    if hooks:
        cases = [c for _, c in corpus if any(c["progs"])]
        n_scen = 260 if thorough else 45
        per = 10 if thorough else 6
        for _ in range(n_scen):
            base = gen_scenario(rng)
            for s in schedules_for(rng, base["n"], per):
                cases.append(dict(base, sched=s))
        ex_names = []
        for name, base, na, nb in exhaustive_scenarios():
            ils = list(interleavings(na, nb))
            if not thorough:
                ils = rng.sample(ils, 60)
            else:
                ex_names.append("%s:%d" % (name, len(ils)))
            for il in ils:
                cases.append(dict(base, sched=il + tail(2, 30)))
        fam = sc.family_cases(sc.c04_families(), rng, thorough)
        cases += fam
        rep.count("race-family-schedules", len(fam))
        rep.extra["race_families"] = sorted({c["family"] for c in fam})
        impl = sc.run_impl(ctx, binpath, cases, "sched")
        model = None
        try:
            model = sc.model_eval(ctx, cases, "msched")
        except Exception as ex:
            rep.tie("model-eval:schedules", False, str(ex)[:300])
        compare_and_judge(ctx, rep, cases, impl, model, "forced-schedules", lambda c, im, fl: bool(fl.get("preempted")))
        sc.worlds_wf(ctx, rep, hist + cases, "wf")
        unfinished = sum(1 for im in impl if im["finished"] is False)
        # a schedule that ends before every thread has finished is a property of the GENERATOR, not of tracing: such a case is not
        # judged beyond its scheduled part (no post-phase oracle, no model comparison) and is counted here; the harness then lets the
        # threads run free, and a thread that does not finish within 30 s is still reported as a hang (violation, case = replay)
        rep.count("schedule-ended-early (not judged)", unfinished)
        rep.count("forced-schedules", len(cases))
        if thorough:
            rep.extra["exhaustive_interleavings"] = ex_names
    else:
        rep.count("forced-schedules-skipped-no-hooks")
    rep.samples = [{"history": sc.case_text(hist[min(3, len(hist) - 1)])[:600]}]
    return rep


def load_corpus(hooks, prop="C04"):
    """corpus/C04/*.case: case files in the harness format with a leading comment line `#py <python dict>`"""
    import ast
    out = []
    d = os.path.join(vlib.VERIF, "corpus", prop)
    if os.path.isdir(d):
        for f in sorted(os.listdir(d)):
            if f.endswith(".case"):
                first = open(os.path.join(d, f)).readline()
                if first.startswith("#py "):
                    out.append((f, ast.literal_eval(first[4:])))
    return out
