"""C18 — `log` and `tracing` interoperate without losing, inventing or mislabelling records.

Leg A: theorems of coq/theories/Properties/C18.v over LogBridge/Model.v, an interpreter of the *generated*
       Gen_logbridge.v (translators/logbridge.py, re-run on every check) and of Gen_levels.v (C19's level tables).
Leg B: translator (every run) + correspondence, ONE PROCESS PER CONFIGURATION:
         a) log -> tracing: h_logbridge (tracing-log with `log-tracer`): records x collector filters x ignore lists x
            entry points; what the collector was asked, the events it got and their normalized_metadata();
         b) tracing -> log: h_logfeat (tracing with `log`) and h_logalways (`log-always`): histories of events / span
            lifecycle steps through the real macros before and after a collector is installed, a recording log::Log.
       The model is evaluated (vm_compute) on the same cases and compared record by record.
Leg C: oracle = the property text, evaluated here in Python directly on the implementation's observations."""
import json
import os
import sys
from concurrent.futures import ThreadPoolExecutor

import vlib
from vlib import Report, coq_prove, cargo_build, run_bin, coq_eval, gen_if_changed, coq_bytes

sys.path.insert(0, os.path.join(vlib.VERIF, "translators"))
import logbridge as lb_tr  # noqa: E402
import levels as levels_tr  # noqa: E402

LV = ["Error", "Warn", "Info", "Debug", "Trace"]
LVU = ["OFF", "ERROR", "WARN", "INFO", "DEBUG", "TRACE"]


def x(s):
    return "x" + s.encode("utf-8").hex()


def cb(s):
    return coq_bytes(s.encode("utf-8"))


def colv(n):
    """0..5 -> option lv"""
    return "None" if n <= 0 else "(Some %s)" % LV[n - 1]


def cobytes(s):
    return "None" if s is None else "(Some %s)" % cb(s)


def coN(n):
    return "None" if n is None else "(Some %d)" % n


def table(rules, dflt, target, lvl):
    for t, m in rules:
        if t == target:
            return lvl <= m
    return lvl <= dflt


def crules(rules):
    return "[" + "; ".join("(%s, %s)" % (cb(t), colv(m)) for t, m in rules) + "]"


def unb(lst):
    return bytes(lst).decode("utf-8", "replace")


# =====================================================================================================================
# part a: log -> tracing

TARGETS_A = ["app", "app::db", "log", "ignored", "ign", "ig", "hyper::client", "", "αβγ::δ", "app ", "LOG", "logx", "xlog",
             "a{}b", "tracing::span", "my-crate", "db", "App", "apple", "ap", "hyper", "hyperx", "αβ", "α"]
IGNORES = [[], [], [], ["ign"], ["hyper", "app::"], ["log"], [""], ["db"], ["pp", "client"], ["og"], ["αβ"], ["app::db"],
           ["ignored::more"], ["x"], ["app", "log", "ign"], ["app"], ["App"], ["hyper::client::conn"], ["αβγ"], ["lo", "xl"],
           ["my-crate", "my_crate"], ["ignored", "ignored"], [" app"], ["app "]]
# string literals without arguments (keep in step with with_lit / emit_macro_lit in h_logbridge.rs; the harness echoes them)
LITS = ["plain literal message", "with \"quotes\" inside", "back\\slash and \ttab", "line1\nline2", "{braces} and %s", "", "ünï✓ 🦀",
        "log.target=evil 'single'"]
INITS = ["builder", "builder", "builder", "all", "default", "init", "filter", "new"]


def effective_logmax(c):
    """log::max_level() after the logger is installed the way the configuration says"""
    return 5 if c.get("init", "builder") in ("default", "init") else c["logmax"]


def near(rng, p):
    """targets around an ignore-list entry: itself, extensions, proper prefixes, case changes, embeddings"""
    return rng.choice([p, p + "::sub", "pre" + p, p[:-1] if p else p, p + p, p + " ", " " + p, p.upper(), p.capitalize(),
                       p + "x", "x" + p, p[1:] if p else p, p[:max(1, len(p) // 2)], p.replace("::", ":")])
MESSAGES = ["hello", "", "héllo wörld ✓", "{}", "{x} {{}} }{", "line1\nline2", "quote\"s and \\ back", "a=1 b=2", "\t tab",
            "log.target=evil", "日本語のメッセージ", "%s %d", "x" * 200, "emoji 🦀", "nul\u0000byte", " leading and trailing "]
FILES = [None, "src/main.rs", "", "/abs/päth/lib.rs", "C:\\win\\x.rs"]
MODULES = [None, "app::db", "", "krate::mödule", "log"]
LINES = [None, 0, 1, 42, 65536, 4294967295]


def rand_text(rng, lo=0, hi=12):
    alphabet = "abcxyz:_- {}\"\\=éλ✓\n;01"
    return "".join(rng.choice(alphabet) for _ in range(rng.randint(lo, hi)))


def gen_cfg_a(rng, idx, n_rec):
    tp = list(TARGETS_A) + [rand_text(rng, 1, 8) for _ in range(3)]
    mode = rng.choice(["scoped", "scoped", "scoped", "global", "global", "none"])
    hint = rng.choice([-1, -1, -1, 5, 5, 4, 3, 2, 1, 0])
    dflt = rng.choice([5, 5, 4, 3, 2, 1, 0, 0])
    rules = []
    # make the synthetic callsite's target "log" disagree with the rest often: that is the non-trivial case
    r = rng.random()
    if r < 0.4:
        rules.append(("log", rng.choice([0, 0, 1, 2, 3])))
    elif r < 0.7:
        rules.append(("log", 5))
    for t in rng.sample(tp, rng.randint(0, 6)):
        if t != "log":
            rules.append((t, rng.randint(0, 5)))
    if hint >= 0 and rng.random() < 0.6:
        # keep most hinted collectors self-consistent (the hint is an upper bound of what `enabled` accepts)
        dflt = min(dflt, hint)
        rules = [(t, min(m, hint)) for t, m in rules]
    dangling = rng.choice([None, None, None, None, -1, 5, 3, 1])
    logmax = rng.choice([5, 5, 5, 5, 4, 3, 2, 1, 0])
    init = rng.choice(INITS)
    ignore = list(rng.choice(IGNORES)) if init in ("builder", "all", "default") else []

    def pick_target():
        target = rng.choice(tp) if rng.random() < 0.9 else rand_text(rng, 0, 10)
        if ignore and rng.random() < 0.3:
            target = near(rng, rng.choice(ignore))
        return target
    items = []
    for _ in range(n_rec):
        r = rng.random()
        if r < 0.06:
            items.append({"k": "foreign", "level": rng.randint(1, 5), "target": rng.choice(tp)})
            continue
        if r < 0.14:
            items.append({"k": "enq", "level": rng.randint(1, 5), "target": pick_target()})
            continue
        if r < 0.17:
            items.append({"k": rng.choice(["cvm", "cvl"]), "level": rng.randint(1, 5), "target": pick_target()})
            continue
        if r < 0.19:
            items.append({"k": "cvr", "level": rng.randint(1, 5), "target": pick_target(),
                          "file": rng.choice(FILES), "line": rng.choice(LINES), "module": rng.choice(MODULES)})
            continue
        entry = rng.choice("DDDDDDMMFF")
        msg = rng.choice(MESSAGES) if rng.random() < 0.7 else rand_text(rng, 0, 30)
        it = {"k": "rec", "entry": entry, "level": rng.randint(1, 5), "target": pick_target(), "msg": msg,
              "file": rng.choice(FILES), "line": rng.choice(LINES), "module": rng.choice(MODULES)}
        if rng.random() < 0.2:
            # a message that is a string literal without arguments (`record.args().as_str()` is Some)
            it["lit"] = rng.randrange(len(LITS))
            it["msg"] = LITS[it["lit"]]
        items.append(it)
    return {"part": "a", "id": "a%03d" % idx, "logmax": logmax, "init": init, "ignore": ignore, "mode": mode, "hint": hint, "dflt": dflt,
            "rules": rules, "dangling": dangling, "items": items}


def case_text_a(c):
    L = ["# C18 part a (log -> tracing) %s" % c["id"], "logmax %d" % c["logmax"], "init %s" % c.get("init", "builder")]
    for i in c["ignore"]:
        L.append("ignore " + x(i))
    L.append("collector %s %d %d %s" % (c["mode"], c["hint"], c["dflt"], " ".join("%s=%d" % (x(t), m) for t, m in c["rules"])))
    if c["dangling"] is not None:
        L.append("dangling %d" % c["dangling"])
    for it in c["items"]:
        if it["k"] in ("foreign", "enq", "cvm", "cvl"):
            L.append("%s %d %s" % (it["k"], it["level"], x(it["target"])))
        elif it["k"] == "cvr":
            L.append("cvr %d %s %s %s %s" % (it["level"], x(it["target"]), "-" if it["file"] is None else x(it["file"]),
                                            "-" if it["line"] is None else str(it["line"]), "-" if it["module"] is None else x(it["module"])))
        elif "lit" in it:
            L.append("lit %s %d %s %d %s %s %s" % (it["entry"], it["level"], x(it["target"]), it["lit"],
                                                   "-" if it["file"] is None else x(it["file"]),
                                                   "-" if it["line"] is None else str(it["line"]),
                                                   "-" if it["module"] is None else x(it["module"])))
        else:
            L.append("rec %s %d %s %s %s %s %s" % (it["entry"], it["level"], x(it["target"]), x(it["msg"]),
                                                   "-" if it["file"] is None else x(it["file"]),
                                                   "-" if it["line"] is None else str(it["line"]),
                                                   "-" if it["module"] is None else x(it["module"])))
    return "\n".join(L) + "\n"


def parse_case_a(text, cid):
    c = {"part": "a", "id": cid, "logmax": 5, "init": "builder", "ignore": [], "mode": "none", "hint": -1, "dflt": 5, "rules": [], "dangling": None, "items": []}

    def ux(s):
        return bytes.fromhex(s[1:]).decode("utf-8")
    for line in text.splitlines():
        t = line.split()
        if not t or t[0].startswith("#"):
            continue
        if t[0] == "logmax":
            c["logmax"] = int(t[1])
        elif t[0] == "init":
            c["init"] = t[1]
        elif t[0] == "ignore":
            c["ignore"].append(ux(t[1]))
        elif t[0] == "collector":
            c["mode"], c["hint"], c["dflt"] = t[1], int(t[2]), int(t[3])
            c["rules"] = [(ux(r.split("=")[0]), int(r.split("=")[1])) for r in t[4:]]
        elif t[0] == "dangling":
            c["dangling"] = int(t[1])
        elif t[0] in ("foreign", "enq", "cvm", "cvl"):
            c["items"].append({"k": t[0], "level": int(t[1]), "target": ux(t[2])})
        elif t[0] == "cvr":
            c["items"].append({"k": "cvr", "level": int(t[1]), "target": ux(t[2]), "file": None if t[3] == "-" else ux(t[3]),
                               "line": None if t[4] == "-" else int(t[4]), "module": None if t[5] == "-" else ux(t[5])})
        elif t[0] == "lit":
            c["items"].append({"k": "rec", "entry": t[1], "level": int(t[2]), "target": ux(t[3]), "lit": int(t[4]), "msg": LITS[int(t[4])],
                               "file": None if t[5] == "-" else ux(t[5]), "line": None if t[6] == "-" else int(t[6]),
                               "module": None if t[7] == "-" else ux(t[7])})
        elif t[0] == "rec":
            c["items"].append({"k": "rec", "entry": t[1], "level": int(t[2]), "target": ux(t[3]), "msg": ux(t[4]),
                               "file": None if t[5] == "-" else ux(t[5]), "line": None if t[6] == "-" else int(t[6]),
                               "module": None if t[7] == "-" else ux(t[7])})
    return c


def predicted_current(c):
    hints = []
    if c["mode"] != "none":
        hints.append(5 if c["hint"] < 0 else c["hint"])
    if c["dangling"] is not None:
        hints.append(5 if c["dangling"] < 0 else c["dangling"])
    return max(hints) if hints else 0


def hexs(h):
    return None if h is None else bytes.fromhex(h).decode("utf-8")


def canon_impl_obs_a(o):
    if o["t"] == "en":
        return ("en", hexs(o["name"]), hexs(o["target"]), o["level"], hexs(o["file"]), o["line"], hexs(o["module"]), o["cs"] if o["cs"] >= 0 else None)
    fields = [(hexs(f[0]), f[1], hexs(f[2]), f[3]) for f in o["fields"]]
    n = o["norm"]
    norm = None if n is None else (hexs(n["name"]), hexs(n["target"]), n["level"], hexs(n["file"]), n["line"], hexs(n["module"]),
                                   [hexs(f) for f in n["fields"]])
    return ("ev", hexs(o["name"]), hexs(o["target"]), o["level"], o["cs"] if o["cs"] >= 0 else None, fields, bool(o["is_log"]), norm)


def dbg_messages(o):
    """what a visitor that implements only `record_debug` gets for the `message` field: the `{:?}` texts"""
    return [hexs(v) for n, v in o.get("dbg", []) if hexs(n) == "message"]


def som(v):
    """('Some', x) -> x ; None -> None"""
    if v is None:
        return None
    assert isinstance(v, tuple) and v[0] == "Some", v
    return v[1]


def sb(v):
    v = som(v)
    return None if v is None else unb(v)


def canon_model_event(ev):
    name, target, lvl, cs, fields, (islog, norm) = ev
    fl = [(sb(f[0]), f[1][0], unb(f[1][1]), f[1][2]) for f in fields]
    if norm is None:
        nn = "STUCK"                      # the model's tables are inconsistent
    elif norm[1] is None:
        nn = None                         # not a log event
    else:
        nname, ntarget, nlvl, (nf, nl, nm), nfields = norm[1][1]
        nn = (unb(nname), unb(ntarget), nlvl, sb(nf), som(nl), sb(nm), [unb(f) for f in nfields])
    return ("ev", unb(name), unb(target), lvl, som(cs), fl, som(islog), nn)


def canon_model_obs_a(o):
    kind, m, e = o
    if kind == 0:
        name, target, lvl, (f, l, md), cs = som(m)
        return ("en", unb(name), unb(target), lvl, sb(f), som(l), sb(md), som(cs))
    return canon_model_event(som(e))


def model_terms_a(c, impl):
    """Coq terms for one configuration (after the implementation ran: macro records take the harness' own location)."""
    cur = predicted_current(c)
    filt = "(fun _ _ => false)" if c["mode"] == "none" else "(table_filter %s %s)" % (crules(c["rules"]), colv(c["dflt"]))
    st = "(mkB %s [%s] %s)" % (colv(cur), "; ".join(cb(i) for i in c["ignore"]), filt)
    # log::max_level(): through the model of the builder where the builder sets it
    init = c.get("init", "builder")
    if init == "new":
        mx = colv(c["logmax"])
    else:
        w = "None" if init in ("default", "init") else "(Some %s)" % colv(c["logmax"])
        mx = "(match builder_log_max %s with Some f => f | None => None end)" % w
    recs, foreign = [], []
    enq, cvm, cvr, cvl = [], [], [], []
    for i, it in enumerate(c["items"]):
        if it["k"] == "foreign":
            foreign.append((i, "(mkEvent %s %s %s \"HARNESS_CS\" [(mkField \"HARNESS_CS\" 0, Some (VArgs %s)); (mkField \"HARNESS_CS\" 1, Some (VStr %s))])" % (
                cb("log event"), cb("log"), LV[it["level"] - 1], cb("not a log record"), cb(it["target"]))))
            continue
        if it["k"] in ("enq", "cvm"):
            (enq if it["k"] == "enq" else cvm).append((i, "(mkRec %s %s [] None None None)" % (LV[it["level"] - 1], cb(it["target"]))))
            continue
        if it["k"] == "cvr":
            cvr.append((i, "(mkRec %s %s [] %s %s %s)" % (LV[it["level"] - 1], cb(it["target"]), cobytes(it["file"]), coN(it["line"]), cobytes(it["module"]))))
            continue
        if it["k"] == "cvl":
            cvl.append((i, "(mkMeta [] %s %s None None None)" % (cb(it["target"]), LV[it["level"] - 1])))
            continue
        f, l, m = it["file"], it["line"], it["module"]
        if it["entry"] == "M":
            f, m = impl["file"], impl["module"]
            l = impl["items"][i].get("macro_line")
        en = {"D": "EDirect", "M": "(EMacro %s)" % mx, "F": "EFormatTrace"}[it["entry"]]
        recs.append((i, "(%s, mkRec %s %s %s %s %s %s)" % (en, LV[it["level"] - 1], cb(it["target"]), cb(it["msg"]), cobytes(f), coN(l), cobytes(m))))
    terms = [(c["id"] + ":recs", "map (fun p => enc_bridge (bridge %s (fst p) (snd p))) [%s]" % (st, "; ".join(t for _, t in recs)))]
    if foreign:
        terms.append((c["id"] + ":foreign", "map enc_event [%s]" % "; ".join(t for _, t in foreign)))
    if enq or cvm or cvr or cvl:
        terms.append((c["id"] + ":entries", "(map (fun r => enc_enabled (tracer_enabled %s r)) [%s], map (fun r => enc_as_trace (as_trace_meta gen_as_trace_metadata r)) [%s], "
                      "map (fun r => enc_as_trace (as_trace_meta gen_as_trace_record r)) [%s], map (fun m => enc_as_log (as_log_meta m)) [%s])" % (
                          st, "; ".join(t for _, t in enq), "; ".join(t for _, t in cvm), "; ".join(t for _, t in cvr), "; ".join(t for _, t in cvl))))
    terms.append((c["id"] + ":logmax", "option_map (fun f => rank (VF f)) (%s)" % (
        "Some %s" % colv(c["logmax"]) if init == "new" else "builder_log_max %s" % ("None" if init in ("default", "init") else "(Some %s)" % colv(c["logmax"])))))
    return terms, [i for i, _ in recs], [i for i, _ in foreign], {"enq": [i for i, _ in enq], "cvm": [i for i, _ in cvm], "cvr": [i for i, _ in cvr], "cvl": [i for i, _ in cvl]}


def oracle_a(rep, c, impl, text):
    """The property, on the implementation's observations only."""
    cur = impl["current"]
    for i, it in enumerate(c["items"]):
        o = impl["items"][i]
        obs = [canon_impl_obs_a(z) for z in o["obs"]]
        evs = [z for z in obs if z[0] == "ev"]
        rep.evaluations += 1
        case = {"part": "a", "case_id": c["id"], "item": i, "record": it, "collector": {k: c[k] for k in ("mode", "hint", "dflt", "rules", "dangling")},
                "ignore": c["ignore"], "logmax": c["logmax"], "observed": o["obs"], "case_file": text}
        if o["panic"]:
            rep.violation("the bridge panicked on a record", case)
            continue
        if it["k"] == "foreign":
            rep.count("a:foreign")
            if c["mode"] != "none":
                if len(evs) != 1 or evs[0][6] is not False or evs[0][7] is not None:
                    rep.violation("an event that is not a log record is labelled as one (is_log / normalized_metadata)", case)
            continue
        if it["k"] in ("cvm", "cvr"):
            rep.count("a:" + it["k"])
            cv = o.get("conv")
            want = (it["target"], it["level"]) + ((it["file"], it["line"], it["module"]) if it["k"] == "cvr" else (None, None, None))
            got = None if cv is None else (hexs(cv["target"]), cv["level"], hexs(cv["file"]), cv["line"], hexs(cv["module"]))
            if got != want or obs:
                rep.violation("as_trace of a log::%s mislabels it: (target, level, file, line, module) = %r, expected %r" % (
                    "Metadata" if it["k"] == "cvm" else "Record", got, want), case)
            continue
        if it["k"] == "cvl":
            rep.count("a:cvl")
            al = o.get("aslog")
            if al is None or (al[0], hexs(al[1])) != (it["level"], it["target"]) or obs:
                rep.violation("as_log of a tracing Metadata mislabels it: %r, expected (%d, %r)" % (al, it["level"], it["target"]), case)
            continue
        if it["k"] == "enq":
            rep.count("a:enq")
            acc = c["mode"] != "none" and table(c["rules"], c["dflt"], it["target"], it["level"])
            ign = any(it["target"].startswith(p) for p in c["ignore"])
            gat = it["level"] > cur
            if acc != (c["mode"] != "none" and table(c["rules"], c["dflt"], "log", it["level"])) and not ign and not gat:
                rep.nontrivial.add(("a", "enq", it["level"], it["target"], acc, tuple(sorted(c["rules"])), c["dflt"]))
            if evs:
                rep.violation("Log::enabled produced an event", case)
            elif o.get("ans") and (not acc or ign):
                rep.violation("Log::enabled answers true for (level %s, target %r) although the current collector %s" % (
                    LVU[it["level"]], it["target"], "rejects that level and target" if not acc else "accepts it but the target has an ignored prefix"), case)
            elif acc and not ign and not gat and not o.get("ans"):
                rep.violation("Log::enabled answers false for (level %s, target %r) although the current collector accepts that level and target" % (
                    LVU[it["level"]], it["target"]), case)
            continue
        rep.count("a:entry-" + it["entry"] + ("-literal" if "lit" in it else ""))
        rep.count("a:level-%s" % LVU[it["level"]])
        rep.count("a:loc-%d%d%d" % (it["file"] is not None, it["line"] is not None, it["module"] is not None))
        accepts = c["mode"] != "none" and table(c["rules"], c["dflt"], it["target"], it["level"])
        accepts_log = c["mode"] != "none" and table(c["rules"], c["dflt"], "log", it["level"])
        ignored = it["entry"] != "F" and any(it["target"].startswith(p) for p in c["ignore"])
        gated = (it["entry"] != "F" and it["level"] > cur) or (it["entry"] == "M" and it["level"] > effective_logmax(c))
        rep.count("a:" + ("accepted" if accepts else "rejected") + ("+ignored" if ignored else "") + ("+gated" if gated else ""))
        if accepts != accepts_log and not ignored and not gated:
            rep.nontrivial.add(("a", it["entry"], it["level"], it["target"], accepts, tuple(sorted(c["rules"])), c["dflt"]))
        if not accepts:
            want = 0
        elif ignored:
            want = 0
        elif gated:
            want = None  # a collector whose hint is below what its `enabled` accepts: outside the property
        else:
            want = 1
        if want is not None and len(evs) != want:
            rep.violation("log record (level %s, target %r, entry %s) produced %d event(s); the current collector %s its own level and target%s -> expected %d"
                          % (LVU[it["level"]], it["target"], it["entry"], len(evs), "accepts" if accepts else "rejects",
                             " but the target has an ignored prefix" if (accepts and ignored) else "", want), case)
            continue
        if len(evs) > 1:
            rep.violation("log record produced %d events" % len(evs), case)
            continue
        for ev in evs:
            _, name, target, lvl, cs, fields, islog, norm = ev
            f, l, m = it["file"], it["line"], it["module"]
            if it["entry"] == "M":
                f, l, m = impl["file"], o.get("macro_line"), impl["module"]
            msgs = [v for (n, k, v, _) in fields if n == "message"]
            if msgs != [it["msg"]]:
                rep.violation("the event does not carry the record's message: %r vs %r" % (msgs, it["msg"]), case)
            dmsgs = [m_ for z in o["obs"] if z["t"] == "ev" for m_ in dbg_messages(z)]
            if dmsgs != [it["msg"]]:
                rep.violation("the event does not carry the record's message to a visitor that implements only record_debug (the `message` convention): "
                              "its Debug text is %r, the record's message is %r%s" % (dmsgs, it["msg"], " (a string literal without arguments)" if "lit" in it else ""), case)
            if lvl != it["level"]:
                rep.violation("the event's level is %s, the record's %s" % (LVU[lvl], LVU[it["level"]]), case)
            want_norm = ("log event", it["target"], it["level"], f, l, m, ["message"])
            if not islog or norm is None:
                rep.violation("the event is not recognised as a log event (is_log=%s, normalized=%s)" % (islog, norm is not None), case)
            elif norm[1:6] != want_norm[1:6]:
                rep.violation("normalized_metadata (target, level, file, line, module) = %r, the record has %r" % (norm[1:6], want_norm[1:6]), case)


def run_case_a(path, binp):
    rc, out = run_bin(binp, [path], timeout=120)
    res = {"rc": rc, "items": {}, "raw": out}
    for line in out.splitlines():
        if not line.startswith("{"):
            continue
        o = json.loads(line)
        if o["k"] == "cfg":
            res.update(current=o["current"], log_max=o["log_max"], file=hexs(o["file"]), module=hexs(o["module"]),
                       conv=(o.get("lv_as_trace"), o.get("lv_as_log"), o.get("f_as_trace"), o.get("f_as_log")))
        elif o["k"] == "item":
            res["items"][o["i"]] = o
        elif o["k"] == "end":
            res["end_current"] = o["current"]
    return res


# =====================================================================================================================
# part b: tracing -> log.  The callsite pools mirror emit_event / make_span in harness/logfeat/src/bin/h_logfeat.rs.
# field kinds: msg = format_args!("{}", v.m)  msg2 = "{} and {}", v.m, v.i   i/u/b = v.i/v.u/v.b   s/t = v.s/v.t.as_str()
#              ds = ?v.s   dt = %v.t   empty = field::Empty
EVENT_CS = [
    (3, None, [("message", "msg")]),
    (2, "app::db", [("message", "msg"), ("a", "i")]),
    (1, None, [("a", "i"), ("b", "u"), ("c", "b")]),
    (4, "app", [("message", "msg"), ("s", "s")]),
    (5, None, [("message", "msg"), ("d", "ds"), ("e", "dt")]),
    (3, None, [("message", "s"), ("x", "i")]),
    (3, None, [("x", "i"), ("message", "s")]),
    (2, "ignored::crate", [("message", "msg")]),
    (4, "tgt", [("message", "msg"), ("k.dotted", "u")]),
    (3, None, [("message", "msg"), ("quoted name", "i")]),
    (5, None, [("message", "msg")]),
    (1, "app::db", [("e", "dt")]),
    (4, None, [("message", "msg"), ("z", "b")]),
    (2, None, [("message", "msg"), ("s", "s"), ("t", "t"), ("i", "i"), ("u", "u"), ("b", "b")]),
    (5, "tracing::span", [("n", "i")]),
    (3, "app", [("message", "msg2")]),
]
SPAN_CS = [
    (3, None, "s0", []),
    (3, None, "s1", [("a", "i"), ("s", "s")]),
    (4, "app::db", "s2", [("e", "empty")]),
    (5, None, "s3", [("d", "ds")]),
    (1, "tgt", "s4", [("m", "dt"), ("b", "b")]),
    (2, None, "s5", [("u", "u")]),
    (5, "app", "s6", []),
    (3, None, "s7", [("message", "s")]),
    (4, None, "span with spaces; and = signs", [("e", "empty"), ("a", "i")]),
]
STRS = ["plain", "", "with space", "q\"uote", "back\\slash", "new\nline", "ünï✓", "a=b c=d", "{}", "tab\t", "🦀", "'single'", "\u0001ctl"]
TARGETS_B = ["app", "app::db", "tgt", "ignored::crate", "tracing::span", "tracing::span::active", "@MODULE@"]
REC_FIELDS = ["e", "a", "nope", "u", "message"]


def gen_vals(rng):
    return {"i": rng.choice([0, 1, -1, 42, -5, 9223372036854775807, -9223372036854775808, rng.randint(-1000, 1000)]),
            "u": rng.choice([0, 7, 18446744073709551615, rng.randint(0, 10 ** 6)]),
            "b": rng.random() < 0.5,
            "s": rng.choice(STRS) if rng.random() < 0.7 else rand_text(rng, 0, 10),
            "t": rng.choice(STRS) if rng.random() < 0.7 else rand_text(rng, 0, 10),
            "m": rng.choice(MESSAGES[:-3]) if rng.random() < 0.7 else rand_text(rng, 0, 20)}


def vals_text(v):
    return "i=%d u=%d b=%d s=%s t=%s m=%s" % (v["i"], v["u"], int(v["b"]), x(v["s"]), x(v["t"]), x(v["m"]))


def gen_case_b(rng, idx, n_ops, malformed=False):
    accepting = rng.random() < 0.7
    logmax = 5 if accepting else rng.choice([5, 5, 4, 3, 2, 1, 0])
    if accepting:
        logger = (5, [])
    else:
        logger = (rng.choice([5, 5, 4, 3, 0]), [(t, rng.randint(0, 5)) for t in rng.sample(TARGETS_B, rng.randint(0, 4))])
    coll = (rng.choice([-1, -1, 5, 3, 1, 0]), rng.choice([5, 5, 3, 0]), [(t, rng.randint(0, 5)) for t in rng.sample(TARGETS_B[:5], rng.randint(0, 3))])
    ops = []
    install_at = rng.choice([None, rng.randint(0, n_ops), rng.randint(n_ops // 3, n_ops)])
    dangling_at = rng.choice([None, None, None, rng.randint(0, n_ops // 2)])
    uninstall_after = rng.choice([None, rng.randint(1, 8)])
    mode = rng.choice(["scoped", "scoped", "global"])
    # who installs: the main thread, a worker thread (the main thread then never has a default of its own), or a worker
    # stopped inside set_global_default while the main thread emits an event
    who = rng.choice(["main", "main", "worker", "worker", "gmid", "gmid"])
    wk = rng.randint(1, 3)
    slots = {}
    slot_cs = {}
    installed_at = None
    k = 0
    while len(ops) < n_ops:
        k += 1
        pos = len(ops)
        if dangling_at is not None and pos >= dangling_at:
            ops.append(("dangling",))
            dangling_at = None
            continue
        if install_at is not None and pos >= install_at:
            if who == "main":
                ops.append(("install", mode))
            elif who == "worker":
                ops.append(("w", wk, ("install", mode)))
            else:
                ops.append(("gmid", wk, rng.choice([70, 71, 72]), rng.randrange(len(EVENT_CS)), gen_vals(rng)))
                mode = "global"
            installed_at = pos
            install_at = None
            continue
        if installed_at is not None and uninstall_after is not None and mode == "scoped" and pos >= installed_at + uninstall_after:
            ops.append(("uninstall",) if who == "main" else ("w", wk, ("uninstall",)))
            uninstall_after = None
            if rng.random() < 0.3:
                install_at = pos + rng.randint(1, 5)   # a second scoped install later
            continue
        r = rng.random()
        free = [s for s in range(8) if s not in slots]
        idle = [s for s, st in slots.items() if st == "idle"]
        ent = [s for s, st in slots.items() if st == "entered"]
        fut = [s for s, st in slots.items() if st == "fut"]
        if r > 0.86 and rng.random() < 0.6:
            # other threads, follows_from, bare observations
            z = rng.random()
            if z < 0.55:
                ops.append(("w", rng.randint(1, 3), ("ev", rng.randrange(len(EVENT_CS)), gen_vals(rng))))
            elif z < 0.7:
                ops.append(("w", rng.randint(1, 3), ("hbs",)))
            elif z < 0.8:
                ops.append(("hbs",))
            elif z < 0.95 and slots:
                live = sorted(slots)
                ops.append(("fol", rng.choice(live), rng.choice(live + [None])))
            elif malformed:
                ops.append(rng.choice([("w", rng.randint(1, 3), ("uninstall",)), ("w", rng.randint(1, 3), ("install", rng.choice(["scoped", "global"]))),
                                       ("gmid", rng.randint(1, 3), rng.choice([70, 71, 72]), rng.randrange(len(EVENT_CS)), gen_vals(rng)),
                                       ("fol", rng.randint(0, 7), None)]))
            else:
                ops.append(("hbs",))
            continue
        if malformed and r < 0.2:
            kind = rng.choice(["en", "ex", "dr", "rec", "none", "uninstall", "install", "poll", "idrop", "insc", "ins"])
            s = rng.randint(0, 7)
            if kind == "none":
                ops.append(("none", s))
                if s not in slots:
                    slots[s] = "idle"
                    slot_cs.pop(s, None)
            elif kind == "rec":
                ops.append(("rec", s, rng.choice(REC_FIELDS), gen_vals(rng)))
            elif kind == "uninstall":
                ops.append(("uninstall",))
            elif kind == "install":
                ops.append(("install", rng.choice(["scoped", "global"])))
            elif kind == "ins":
                ops.append(("ins", s, rng.choice("tf")))
                if slots.get(s) == "idle":
                    slots[s] = "fut"
            else:
                ops.append((kind, s))
                st = slots.get(s)
                if kind == "idrop" and st == "fut":
                    del slots[s]
                if kind == "en" and st == "idle":
                    slots[s] = "entered"
                elif kind == "ex" and st == "entered":
                    slots[s] = "idle"
                elif kind == "dr" and st == "idle":
                    del slots[s]
            continue
        if r < 0.35 or (not free and not idle and not ent and not fut):
            ops.append(("ev", rng.randrange(len(EVENT_CS)), gen_vals(rng)))
        elif r < 0.55 and free:
            s = rng.choice(free)
            slot_cs[s] = rng.randrange(len(SPAN_CS))
            ops.append(("sp", s, slot_cs[s], gen_vals(rng)))
            slots[s] = "idle"
        elif r < 0.62 and idle and rng.random() < 0.5:
            # enter by other public routes: in_scope, or polling / dropping an Instrumented future
            s = rng.choice(idle)
            if rng.random() < 0.35:
                ops.append(("insc", s))
            else:
                ops.append(("ins", s, rng.choice("tf")))
                slots[s] = "fut"
        elif r < 0.7 and idle:
            s = rng.choice(idle)
            ops.append(("en", s))
            slots[s] = "entered"
        elif r < 0.82 and (ent or fut):
            s = rng.choice(ent + fut + fut)
            if slots[s] == "fut":
                if rng.random() < 0.75:
                    ops.append(("poll", s))
                else:
                    ops.append(("idrop", s))
                    del slots[s]
            else:
                ops.append(("ex", s))
                slots[s] = "idle"
        elif r < 0.92 and idle:
            s = rng.choice(idle)
            ops.append(("dr", s))
            del slots[s]
        elif idle or ent:
            s = rng.choice(idle + ent)
            own = [n for n, _ in SPAN_CS[slot_cs[s]][3]] if s in slot_cs else []
            ops.append(("rec", s, rng.choice(own) if (own and rng.random() < 0.7) else rng.choice(REC_FIELDS), gen_vals(rng)))
        else:
            ops.append(("ev", rng.randrange(len(EVENT_CS)), gen_vals(rng)))
    # a LogTracer init attempted in this process — which already has a logger (the recording one) — must fail and change
    # nothing (seeded change C18-I: the builder published its max level before the install could fail)
    if rng.random() < 0.35:
        ops.insert(rng.randint(0, len(ops)), ("ltinit", rng.randint(0, 5)))
    return {"part": "b", "id": "b%03d" % idx, "logmax": logmax, "logger": logger, "coll": coll, "ops": ops}


def case_text_b(c):
    L = ["# C18 part b (tracing -> log) %s" % c["id"], "logmax %d" % c["logmax"],
         "logger %d %s" % (c["logger"][0], " ".join("%s=%d" % (x(t), m) for t, m in c["logger"][1])),
         "collector %d %d %s" % (c["coll"][0], c["coll"][1], " ".join("%s=%d" % (x(t), m) for t, m in c["coll"][2]))]
    def one(o):
        if o[0] in ("dangling", "uninstall", "hbs"):
            return o[0]
        if o[0] == "install":
            return "install " + o[1]
        if o[0] == "ev":
            return "ev %d %s" % (o[1], vals_text(o[2]))
        raise ValueError(o)
    for o in c["ops"]:
        if o[0] in ("dangling", "uninstall", "hbs"):
            L.append(o[0])
        elif o[0] == "w":
            L.append("@%d %s" % (o[1], one(o[2])))
        elif o[0] == "gmid":
            L.append("gmid %d %d ev %d %s" % (o[1], o[2], o[3], vals_text(o[4])))
        elif o[0] == "fol":
            L.append("fol %d %s" % (o[1], "-" if o[2] is None else str(o[2])))
        elif o[0] == "ins":
            L.append("ins %d %s" % (o[1], o[2]))
        elif o[0] == "install":
            L.append("install " + o[1])
        elif o[0] == "ltinit":
            L.append("ltinit %d" % o[1])
        elif o[0] == "ev":
            L.append("ev %d %s" % (o[1], vals_text(o[2])))
        elif o[0] == "sp":
            L.append("sp %d %d %s" % (o[1], o[2], vals_text(o[3])))
        elif o[0] == "rec":
            L.append("rec %d %s %s" % (o[1], x(o[2]), vals_text(o[3])))
        else:
            L.append("%s %d" % (o[0], o[1]))
    return "\n".join(L) + "\n"


def parse_case_b(text, cid):
    c = {"part": "b", "id": cid, "logmax": 5, "logger": (5, []), "coll": (-1, 5, []), "ops": []}

    def ux(s):
        return bytes.fromhex(s[1:]).decode("utf-8")

    def rules(ts):
        return [(ux(r.split("=")[0]), int(r.split("=")[1])) for r in ts]

    def vals(ts):
        v = {"i": 0, "u": 0, "b": False, "s": "", "t": "", "m": ""}
        for kv in ts:
            k, z = kv.split("=", 1)
            v[k] = int(z) if k in "iu" else (z == "1" if k == "b" else ux(z))
        return v
    for line in text.splitlines():
        t = line.split()
        if not t or t[0].startswith("#"):
            continue
        if t[0] == "logmax":
            c["logmax"] = int(t[1])
        elif t[0] == "logger":
            c["logger"] = (int(t[1]), rules(t[2:]))
        elif t[0] == "collector":
            c["coll"] = (int(t[1]), int(t[2]), rules(t[3:]))
        elif t[0].startswith("@"):
            u = t[1:]
            inner = ("install", u[1]) if u[0] == "install" else (("ev", int(u[1]), vals(u[2:])) if u[0] == "ev" else (u[0],))
            c["ops"].append(("w", int(t[0][1:]), inner))
        elif t[0] == "gmid":
            c["ops"].append(("gmid", int(t[1]), int(t[2]), int(t[4]), vals(t[5:])))
        elif t[0] == "fol":
            c["ops"].append(("fol", int(t[1]), None if t[2] == "-" else int(t[2])))
        elif t[0] == "ins":
            c["ops"].append(("ins", int(t[1]), t[2]))
        elif t[0] in ("dangling", "uninstall", "hbs"):
            c["ops"].append((t[0],))
        elif t[0] == "ltinit":
            c["ops"].append(("ltinit", int(t[1])))
        elif t[0] == "install":
            c["ops"].append(("install", t[1]))
        elif t[0] == "ev":
            c["ops"].append(("ev", int(t[1]), vals(t[2:])))
        elif t[0] == "sp":
            c["ops"].append(("sp", int(t[1]), int(t[2]), vals(t[3:])))
        elif t[0] == "rec":
            c["ops"].append(("rec", int(t[1]), ux(t[2]), vals(t[3:])))
        else:
            c["ops"].append((t[0], int(t[1])))
    return c


def render_fields(fields, v, ds):
    """[(name, ('str', disp, dbg) | ('other', dbg) | ('empty',))] as `Visit` sees the callsite's values"""
    out = []
    for name, kind in fields:
        if kind == "msg":
            out.append((name, ("other", v["m"])))
        elif kind == "msg2":
            out.append((name, ("other", "%s and %d" % (v["m"], v["i"]))))
        elif kind == "i":
            out.append((name, ("other", str(v["i"]))))
        elif kind == "u":
            out.append((name, ("other", str(v["u"]))))
        elif kind == "b":
            out.append((name, ("other", "true" if v["b"] else "false")))
        elif kind == "s":
            out.append((name, ("str", v["s"], ds)))
        elif kind == "t":
            out.append((name, ("str", v["t"], None)))   # dbg of t: filled by the caller (python repr is not Rust's)
        elif kind == "ds":
            out.append((name, ("other", ds)))
        elif kind == "dt":
            out.append((name, ("other", v["t"])))
        elif kind == "empty":
            out.append((name, ("empty",)))
    return out


def rust_debug_str(s):
    """<str as Debug> for the restricted alphabet the generator uses for `t` (checked against std on `s`)."""
    out = ['"']
    for ch in s:
        if ch == '"':
            out.append('\\"')
        elif ch == "\\":
            out.append("\\\\")
        elif ch == "\n":
            out.append("\\n")
        elif ch == "\t":
            out.append("\\t")
        elif ch == "\r":
            out.append("\\r")
        elif ch == "\0":
            out.append("\\0")
        elif ord(ch) < 0x20 or ord(ch) == 0x7f:
            out.append("\\u{%x}" % ord(ch))
        else:
            out.append(ch)
    out.append('"')
    return "".join(out)


def cfval(fv):
    if fv[0] == "str":
        return "(Some (FStr %s %s))" % (cb(fv[1]), cb(fv[2]))
    if fv[0] == "other":
        return "(Some (FOther %s))" % cb(fv[1])
    return "(Some FEmpty)"


def cvs(fields):
    return "[" + "; ".join("(%s, %s)" % (cb(n), cfval(fv)) for n, fv in fields) + "]"


def shown(name, fv, in_event):
    """the text a set field must contribute (None for field::Empty)"""
    if fv[0] == "empty":
        return None
    d = (fv[1] if name == "message" else fv[2]) if fv[0] == "str" else fv[1]
    return d if (in_event and name == "message") else "%s=%s" % (name, d)


def canon_rec(r):
    return (r["level"], hexs(r["target"]), hexs(r["text"]), hexs(r["file"]), None if r["line"] is None else 0, hexs(r["module"]))


N_STEPS = 6   # MStep's issued per call: at least the longest generated action list (extra steps of an idle thread are no-ops)
GMID_STEPS = {70: 0, 71: 1, 72: 2}   # actions of set_global_default performed before the yield point


def block(t, f):
    return ["(MCall %d %s)" % (t, f)] + ["(MStep %d)" % t] * N_STEPS


def process_case_b(rep, c, impl, text, always, disagree, table_bad):
    """Walk the history once: build the machine ops of the model (thread 0 = main, 1..3 = workers), evaluate the oracle on
    the implementation's records.  Returns (mops, ranges): Coq terms, and per op index (start, end, position of the MLog
    whose flag is `exists_mid` or None)."""
    module, file_ = impl["module"], impl["file"]
    slots = {}
    mops = []
    ranges = {}
    guard = {0: False, 1: False, 2: False, 3: False}
    global_set = False
    phase = "before"
    spec_exists = False                # whether a collector has ever been installed (on any thread), by the history itself
    installer = None                   # the thread that installed first
    if impl["hdr_exists"]:
        rep.violation("has_been_set() is true before anything was installed", {"part": "b", "case_id": c["id"], "case_file": text})

    def add(i, terms, mid=None):
        a = len(mops)
        mops.extend(terms)
        ranges[i] = (a, len(mops), None if mid is None else a + mid)

    def event_step(cs, vals, r):
        lvl, tgt, fields = EVENT_CS[cs]
        tgt = module if tgt is None else tgt
        fl = render_fields(fields, vals, hexs(r["ds"]))
        fl = [(n, (fv[0], fv[1], rust_debug_str(fv[1])) if (fv[0] == "str" and fv[2] is None) else fv) for n, fv in fl]
        if rust_debug_str(vals["s"]) != hexs(r["ds"]):
            table_bad.append({"case": c["id"], "std_debug": hexs(r["ds"]), "python_debug": rust_debug_str(vals["s"])})
        meta = "(mkMeta %s %s %s %s (Some 0) %s)" % (cb("event"), cb(tgt), LV[lvl - 1], cobytes(file_), cobytes(module))
        return ("(OpEvent %s %s)" % (meta, cvs(fl)),
                (True, lvl, lvl, tgt, [z for z in (shown(n, fv, True) for n, fv in fl) if z is not None], None))

    for i, o in enumerate(c["ops"]):
        r = impl["ops"].get(i)
        case = {"part": "b", "always": always, "case_id": c["id"], "op_index": i, "op": list(o),
                "logmax": c["logmax"], "logger": c["logger"], "collector": c["coll"], "case_file": text}
        if r is None:
            rep.violation("the harness produced no output for op %d (crash?)" % i, dict(case, raw=impl["raw"][-800:]))
            return None
        case["observed"] = r
        rep.evaluations += 1
        if r["panic"]:
            rep.violation("op %s panicked" % o[0], case)
            continue
        recs = [canon_rec(z) for z in r["recs"]]
        thread = 0
        if o[0] == "w":
            thread, o = o[1], o[2]
        kind = o[0]
        installed_before = spec_exists
        want_skip = False
        window = False  # the op ran while another thread was inside set_global_default
        step = None   # (in_event, level, gate level, target, must_contain[], sid)
        if kind == "dangling":
            phase = phase if phase != "before" else "dangling"
        elif kind == "hbs":
            pass
        elif kind == "ltinit":
            # the model's op list has no entry for it: [init_again_log_max] (Model.v) says a failed init leaves log's max level
            # alone, so the configuration the following steps run under is unchanged; the two observations are compared with
            # that function below (tie), and every later step is judged as before (oracle)
            disagree.append(("ltinit", c["id"], i, c["logmax"], o[1], r.get("lt_err"), r.get("log_max")))
        elif kind == "install":
            if (o[1] == "scoped" and guard[thread]) or (o[1] == "global" and global_set):
                want_skip = True
            else:
                add(i, block(thread, "FSetDefault" if o[1] == "scoped" else "FSetGlobal"))
                spec_exists = True
                installer = thread if installer is None else installer
                guard[thread] = guard[thread] or o[1] == "scoped"
                global_set = global_set or o[1] == "global"
                phase = "installed"
        elif kind == "uninstall":
            if not guard[thread]:
                want_skip = True
            else:
                guard[thread] = False
                add(i, block(thread, "FGuardDrop"))
                phase = "uninstalled" if not (global_set or any(guard.values())) else "installed"
        elif kind == "gmid":
            k, point = o[1], o[2]
            term, step = event_step(o[3], o[4], r)
            will_pause = point == 70 or not global_set
            ok = not global_set
            n = GMID_STEPS[point]
            if will_pause:
                add(i, ["(MCall %d FSetGlobal)" % k] + ["(MStep %d)" % k] * n + ["(MLog 0 %s)" % term] + ["(MStep %d)" % k] * N_STEPS, mid=1 + n)
            else:
                add(i, block(k, "FSetGlobal") + ["(MLog 0 %s)" % term], mid=1 + N_STEPS)
            if r.get("paused") != will_pause or r.get("gl_ok") != ok:
                table_bad.append({"case": c["id"], "op": i, "paused": r.get("paused"), "want_paused": will_pause, "gl_ok": r.get("gl_ok"), "want_ok": ok})
            window = ok
            if ok:
                global_set = True
                spec_exists = True
                installer = k if installer is None else installer
                phase = "installed"
            rep.count("b:gmid-%d%s" % (point, "" if ok else "-already-set"))
        elif kind == "ev":
            term, step = event_step(o[1], o[2], r)
            add(i, ["(MLog %d %s)" % (thread, term)])
            rep.count("b:ev" + ("" if thread == 0 else "-worker"))
        elif kind == "fol":
            s = slots.get(o[1])
            if s is None or s["state"] == "fut":
                want_skip = True
            else:
                sp = "(mkSpan %s %s)" % ("None" if s["none"] else "(Some %s)" % s["meta"], coN(s["sid"]))
                fr = slots.get(o[2]) if o[2] is not None else None
                fr = None if (fr is not None and fr["state"] == "fut") else fr
                add(i, ["(MLog 0 (OpFollows %s %s))" % (sp, coN(fr["sid"] if fr else None))])
                step = "silent"
                rep.count("b:fol")
        elif kind == "sp":
            if o[1] in slots:
                want_skip = True
            else:
                lvl, tgt, name, fields = SPAN_CS[o[2]]
                tgt = module if tgt is None else tgt
                m = r.get("meta")
                if m is None or (hexs(m["name"]), hexs(m["target"]), m["level"], [hexs(f) for f in m["fields"]]) != (name, tgt, lvl, [n for n, _ in fields]):
                    table_bad.append({"case": c["id"], "op": i, "meta": m})
                fl = render_fields(fields, o[3], hexs(r["ds"]))
                sid = r.get("sid")
                meta = "(mkMeta %s %s %s %s (Some 0) %s)" % (cb(name), cb(tgt), LV[lvl - 1], cobytes(file_), cobytes(module))
                add(i, ["(MLog 0 (OpNewSpan %s %s %s))" % (meta, cvs(fl), coN(sid))])
                slots[o[1]] = {"meta": meta, "sid": sid, "cs": o[2], "state": "idle", "none": False}
                own = tgt if fields else "tracing::span"
                must = [name + ";"] + [z for z in (shown(n, fv, False) for n, fv in fl) if z is not None]
                if sid is not None:
                    must += ["++ " + name + ";", " span=%d" % sid]
                step = (False, lvl, lvl, own, must, sid)
                rep.count("b:sp" + ("-enabled" if sid is not None else ""))
        elif kind == "none":
            if o[1] in slots:
                want_skip = True
            else:
                slots[o[1]] = {"meta": None, "sid": None, "cs": None, "state": "idle", "none": True}
        elif kind == "rec":
            s = slots.get(o[1])
            if s is None or s["state"] == "fut":
                want_skip = True
            else:
                sp = "(mkSpan %s %s)" % ("None" if s["none"] else "(Some %s)" % s["meta"], coN(s["sid"]))
                if not s["none"] and o[2] in [n for n, _ in SPAN_CS[s["cs"]][3]]:
                    lvl, tgt, name, _ = SPAN_CS[s["cs"]]
                    tgt = module if tgt is None else tgt
                    fl = [(o[2], ("other", str(o[3]["i"])))]
                    add(i, ["(MLog 0 (OpRecord %s %s))" % (sp, cvs(fl))])
                    must = [name + ";", "%s=%d" % (o[2], o[3]["i"])] + ([" span=%d" % s["sid"]] if s["sid"] is not None else [])
                    step = (False, lvl, lvl, tgt, must, s["sid"])
                    rep.count("b:rec")
                else:
                    step = "silent"   # no such field / Span::none(): nothing may be logged
                    rep.count("b:rec-nofield")
        elif kind == "ins":
            s = slots.get(o[1])
            if s is None or s["state"] != "idle":
                want_skip = True
            else:
                s["state"] = "fut"
                rep.count("b:instrument-" + o[2])
        elif kind in ("insc", "poll", "idrop"):
            # the span is entered and exited (in_scope / <Instrumented as Future>::poll / Instrumented's drop, which then
            # drops the span): one lifecycle record per step
            s = slots.get(o[1])
            if s is None or s["state"] != ("idle" if kind == "insc" else "fut"):
                want_skip = True
            else:
                sp = "(mkSpan %s %s)" % ("None" if s["none"] else "(Some %s)" % s["meta"], coN(s["sid"]))
                seq = ["en", "ex"] + (["dr"] if kind == "idrop" else [])
                add(i, ["(MLog 0 (%s %s))" % ({"en": "OpEnter", "ex": "OpExit", "dr": "OpDrop"}[k_], sp) for k_ in seq])
                if s["none"]:
                    step = "silent"
                else:
                    lvl, _, name, _ = SPAN_CS[s["cs"]]
                    step = []
                    for k_ in seq:
                        pre = {"en": "-> ", "ex": "<- ", "dr": "-- "}[k_]
                        must = [pre + name + ";"] + ([" span=%d" % s["sid"]] if s["sid"] is not None else [])
                        step.append((False, 5, lvl, "tracing::span::active" if k_ != "dr" else "tracing::span", must, s["sid"]))
                rep.count("b:" + kind + ("-none" if s["none"] else ""))
                if kind == "idrop":
                    del slots[o[1]]
        elif kind in ("en", "ex", "dr"):
            s = slots.get(o[1])
            need = {"en": "idle", "ex": "entered", "dr": "idle"}[kind]
            if s is None or s["state"] != need:
                want_skip = True
            else:
                sp = "(mkSpan %s %s)" % ("None" if s["none"] else "(Some %s)" % s["meta"], coN(s["sid"]))
                add(i, ["(MLog 0 (%s %s))" % ({"en": "OpEnter", "ex": "OpExit", "dr": "OpDrop"}[kind], sp)])
                if s["none"]:
                    step = "silent"
                    rep.count("b:%s-none" % kind)
                else:
                    lvl, _, name, _ = SPAN_CS[s["cs"]]
                    pre = {"en": "-> ", "ex": "<- ", "dr": "-- "}[kind]
                    must = [pre + name + ";"] + ([" span=%d" % s["sid"]] if s["sid"] is not None else [])
                    step = (False, 5, lvl, "tracing::span::active" if kind != "dr" else "tracing::span", must, s["sid"])
                    rep.count("b:" + kind)
                if kind == "en":
                    s["state"] = "entered"
                elif kind == "ex":
                    s["state"] = "idle"
                else:
                    del slots[o[1]]
        # --- has_been_set(): set by the first install on ANY thread, never reset (uninstalls included), seen by every thread
        for key in ("exists", "exists_t"):
            if r.get(key) is not None and r[key] != spec_exists:
                rep.violation("has_been_set() = %s on the %s thread after op %s%s; a collector has %s been installed in this history%s" % (
                    r[key], "main" if key == "exists" else "executing", kind, "" if thread == 0 else " on worker %d" % thread,
                    "already" if spec_exists else "never", "" if installer in (None, 0) else " (by worker %d)" % installer), case)
        if installed_before and r.get("exists_mid") is False:
            rep.violation("has_been_set() went back to false while another thread was inside set_global_default", case)
        if want_skip != r["skip"]:
            table_bad.append({"case": c["id"], "op": i, "skip": r["skip"], "want_skip": want_skip})
            continue
        if want_skip:
            rep.count("b:skipped-malformed")
            if recs:
                rep.violation("an op the harness skipped produced log records", case)
            continue
        # --- oracle
        if step is None or step == "silent":
            if recs:
                rep.violation("op %s emitted %d log record(s); it is neither an event nor a lifecycle step of a span with metadata" % (kind, len(recs)), case)
            continue
        steps = step if isinstance(step, list) else [step]
        sid = steps[0][5]
        emitting = always or not installed_before
        rep.nontrivial.add(("b", always, kind, o[1] if kind == "ev" else (o[2] if kind == "sp" else None), phase, sid is not None,
                            thread, None if installer is None else (installer == thread)))
        if not emitting:
            if recs:
                rep.violation("%s%s after a collector had been installed%s emitted %d log record(s) (feature `log` without `log-always`)" % (
                    kind, "" if thread == 0 else " on worker %d" % thread,
                    "" if installer in (None, thread) else " by another thread (%s)" % ("main" if installer == 0 else "worker %d" % installer), len(recs)), case)
            continue
        open_gates = all(g_ <= c["logmax"] and table(c["logger"][1], c["logger"][0], t_, l_) for (_, l_, g_, t_, _, _) in steps)
        if not open_gates:
            rep.count("b:log-side-gate-closed")
            if len(recs) > len(steps):
                rep.violation("%s emitted %d log records" % (kind, len(recs)), case)
            continue   # the property speaks about a logger that takes the record; the closed case is covered by the correspondence
        if window and not always:
            # the event ran while another thread was inside set_global_default: neither "never installed" nor
            # "installed"; at most one record, and if there is one it must be the right one
            rep.count("b:window-%d" % len(recs))
            if len(recs) > 1:
                rep.violation("%s emitted %d log records" % (kind, len(recs)), case)
                continue
            if not recs:
                continue
        elif len(recs) != len(steps):
            rep.violation("%s %s emitted %d log record(s), expected exactly %s" % (
                kind, "with no collector ever installed" if not installed_before else "(log-always)", len(recs),
                "one" if len(steps) == 1 else "%d (one per lifecycle step: %s)" % (len(steps), ", ".join(st_[4][0] for st_ in steps))), case)
            continue
        for (in_event, rec_lvl, gate_lvl, tgt, must, sid), (lvl_, t_, text_, f_, l_, m_) in zip(steps, recs):
            if lvl_ != rec_lvl:
                rep.violation("%s: log record level %s, expected %s" % (kind, LVU[lvl_], LVU[rec_lvl]), case)
            if t_ != tgt:
                rep.violation("%s: log record target %r, expected %r" % (kind, t_, tgt), case)
            for piece in must:
                if piece not in text_:
                    rep.violation("%s: log text %r does not contain %r" % (kind, text_, piece), case)
                    break
    return mops, ranges, spec_exists


def run_case_b(path, binp):
    rc, out = run_bin(binp, [path], timeout=120)
    res = {"rc": rc, "ops": {}, "raw": out}
    for line in out.splitlines():
        if not line.startswith("{"):
            continue
        o = json.loads(line)
        if o["k"] == "hdr":
            res.update(file=hexs(o["file"]), module=hexs(o["module"]), hdr_exists=o["exists"], static_max=o["static_max"])
        elif o["k"] == "op":
            res["ops"][o["i"]] = o
    return res


def canon_model_lrec(r):
    lvl, target, text, (f, l, m) = r
    return (lvl, unb(target), unb(text), sb(f), som(l), sb(m))


# =====================================================================================================================

def run(ctx):
    rep = Report(ctx)
    rep.rule = ("a) log->tracing: one process per (ignore list, builder max level, collector mode/hint/level-and-target table, optional "
                "second dispatcher) configuration, ~30 records each (5 levels x target pool incl. ignored prefixes, non-prefix substrings, "
                "\"log\", empty, Unicode x message pool incl. braces/Unicode/newlines x file/line/module present or absent x entry "
                "Log::log / log! / format_trace) plus events on a look-alike foreign callsite, Log::enabled queries, as_trace / as_log of "
                "metadata and records, six ways of installing the logger (builder with/without with_max_level, ignore_crate / ignore_all, "
                "init, init_with_filter, new) and ignore lists with prefix / exact / extension / case / embedding neighbours. non-trivial = a record whose own "
                "(target, level) the collector answers differently from (\"log\", level) and that is neither gated nor ignored; distinct "
                "= distinct (entry, level, target, verdict, filter table). "
                "b) tracing->log: one process per history (16 event + 9 span macro callsites with arbitrary values, enter/exit/drop/"
                "record, dangling dispatcher, scoped/global install, uninstall; a malformed stream with ops on Span::none(), wrong-state "
                "ops, unknown fields, double installs; events, installs, guard drops and has_been_set() observations on three worker "
                "threads; a worker stopped at yield point 70/71/72 inside set_global_default while the main thread emits an event; "
                "follows_from), run against `log` and `log-always` builds. non-trivial = every emitting or "
                "silenced step; distinct = distinct (feature, op kind, callsite, phase, span enabled, thread, installed by this thread)")
    rep.trusted_base = [
        "Coq 8.16.1 kernel + vm_compute (no native_compute)",
        "translators/logbridge.py + levels.py + rsparse.py (shape recognition; fail closed via gen_lb_unrecognised = [])",
        "harness h_logbridge.rs / h_logfeat.rs (recording Collect / log::Log, drive the real crates and macros)",
        "the `log` crate: log!'s `level <= max_level()` test, Level <= LevelFilter order, Record builder (modelled, assumed)",
        "std fmt (`{:?}` of primitives and str, taken from std at run time)", "Python oracle"]
    rep.assumptions = [
        "the current collector's `enabled` is a function of (target, level) (a filter over level x target, as in the property); it answers the same both times it is asked",
        "LevelFilter::current() is the maximum hint over live dispatchers (C01/C19's subject; cross-checked against the harness on every configuration)",
        "for a collector whose max_level_hint is below what its own `enabled` accepts the oracle demands nothing (the level gate drops such records); the model/theorem state the gate explicitly",
        "log::STATIC_MAX_LEVEL = Trace (no max_level_* cargo feature of `log`)",
        "the flag machine is sequentially consistent: every observation in the harness is ordered after the step before it (channels); the Relaxed load of EXISTS is not modelled",
        "whether the tracing side enabled a span, and its id, are inputs of the model (taken from the run); field values are represented by their std renderings",
        "record line numbers fit u32 (log's type)"]
    # ---- leg B1: translators
    text, unrec = lb_tr.main(ctx.repo, None)
    gen_if_changed(os.path.join(vlib.COQ, "gen", "Gen_logbridge.v"), text)
    rep.tie("translator:Gen_logbridge", not unrec, "; ".join(unrec[:4]), unrec[:1] or None)
    ltext, lunrec = levels_tr.main(ctx.repo, None)
    gen_if_changed(os.path.join(vlib.COQ, "gen", "Gen_levels.v"), ltext)
    rep.tie("translator:Gen_levels", not lunrec, "; ".join(lunrec[:4]), lunrec[:1] or None)
    # ---- leg A
    rep.proof = coq_prove(ctx, "C18", ["theories/Properties/C18.vo"])
    # ---- builds
    bins = {}
    for pkg, b in (("logbridge", "h_logbridge"), ("logfeat", "h_logfeat"), ("logalways", "h_logalways")):
        ok, paths, log = cargo_build(ctx, pkg, [b], release=False)
        if not ok:
            rep.tie("build:" + b, False, vlib.last_error(log))
            return rep
        bins[b] = paths[b]
    # ---- cases: corpus first, then generated
    rng = ctx.rng
    cases_a, cases_b = [], []
    if ctx.replay:
        payload = json.load(open(ctx.replay))
        cs = payload.get("case", {})
        if cs.get("part") == "a":
            cases_a.append(parse_case_a(cs["case_file"], "replay"))
        elif cs.get("part") == "b":
            cases_b.append(parse_case_b(cs["case_file"], "replay"))
    else:
        cdir = os.path.join(vlib.VERIF, "corpus", "C18")
        if os.path.isdir(cdir):
            for f in sorted(os.listdir(cdir)):
                if f.endswith(".case"):
                    t = vlib.read(os.path.join(cdir, f))
                    (cases_a if f.startswith("a") else cases_b).append((parse_case_a if f.startswith("a") else parse_case_b)(t, "corpus-" + f[:-5]))
        n_a, n_rec, n_b, n_ops = (150, 32, 150, 30) if not ctx.thorough() else (600, 40, 600, 40)
        for i in range(n_a):
            cases_a.append(gen_cfg_a(rng, i, n_rec))
        for i in range(n_b):
            cases_b.append(gen_case_b(rng, i, n_ops, malformed=(i % 4 == 3)))
    wd = os.path.join(ctx.work, "c18-case-files")   # (coq_eval owns and wipes <work>/cases)
    os.makedirs(wd, exist_ok=True)

    # ---- part a: implementation
    texts_a = {}
    for c in cases_a:
        texts_a[c["id"]] = case_text_a(c)
        with open(os.path.join(wd, c["id"] + ".case"), "w") as f:
            f.write(texts_a[c["id"]])
    with ThreadPoolExecutor(max_workers=vlib.NCPU) as ex:
        impl_a = dict(zip([c["id"] for c in cases_a], ex.map(lambda c: run_case_a(os.path.join(wd, c["id"] + ".case"), bins["h_logbridge"]), cases_a)))
    terms = []
    index_a = {}
    cur_bad = []
    lit_bad = []
    for c in cases_a:
        im = impl_a[c["id"]]
        if im["rc"] != 0 or len(im["items"]) != len(c["items"]) or "current" not in im:
            rep.violation("h_logbridge failed on configuration %s (rc=%s)" % (c["id"], im["rc"]),
                          {"part": "a", "case_id": c["id"], "case_file": texts_a[c["id"]], "raw": im["raw"][-1500:]})
            continue
        if im["current"] != predicted_current(c) or im.get("end_current") != im["current"] or im["log_max"] != effective_logmax(c):
            cur_bad.append({"case": c["id"], "current": im["current"], "predicted": predicted_current(c), "log_max": im["log_max"]})
        rep.count("a:mode-" + c["mode"])
        rep.count("a:hint-" + ("none" if c["hint"] < 0 else LVU[c["hint"]]))
        rep.count("a:ignore-%d" % len(c["ignore"]))
        oracle_a(rep, c, im, texts_a[c["id"]])
        for i_, it_ in enumerate(c["items"]):
            if "lit" in it_:
                io_ = im["items"][i_]
                if hexs(io_.get("lit_text")) != it_["msg"] or io_.get("as_str") is not True:
                    lit_bad.append({"case": c["id"], "item": i_, "driver": it_["msg"], "harness": hexs(io_.get("lit_text")), "as_str": io_.get("as_str")})
        t, ri, fi, ei = model_terms_a(c, im)
        terms += t
        index_a[c["id"]] = (ri, fi, ei)
        rep.count("a:init-" + c.get("init", "builder"))
    ctx.log("part a: %d configurations run" % len(cases_a))
    rep.tie("a:LevelFilter::current()-as-assumed", not cur_bad, "%d configurations" % len(cur_bad), cur_bad[:1] or None)
    rep.tie("a:literal-message-table (fmt::Arguments::as_str() is Some)", not lit_bad, "%d mismatches" % len(lit_bad), lit_bad[:1] or None)
    # the level conversions through the public AsTrace / AsLog impls: bijections that preserve the order (oracle), and the
    # generated tables of the model (correspondence, below)
    conv_seen = {}
    for c in cases_a:
        im = impl_a[c["id"]]
        if im.get("conv") and im["conv"] not in conv_seen.values():
            conv_seen[c["id"]] = im["conv"]
    for cid, cv in conv_seen.items():
        want = ([1, 2, 3, 4, 5], [1, 2, 3, 4, 5], [0, 1, 2, 3, 4, 5], [0, 1, 2, 3, 4, 5])
        rep.evaluations += 22
        if tuple(cv) != want:
            rep.violation("level conversion is not the order-preserving bijection: log->tracing levels %r, tracing->log levels %r, log->tracing filters %r, "
                          "tracing->log filters %r (ERROR=1..TRACE=5, OFF=0)" % tuple(cv), {"part": "a", "case_id": cid, "case_file": texts_a[cid], "conversions": cv})
    terms.append(("conv", "(map (fun l => option_map rank_lv (as_trace_level l)) [Error; Warn; Info; Debug; Trace], "
                          "map (fun l => option_map rank_lv (as_log_level l)) [Error; Warn; Info; Debug; Trace], "
                          "map (fun f => option_map (fun g => rank (VF g)) (as_trace_filter f)) [None; Some Error; Some Warn; Some Info; Some Debug; Some Trace], "
                          "map (fun f => option_map (fun g => rank (VF g)) (as_log_filter f)) [None; Some Error; Some Warn; Some Info; Some Debug; Some Trace])"))

    # ---- part b: implementation (both feature builds)
    texts_b = {}
    for c in cases_b:
        texts_b[c["id"]] = case_text_b(c)
        with open(os.path.join(wd, c["id"] + ".case"), "w") as f:
            f.write(texts_b[c["id"]])
    runs_b = []
    for always, b in ((False, "h_logfeat"), (True, "h_logalways")):
        with ThreadPoolExecutor(max_workers=vlib.NCPU) as ex:
            res = list(ex.map(lambda c: run_case_b(os.path.join(wd, c["id"] + ".case"), bins[b]), cases_b))
        runs_b.append((always, b, dict(zip([c["id"] for c in cases_b], res))))
    table_bad = []
    index_b = {}
    disagree_b = []
    for always, b, impls in runs_b:
        for c in cases_b:
            im = impls[c["id"]]
            if im["rc"] != 0 or "module" not in im:
                rep.violation("%s failed on case %s (rc=%s)" % (b, c["id"], im["rc"]),
                              {"part": "b", "always": always, "case_id": c["id"], "case_file": texts_b[c["id"]], "raw": im["raw"][-1500:]})
                continue
            if im["static_max"] != 5:
                rep.tie("b:STATIC_MAX_LEVEL", False, "log::STATIC_MAX_LEVEL = %s" % im["static_max"])
            pr = process_case_b(rep, c, im, texts_b[c["id"]], always, disagree_b, table_bad)
            if pr is None:
                continue
            mops, ranges, spec_exists = pr
            cfg = "(mkCfg %s (Some Trace) %s (table_filter %s %s))" % ("true" if always else "false", colv(c["logmax"]),
                                                                      crules(c["logger"][1]), colv(c["logger"][0]))
            key = "%s:%s" % (b, c["id"])
            terms.append((key, "enc_mrun %s [%s]" % (cfg, "; ".join(mops))))
            index_b[key] = (ranges, spec_exists)
    ctx.log("part b: %d histories x 2 feature builds run" % len(cases_b))
    rep.tie("b:callsite-table-and-slot-tracking", not table_bad, "%d mismatches between driver tables and the harness" % len(table_bad), table_bad[:1] or None)

    terms.append(("ltinit", "map (fun cur => map (fun w => init_again_log_max cur (Some w)) [None; Some Error; Some Warn; Some Info; Some Debug; Some Trace]) "
                            "[None; Some Error; Some Warn; Some Info; Some Debug; Some Trace]"))
    # ---- model evaluation
    model = None
    try:
        model = coq_eval(ctx, "From TV Require Import LogBridge.Model.\nLocal Open Scope N_scope.\nLocal Open Scope string_scope.", terms,
                         shards=min(vlib.NCPU, max(1, len(terms) // 12)))
    except Exception as exn:  # ModelEvalError or a parse problem: the tie is broken, the oracle already ran
        rep.tie("model-eval", False, str(exn)[:300])

    ctx.log("model evaluated on %d terms" % len(terms))
    # ---- correspondence
    if model is not None:
        dis_a = []
        n_a_cmp = 0
        for c in cases_a:
            if c["id"] not in index_a:
                continue
            ri, fi, ei = index_a[c["id"]]
            im = impl_a[c["id"]]
            mlm = som(model[c["id"] + ":logmax"])
            n_a_cmp += 1
            if mlm != im["log_max"]:
                dis_a.append({"case": c["id"], "what": "log::max_level() after the logger is installed", "impl": im["log_max"], "model": mlm, "init": c.get("init")})
            if c["id"] + ":entries" in model:
                m_enq, m_cvm, m_cvr, m_cvl = model[c["id"] + ":entries"]
                for idx, me in zip(ei["enq"], m_enq):
                    n_a_cmp += 1
                    me = som(me)
                    io = im["items"][idx]
                    impl_obs = [canon_impl_obs_a(z) for z in io["obs"]]
                    if me is None:
                        dis_a.append({"case": c["id"], "item": idx, "model": "stuck"})
                        continue
                    mans, mobs = bool(me[0]), [canon_model_obs_a(z) for z in me[1]]
                    if c["mode"] == "none":
                        mobs = []
                    if (mans, mobs) != (bool(io.get("ans")), impl_obs):
                        dis_a.append({"case": c["id"], "item": idx, "what": "Log::enabled", "impl": (io.get("ans"), impl_obs), "model": (mans, mobs)})
                for kind, ml in (("cvm", m_cvm), ("cvr", m_cvr)):
                    for idx, me in zip(ei[kind], ml):
                        n_a_cmp += 1
                        me = som(me)
                        cv = im["items"][idx].get("conv")
                        iv = None if cv is None else ("en", hexs(cv["name"]), hexs(cv["target"]), cv["level"], hexs(cv["file"]), cv["line"], hexs(cv["module"]),
                                                      cv["cs"] if cv["cs"] >= 0 else None)
                        mv = None if me is None else canon_model_obs_a((0, ("Some", me), None))
                        if iv != mv or iv is None:
                            dis_a.append({"case": c["id"], "item": idx, "what": kind, "impl": iv, "model": mv})
                for idx, me in zip(ei["cvl"], m_cvl):
                    n_a_cmp += 1
                    me = som(me)
                    al = im["items"][idx].get("aslog")
                    iv = None if al is None else (al[0], hexs(al[1]))
                    mv = None if me is None else (me[0], unb(me[1]))
                    if iv != mv or iv is None:
                        dis_a.append({"case": c["id"], "item": idx, "what": "cvl", "impl": iv, "model": mv})
            mres = model[c["id"] + ":recs"]
            for idx, mo in zip(ri, mres):
                n_a_cmp += 1
                mo = som(mo)
                impl_obs = [canon_impl_obs_a(z) for z in im["items"][idx]["obs"]]
                if mo is None:
                    dis_a.append({"case": c["id"], "item": idx, "model": "stuck"})
                    continue
                mobs = [canon_model_obs_a(z) for z in mo]
                if c["mode"] == "none":
                    mobs = []   # NoCollector cannot be observed: nothing may reach the (uninstalled) recording collector
                if mobs != impl_obs:
                    dis_a.append({"case": c["id"], "item": idx, "record": c["items"][idx], "impl": impl_obs, "model": mobs})
                else:
                    # the same through a visitor with record_debug only: a fmt::Arguments value's Debug text is the text itself
                    mdbg = [f[2] for z in mobs if z[0] == "ev" for f in z[5] if f[0] == "message" and f[1] == 0]
                    idbg = [m_ for z in im["items"][idx]["obs"] if z["t"] == "ev" for m_ in dbg_messages(z)]
                    if mdbg != idbg:
                        dis_a.append({"case": c["id"], "item": idx, "what": "message through a record_debug-only visitor", "impl": idbg, "model": mdbg})
            if fi:
                for idx, me in zip(fi, model[c["id"] + ":foreign"]):
                    n_a_cmp += 1
                    if c["mode"] == "none":
                        continue
                    impl_obs = [canon_impl_obs_a(z) for z in im["items"][idx]["obs"]]
                    mev = canon_model_event(me)
                    if impl_obs != [mev]:
                        dis_a.append({"case": c["id"], "item": idx, "impl": impl_obs, "model": [mev]})
        mconv = tuple([som(z) for z in col] for col in model["conv"])
        for cid, cv in conv_seen.items():
            n_a_cmp += 22
            if tuple(list(z) for z in cv) != mconv:
                dis_a.append({"case": cid, "what": "level conversion tables", "impl": cv, "model": mconv})
        rep.tie("correspondence:a(log->tracing)", not dis_a, "%d disagreements over %d records" % (len(dis_a), n_a_cmp), dis_a[:1] or None)
        rep.traces_validated += n_a_cmp
        dis_b = []
        n_b_cmp = 0
        for always, b, impls in runs_b:
            for c in cases_b:
                key = "%s:%s" % (b, c["id"])
                if key not in index_b:
                    continue
                ranges, spec_exists = index_b[key]
                (_r_exists, _r_ginit, _r_scount, _hbs, m_installed, outs, flags) = model[key]   # left-nested tuples print flat
                im = impls[c["id"]]
                flag = False
                for i in range(len(c["ops"])):
                    r = im["ops"][i]
                    n_b_cmp += 1
                    impl_recs = [canon_rec(z) for z in r["recs"]]
                    mrecs = []
                    if i in ranges:
                        a, e, mid = ranges[i]
                        mrecs = [canon_model_lrec(z) for o_ in outs[a:e] for z in o_]
                        if e > a:
                            flag = bool(flags[e - 1])
                        if mid is not None and r.get("exists_mid") is not None and bool(flags[mid]) != r["exists_mid"]:
                            dis_b.append({"case": c["id"], "bin": b, "op": i, "what": "has_been_set() inside the set_global_default window",
                                          "impl": r["exists_mid"], "model": bool(flags[mid])})
                    if impl_recs != mrecs:
                        dis_b.append({"case": c["id"], "bin": b, "op": i, "what": c["ops"][i][0], "impl": impl_recs, "model": mrecs})
                    for k_ in ("exists", "exists_t"):
                        if r.get(k_) is not None and r[k_] != flag:
                            dis_b.append({"case": c["id"], "bin": b, "op": i, "what": "has_been_set() (%s)" % k_, "impl": r[k_], "model": flag})
                if bool(m_installed) != bool(spec_exists):
                    dis_b.append({"case": c["id"], "bin": b, "what": "an install has returned (ghost)", "driver": spec_exists, "model": m_installed})
        lt = [z for z in disagree_b if z and z[0] == "ltinit"]
        for _, cid, i, logmax, lvl, err, after in lt:
            n_b_cmp += 1
            want = model["ltinit"][logmax][lvl]
            want = 0 if want is None else 1 + LV.index(want[1] if isinstance(want, tuple) else want)
            if err is not True or after != want:
                dis_b.append({"case": cid, "op": i, "what": "LogTracer::builder().with_max_level(%d).init() in a process that has a logger (log max %d)" % (lvl, logmax),
                              "impl": {"returned_err": err, "log_max_after": after}, "model": {"returned_err": True, "log_max_after": want}})
        rep.count("b:failed-LogTracer-init ops", len(lt))
        rep.tie("correspondence:b(tracing->log)", not dis_b, "%d disagreements over %d steps" % (len(dis_b), n_b_cmp), dis_b[:1] or None)
        rep.traces_validated += n_b_cmp
    # ---- thorough: the same cases on release builds; observations must equal the debug ones (then the oracle and
    #      the correspondence carry over), and where they do not the oracle is run on the release observations
    if ctx.thorough() and not ctx.replay:
        rbins = {}
        for pkg, b in (("logbridge", "h_logbridge"), ("logfeat", "h_logfeat"), ("logalways", "h_logalways")):
            ok, paths, log = cargo_build(ctx, pkg, [b], release=True)
            if not ok:
                rep.tie("build-release:" + b, False, vlib.last_error(log))
                return rep
            rbins[b] = paths[b]
        diff = []
        with ThreadPoolExecutor(max_workers=vlib.NCPU) as ex:
            rel_a = list(ex.map(lambda c: run_case_a(os.path.join(wd, c["id"] + ".case"), rbins["h_logbridge"]), cases_a))
        for c, im in zip(cases_a, rel_a):
            dbg = impl_a[c["id"]]
            if im["rc"] != dbg["rc"] or im["items"] != dbg["items"] or im.get("current") != dbg.get("current"):
                diff.append({"part": "a", "case": c["id"]})
                if im["rc"] == 0 and len(im["items"]) == len(c["items"]):
                    oracle_a(rep, c, im, texts_a[c["id"]])
            rep.evaluations += len(im["items"])
        for always, b, impls in runs_b:
            with ThreadPoolExecutor(max_workers=vlib.NCPU) as ex:
                rel_b = list(ex.map(lambda c: run_case_b(os.path.join(wd, c["id"] + ".case"), rbins[b]), cases_b))
            for c, im in zip(cases_b, rel_b):
                dbg = impls[c["id"]]
                if im["rc"] != dbg["rc"] or im["ops"] != dbg["ops"]:
                    diff.append({"part": "b", "bin": b, "case": c["id"]})
                    if im["rc"] == 0 and "module" in im:
                        process_case_b(rep, c, im, texts_b[c["id"]], always, [], [])
                rep.evaluations += len(im["ops"])
        rep.tie("release-observations-equal-debug", not diff, "%d cases differ" % len(diff), diff[:1] or None)
    rep.exhaustive = False
    rep.samples = [
        {"a": "record level INFO target 'app' through Log::log, collector table {'log': OFF, default TRACE}", "events": 1,
         "normalized": ["log event", "app", "INFO"]},
        {"a": "record target 'log', same collector", "events": 0},
        {"a": "ignore_crate('db'), record target 'app::db' (substring, not prefix)", "events": 1},
        {"b": "info!(message = s, x = i) before any install", "log text": "<s> x=<i>", "target": "<module path>", "level": "Info"},
        {"b": "span!(target: 'app::db', DEBUG, 's2', e = Empty) before any install", "log text": "s2;", "target": "app::db"},
        {"b": "enter of an INFO span before any install", "log text": "-> s1;", "target": "tracing::span::active", "level": "Trace"},
        {"b": "any of these after set_default / set_global_default (feature log)", "records": 0},
        {"b": "worker 2 calls set_default; the MAIN thread (no default of its own) then emits info!", "records": 0, "has_been_set() on main": True},
        {"b": "worker 1 stopped at yield point 72 inside set_global_default; main emits info!", "records": 1, "has_been_set() on main": False},
        {"a": "ignore_all(['app']); records with target 'app', 'app::db', 'apple' -> 0 events; 'ap', 'App', 'xapp', ' app' -> 1"},
        {"a": "LogTracer::builder().init() without with_max_level", "log::max_level()": "Trace"},
        {"configurations": len(cases_a), "histories": len(cases_b)}]
    return rep
