"""C03 — Span handles drive their collector through a well-formed, balanced protocol.

Leg A: theorems of coq/theories/Properties/C03.v over SpanApi/Model.v (all programs, by an invariant).
Leg T: translators/span_shapes.py reads the per-method collector-call shapes of span.rs / instrument.rs / tracing-futures /
       span! into coq/gen/Gen_span.v on every run; C03_source_shapes (generated table = the table SpanApi/Shapes.v's
       interpreter turns into the model's micro-actions, C03_compile_from_shapes) is part of leg A; the rows that differ
       are named by evaluating ShapeSyntax.differing_rows.
Leg B: correspondence: seeded random span-API programs (data) are interpreted through the REAL tracing /
       tracing-futures API by harness/spanapi/h_spanapi (one OS thread per program thread, recording
       collectors) and by the model (`observe`, vm_compute); per op the appended collector calls, the id of the
       produced handle and the op at which an ill-formed program is refused must agree.
Leg C: oracle = the property's log predicates evaluated in Python on the implementation's log only (plus the ids the
       real `Span::id()` reports for handles made / dropped)."""
import glob
import json
import os
import sys

import vlib
from vlib import Report, coq_prove, cargo_build, run_bin, coq_eval, gen_if_changed

sys.path.insert(0, os.path.join(vlib.VERIF, "translators"))
import span_shapes  # noqa: E402

(NEW, CLONE, CURRENT, ORCURRENT, DROP, ENTER, DROPGUARD, ENTERED, EXITOWNED, SCOPEBEGIN, SCOPEEND, RECORD, FOLLOWS,
 INSTRUMENT, POLLBEGIN, POLLEND, INTOINNER, SETDEFAULT, CLOSESCOPE, QUERY, INNERACCESS, SWAP, CLONEFUT, WITHCOLL,
 CLONEDROP, CLONEFROM, PDROP, SCOPEENDL, POLLENDL, INSTRCUR, EXITOWNEDF, DROPOWNEDF, DROPGUARDF, INSCOPEF) = range(34)
FAULT_OPS = (EXITOWNEDF, DROPOWNEDF, DROPGUARDF, INSCOPEF)   # the collectors' exit hook is armed to unwind (one shot), op inside catch_unwind
OPNAMES = ["New", "Clone", "Current", "OrCurrent", "Drop", "Enter", "DropGuard", "Entered", "ExitOwned", "ScopeBegin",
           "ScopeEnd", "Record", "FollowsFrom", "Instrument", "PollBegin", "PollEnd", "IntoInner", "SetDefault", "CloseScope",
           "Query", "InnerAccess", "SpanMutSwap", "CloneFut", "WithCollector", "CloneDrop", "CloneFrom", "PDrop", "ScopeEndL", "PollEndL",
           "InstrumentCurrent", "ExitOwnedHookPanics", "DropOwnedHookPanics", "DropGuardHookPanics", "InScopeHookPanics"]
TAGS = {1: "new_span", 2: "clone_span", 3: "try_close", 4: "enter", 5: "exit", 6: "record", 7: "record_follows_from",
        8: "mark:poll-body", 9: "mark:inner-drop", 10: "mark:inner-touched"}
FUTS = ('f', 'w', 'i')   # Instrumented / WithDispatch<Instrumented> / Instrumented<WithDispatch>
NOCOLL = 57005


# ------------------------------------------------------------------------------------------------
# ownership tracker = what rustc accepts (mirrors SpanApi.Model.compile and the harness' OwnSt)

class Own:
    def __init__(self):
        self.kinds = {}     # name -> 'h' | 'f' | 'w' | 'i'   (see FUTS)
        self.ents = []      # [kind, holder, tid]  oldest first; kind = ('g', name) | 's' | 'p' | 'o'

    def live(self, n):
        return n in self.kinds

    def on(self, n):
        return [e for e in self.ents if e[1] == n]

    def readable(self, n):
        return self.live(n) and not any(e[0] == 'p' for e in self.on(n))

    def free(self, n):
        return self.live(n) and not self.on(n)

    def top_frame(self, t):
        for e in reversed(self.ents):
            if e[2] == t and e[0] in ('s', 'p'):
                return e
        return None

    def find_guard(self, g):
        for e in reversed(self.ents):
            if e[0] == ('g', g):
                return e
        return None

    def owned_by(self, n, t):
        on = self.on(n)
        return len(on) == 1 and on[0][0] == 'o' and on[0][2] == t

    def anyfut(self, n):
        return self.kinds.get(n) in FUTS

    def in_wd_poll(self, t):
        return any(e[2] == t and e[0] == 'p' and self.kinds.get(e[1]) in ('w', 'i') for e in self.ents)

    def ok(self, op):
        t, code, a, b, c, d, e = op
        k = self.kinds
        if code == NEW:
            return not self.live(a) and (d not in (2, 3) or self.readable(e)) and d <= 4
        if code == CLONE:
            return self.readable(a) and not self.live(b)
        if code == CURRENT:
            return not self.live(a)
        if code in (ORCURRENT, ENTERED, INSTRUMENT):
            return k.get(a) == 'h' and self.free(a)
        if code in (SCOPEENDL, POLLENDL):
            if b > 3:
                return False
            tmp = Own()
            tmp.kinds, tmp.ents = dict(self.kinds), [list(x) for x in self.ents]
            for n in [c, d, e][:b]:
                if not tmp.ok([t, DROP, n, 0, 0, 0, 0]):
                    return False
                tmp.apply([t, DROP, n, 0, 0, 0, 0])
            f = tmp.top_frame(t)
            return f is not None and f[0] == ('s' if code == SCOPEENDL else 'p')
        if code == INSTRCUR:
            return not self.live(a)
        if code in (DROP, PDROP):
            if not self.live(a):
                return False
            return self.free(a) or (k[a] == 'h' and self.owned_by(a, t))
        if code == ENTER:
            return self.readable(a) and self.find_guard(b) is None
        if code == DROPGUARD:
            g = self.find_guard(a)
            return g is not None and g[2] == t
        if code == EXITOWNED:
            return self.owned_by(a, t)
        if code in (EXITOWNEDF, DROPOWNEDF):
            return k.get(a) == 'h' and self.owned_by(a, t)
        if code == DROPGUARDF:
            g = self.find_guard(a)
            return g is not None and g[2] == t
        if code == INSCOPEF:
            return self.readable(a)
        if code == SCOPEBEGIN or code == RECORD:
            return self.readable(a)
        if code == SCOPEEND:
            f = self.top_frame(t)
            return f is not None and f[0] == 's'
        if code == FOLLOWS:
            return self.readable(a) and (c >= 2 or self.readable(b))
        if code in (POLLBEGIN, INTOINNER):
            return self.anyfut(a) and self.free(a)
        if code == POLLEND:
            f = self.top_frame(t)
            return f is not None and f[0] == 'p'
        if code == QUERY:
            return self.readable(a)
        if code == INNERACCESS:
            return self.anyfut(a) and (self.readable(a) if b % 2 == 0 else self.free(a))
        if code == SWAP:
            return self.anyfut(a) and self.free(a) and k.get(b) == 'h' and self.free(b)
        if code == CLONEFUT:
            return self.anyfut(a) and self.readable(a) and not self.live(b)
        if code == WITHCOLL:
            return k.get(a) == 'f' and self.free(a)
        if code == CLONEDROP:
            return self.readable(a) and not self.live(b)
        if code == CLONEFROM:
            return k.get(a) == 'h' and self.free(a) and self.readable(b) and a != b and not self.live(c)
        return code in (SETDEFAULT, CLOSESCOPE) and not self.in_wd_poll(t)

    def apply(self, op):
        t, code, a, b, c, d, e = op
        if code in (NEW, CURRENT):
            self.kinds[a] = 'h'
        elif code == CLONE:
            self.kinds[b] = 'h'
        elif code in (SCOPEENDL, POLLENDL):
            for n in [c, d, e][:b]:
                self.apply([t, DROP, n, 0, 0, 0, 0])
            self.apply([t, SCOPEEND, 0, 0, 0, 0, 0])
        elif code == INSTRCUR:
            self.kinds[a] = 'f'
        elif code in (DROP, PDROP, EXITOWNEDF, DROPOWNEDF):
            self.ents = [x for x in self.ents if x[1] != a]
            del self.kinds[a]
        elif code == DROPGUARDF:
            self.ents.remove(self.find_guard(a))
        elif code == ENTER:
            self.ents.append([('g', b), a, t])
        elif code == DROPGUARD:
            self.ents.remove(self.find_guard(a))
        elif code == ENTERED:
            self.ents.append(['o', a, t])
        elif code == EXITOWNED:
            self.ents = [x for x in self.ents if x[1] != a]
        elif code == SCOPEBEGIN:
            self.ents.append(['s', a, t])
        elif code in (SCOPEEND, POLLEND):
            f = self.top_frame(t)
            # remove that very frame (identity, not equality)
            for i in range(len(self.ents) - 1, -1, -1):
                if self.ents[i] is f:
                    del self.ents[i]
                    break
        elif code == INSTRUMENT:
            self.kinds[a] = 'f' if c == 0 else 'i'
        elif code == WITHCOLL:
            self.kinds[a] = 'w'
        elif code == CLONEFUT:
            self.kinds[b] = self.kinds[a]
        elif code == POLLBEGIN:
            self.ents.append(['p', a, t])
        elif code == INTOINNER:
            del self.kinds[a]


WEIGHTS = [(NEW, 12), (CLONE, 9), (CURRENT, 5), (ORCURRENT, 3), (DROP, 8), (ENTER, 9), (DROPGUARD, 8), (ENTERED, 6),
           (EXITOWNED, 6), (SCOPEBEGIN, 5), (SCOPEEND, 5), (RECORD, 3), (FOLLOWS, 3), (INSTRUMENT, 7), (POLLBEGIN, 15),
           (POLLEND, 11), (INTOINNER, 3), (SETDEFAULT, 3), (CLOSESCOPE, 2), (QUERY, 3), (INNERACCESS, 3), (SWAP, 4),
           (CLONEFUT, 4), (WITHCOLL, 4), (CLONEDROP, 4), (CLONEFROM, 5), (PDROP, 5), (SCOPEENDL, 4), (POLLENDL, 5),
           (INSTRCUR, 3)]


FAULT_WEIGHTS = [(EXITOWNEDF, 14), (DROPOWNEDF, 7), (DROPGUARDF, 5), (INSCOPEF, 4)]


def is_fault(case):
    return any(o[1] in FAULT_OPS for o in case["ops"])


def gen_program(rng, n_main, threads, colls, malformed, fault=False):
    """A random mostly-valid program; if `malformed`, one op rustc would reject is placed at a random position
    (the case ends there).  Returns list of ops [t, code, a, b, c, d, e]."""
    own = Own()
    ops = []
    NH, NG = 7, 6
    codes = [c for c, _ in WEIGHTS] + ([c for c, _ in FAULT_WEIGHTS] if fault else [])
    wts = [(16 if (fault and c == ENTERED) else w) for c, w in WEIGHTS] + ([w for _, w in FAULT_WEIGHTS] if fault else [])
    bad_at = rng.randrange(1, n_main + 1) if malformed else -1

    def cand(code, t):
        hs = list(own.kinds)
        r = rng.randrange
        if code == NEW:
            how, en = r(2), (0 if rng.random() < 0.2 else 1)
            pk = rng.choice([0, 1, 1, 2, 2, 3, 4])
            return [t, NEW, r(NH), how, en, pk, (rng.choice(hs) if hs and pk in (2, 3) else r(NH))]
        if code == CLONE:
            return [t, CLONE, (rng.choice(hs) if hs else r(NH)), r(NH), 0, 0, 0]
        if code == CURRENT:
            return [t, CURRENT, r(NH), 0, 0, 0, 0]
        if code in (ORCURRENT, DROP, ENTERED, EXITOWNED, SCOPEBEGIN, RECORD, INSTRUMENT, POLLBEGIN, INTOINNER, QUERY,
                    INNERACCESS, WITHCOLL):
            pool = hs
            if code in (POLLBEGIN, INTOINNER, INNERACCESS) and rng.random() < 0.8:
                pool = [h for h in hs if own.kinds[h] in FUTS] or hs
            if code == WITHCOLL and rng.random() < 0.8:
                pool = [h for h in hs if own.kinds[h] == 'f'] or hs
            if code == EXITOWNED and rng.random() < 0.8:
                pool = [e[1] for e in own.ents if e[0] == 'o' and e[2] == t] or hs
            x = [t, code, (rng.choice(pool) if pool else r(NH)), 0, 0, 0, 0]
            if code == INSTRUMENT:
                x[3] = r(2)
                x[4] = rng.choice([0, 0, 0, 1, 2 + r(colls + 1)])
            elif code == RECORD and rng.random() < 0.6:
                x[3] = rng.randrange(1, 5)
                x[4] = r(1 << x[3])
            elif code == QUERY:
                x[3] = r(4)
            elif code == INNERACCESS:
                x[3] = r(4)
            elif code == WITHCOLL:
                x[3] = rng.choice([0, 1 + r(colls + 1)])
            return x
        if code == PDROP:
            return [t, PDROP, (rng.choice(hs) if hs else r(NH)), 0, 0, 0, 0]
        if code in (EXITOWNEDF, DROPOWNEDF):
            pool = [e[1] for e in own.ents if e[0] == 'o' and e[2] == t] or hs
            return [t, code, (rng.choice(pool) if pool else r(NH)), 0, 0, 0, 0]
        if code == DROPGUARDF:
            gs = [e[0][1] for e in own.ents if isinstance(e[0], tuple) and e[2] == t]
            return [t, DROPGUARDF, (rng.choice(gs) if gs else r(NG)), 0, 0, 0, 0]
        if code == INSCOPEF:
            return [t, INSCOPEF, (rng.choice(hs) if hs else r(NH)), 0, 0, 0, 0]
        if code == INSTRCUR:
            return [t, INSTRCUR, r(NH), r(2), 0, 0, 0]
        if code in (SCOPEENDL, POLLENDL):
            # the locals: holders this thread could drop now (plain handles, its own EnteredSpans, futures at rest)
            cand_ = [h for h in hs if own.ok([t, DROP, h, 0, 0, 0, 0])]
            rng.shuffle(cand_)
            ls = cand_[:rng.choice([1, 1, 2, 3])]
            res_ = (1 if rng.random() < 0.6 else 0) if code == SCOPEENDL else rng.choice([0, 1, 2, 2, 2])
            return [t, code, res_, len(ls)] + (ls + [0, 0, 0])[:3]
        if code == CLONEDROP:
            gs = [e[1] for e in own.ents if e[0] == 'o']
            src = rng.choice(gs) if gs and rng.random() < 0.6 else (rng.choice(hs) if hs else r(NH))
            return [t, CLONEDROP, src, r(NH), 0, 0, 0]
        if code == CLONEFROM:
            hh = [h for h in hs if own.kinds[h] == 'h']
            return [t, CLONEFROM, (rng.choice(hh) if hh else r(NH)), (rng.choice(hs) if hs else r(NH)), r(NH), r(4), 0]
        if code in (SWAP, CLONEFUT):
            fs = [h for h in hs if own.kinds[h] in FUTS]
            f = rng.choice(fs) if fs and rng.random() < 0.9 else (rng.choice(hs) if hs else r(NH))
            if code == SWAP:
                hh = [h for h in hs if own.kinds[h] == 'h']
                return [t, SWAP, f, (rng.choice(hh) if hh else r(NH)), 0, 0, 0]
            return [t, CLONEFUT, f, r(NH), 0, 0, 0]
        if code == ENTER:
            return [t, ENTER, (rng.choice(hs) if hs else r(NH)), r(NG), 0, 0, 0]
        if code == DROPGUARD:
            gs = [e[0][1] for e in own.ents if isinstance(e[0], tuple)]
            return [t, DROPGUARD, (rng.choice(gs) if gs else r(NG)), 0, 0, 0, 0]
        if code == SCOPEEND:
            return [t, SCOPEEND, (1 if rng.random() < 0.25 else 0), 0, 0, 0, 0]
        if code == POLLEND:
            return [t, POLLEND, rng.choice([0, 0, 0, 1, 2]), 0, 0, 0, 0]
        if code == FOLLOWS:
            return [t, FOLLOWS, (rng.choice(hs) if hs else r(NH)), (rng.choice(hs) if hs else r(NH)), rng.choice([0, 0, 1, 1, 2]), 0, 0]
        if code == SETDEFAULT:
            return [t, SETDEFAULT, rng.choice([0] + list(range(1, colls + 1)) * 3), 0, 0, 0, 0]
        return [t, CLOSESCOPE, 0, 0, 0, 0, 0]

    # most programs start by installing a default somewhere
    if rng.random() < 0.2:
        # two spans from the same callsite under two collectors (equal ids when the collectors number their spans
        # themselves), one handle then overwritten with the other by clone_from
        c1, c2 = rng.sample(range(1, colls + 1), 2)
        how, pk = rng.randrange(2), rng.choice([0, 1])
        for op in ([0, SETDEFAULT, c1, 0, 0, 0, 0], [0, NEW, 0, how, 1, pk, 0], [0, SETDEFAULT, c2, 0, 0, 0, 0],
                   [0, NEW, 1, how, 1, pk, 0]) + (([0, CLONEFROM, 0, 1, 6, rng.randrange(4), 0],) if rng.random() < 0.6 else ()):
            assert own.ok(op)
            own.apply(op)
            ops.append(op)
    elif rng.random() < 0.85:
        ops.append([0, SETDEFAULT, rng.randrange(1, colls + 1), 0, 0, 0, 0])
    while len(ops) < n_main:
        want_bad = (len(ops) + 1 == bad_at)
        for _ in range(60):
            t = rng.randrange(threads)
            code = rng.choices(codes, wts)[0]
            op = cand(code, t)
            if own.ok(op) != want_bad:
                break
        else:
            if want_bad:
                op = [0, DROPGUARD, 63, 0, 0, 0, 0]   # no such guard: always ill-formed
            else:
                op = [0, CURRENT, next(i for i in range(64) if not own.live(i)), 0, 0, 0, 0]
        ops.append(op)
        if want_bad:
            return ops
        own.apply(op)
    if rng.random() < 0.8:
        ops += cleanup(own, rng)
    return ops


def cleanup(own, rng):
    """A well-formed continuation that drops every guard, frame, future and handle."""
    tail = []

    def push(op):
        assert own.ok(op), (op, own.kinds, own.ents)
        own.apply(op)
        tail.append(op)
    while True:
        fr = [e for e in own.ents if e[0] in ('s', 'p')]
        if not fr:
            break
        e = fr[-1]
        push([e[2], SCOPEEND if e[0] == 's' else POLLEND, 0, 0, 0, 0, 0])
    gs = [e for e in own.ents if isinstance(e[0], tuple)]
    rng.shuffle(gs)
    for e in gs:
        push([e[2], DROPGUARD, e[0][1], 0, 0, 0, 0])
    for n in sorted(own.kinds, key=lambda _: rng.random()):
        on = own.on(n)
        push([on[0][2] if on else 0, DROP, n, 0, 0, 0, 0])
    return tail


def coq_op(op):
    t, code, a, b, c, d, e = op
    if code == NEW:
        how = "Direct" if b == 1 else "(ViaMacro %s)" % ("true" if c else "false")
        par = ["PRoot", "PCtx", "(PExp %d)" % e, "(PExpId %d)" % e, "PNoneId"][d]
        body = "New %d %s %s" % (a, how, par)
    elif code == CLONEFROM:
        body = "CloneFrom %d %d %d" % (a, b, c)
    elif code in (CLONE, ENTER, QUERY, INNERACCESS, SWAP, CLONEFUT, CLONEDROP):
        body = "%s %d %d" % (OPNAMES[code], a, b)
    elif code == FOLLOWS:
        body = "FollowsFrom %d %s" % (a, ["(FSpan %d)" % b, "(FId %d)" % b, "FNone"][min(c, 2)])
    elif code == RECORD:
        ln, mask = (1, 1) if b == 0 else (b, c)
        body = "Record %d [%s]" % (a, "; ".join("true" if (mask >> i) & 1 else "false" for i in range(ln)))
    elif code == WITHCOLL:
        body = "WithCollector %d %s" % (a, "None" if b == 0 else "(Some %d)" % (b - 1))
    elif code == SCOPEENDL:
        body = "ScopeEndL %s [%s]" % ("true" if a else "false", "; ".join(str(x) for x in [c, d, e][:b]))
    elif code == POLLENDL:
        body = "PollEndL %s [%s]" % (["Pending", "Ready", "Panicked"][a], "; ".join(str(x) for x in [c, d, e][:b]))
    elif code == INSTRCUR:
        body = "InstrumentCurrent %d %s" % (a, "true" if b else "false")
    elif code == SCOPEEND:
        body = "ScopeEnd %s" % ("true" if a else "false")
    elif code == POLLEND:
        body = "PollEnd %s" % ["Pending", "Ready", "Panicked"][a]
    elif code == INSTRUMENT:
        body = "Instrument %d %s %s" % (a, "true" if b else "false", "WNone" if c == 0 else "WCurrent" if c == 1 else "(WWith %d)" % (c - 2))
    elif code == CLOSESCOPE:
        body = "CloseScope"
    else:
        body = "%s %d" % (OPNAMES[code], a)
    return "(%d, %s)" % (t, body)


def coq_prog(ops):
    return "[" + "; ".join(coq_op(o) for o in ops) + "]"


def pretty(ops):
    return ["t%d %s" % (o[0], coq_op(o).split(", ", 1)[1][:-1]) for o in ops]


# ------------------------------------------------------------------------------------------------
# oracle: the property's predicates on the implementation's log (never consults the model)

def oracle(case, out):
    """Returns (violations [(what, detail)], flags set).  `out` is the harness record."""
    ops = case["ops"]
    viol = []
    flags = set()
    creator = {}      # id -> the collector that issued it
    root = {}         # id -> the span it denotes (the id new_span returned): a collector's clone_span may return an alias
    issued = {}       # id -> how many handles the collector issued it for (new_span / clone_span return values)
    idclosed = {}     # id -> try_close calls with that id
    news, clones, closes = {}, {}, {}      # per span
    made, dropped = {}, {}                 # per span: handles that came into existence / were dropped (real Span::id())
    depth = {}
    own = Own()
    ids = {}          # holder name -> id+1 as reported by the real Span::id()  (0 = disabled)
    defaults = {}     # thread -> stack
    polled = {}       # future name -> last poll result
    disp = {}         # WithDispatch-wrapped future -> the collector its wrapper captured

    def bad(what, i, **kw):
        viol.append((what, dict(kw, op_index=i, op=pretty([ops[i]])[0])))

    for i, rec in enumerate(out["ops"]):
        op = ops[i]
        t, code, a, b = op[0], op[1], op[2], op[3]
        cur = (defaults.get(t) or [0])[-1]
        # --- non-trivial flags
        if code in (CLONE, CLONEDROP, CLONEFROM):
            flags.add("clone")
        if code == CLONEDROP and any(e[0] == 'o' and e[1] == a for e in own.ents):
            flags.add("clone-on-entered-guard")
        if code == CLONEFROM and ids.get(a, 0) > 0 and ids.get(b, 0) > 0 and \
                creator.get(ids[a] - 1) != creator.get(ids[b] - 1):
            flags.add("clone-from-across-collectors")
        if code in FAULT_OPS and rec["res"] == 1:
            flags.add("exit-hook-panicked:" + OPNAMES[code])
        if code == DROPGUARD:
            mine = [e for e in own.ents if e[2] == t]
            if mine and mine[-1][0] != ('g', a):
                flags.add("ooo-guard-drop")
        if code == DROP and own.anyfut(a) and polled.get(a) == 0:
            flags.add("fut-dropped-between-polls")
        if code == DROP and own.anyfut(a) and a not in polled:
            flags.add("fut-dropped-unpolled")
        if code in (DROP, ENTERED, INSTRUMENT, INTOINNER, ORCURRENT, SWAP) and ids.get(a, 0) > 0:
            # the handle is consumed / moved on this thread while the same span is entered on another thread
            if any(root.get(ids.get(e[1], 0) - 1, -1) == root.get(ids[a] - 1, -2) and e[2] != t for e in own.ents):
                flags.add("moved-while-entered-elsewhere")
        if code == POLLBEGIN and own.kinds.get(a) in ('w', 'i'):
            flags.add("with-dispatch-poll")
        # --- expected silence / instrumentation shape (judged before the state changes)
        refs = {NEW: ([op[6]] if op[5] == 2 else []), CLONE: [a], DROP: [a], ENTER: [a], ENTERED: [a], EXITOWNED: [a],
                SCOPEBEGIN: [a], RECORD: [a], FOLLOWS: [a], INSTRUMENT: [a], POLLBEGIN: [a], INTOINNER: [a],
                QUERY: [a], INNERACCESS: [a], SWAP: [a, b], CLONEFUT: [a], WITHCOLL: [a], CLONEDROP: [a],
                CLONEFROM: [a, b], EXITOWNEDF: [a], DROPOWNEDF: [a], INSCOPEF: [a]}.get(code)
        if code in (DROPGUARD, DROPGUARDF):
            g = own.find_guard(a)
            refs = [g[1]] if g else []
        if code in (SCOPEEND, POLLEND):
            f = own.top_frame(t)
            refs = [f[1]] if f else []
        locals_ = list(op[4:4 + b]) if code in (SCOPEENDL, POLLENDL) else []
        if code in (SCOPEENDL, POLLENDL):
            f = own.top_frame(t)
            refs = ([f[1]] if f else []) + locals_
            if locals_ and (a == 1 if code == SCOPEENDL else a == 2) and any(ids.get(n, 0) > 0 for n in locals_):
                flags.add("locals-dropped-by-unwind")
        if code == PDROP:
            refs = [a]
            if ids.get(a, 0) > 0:
                flags.add("dropped-while-panicking")
        calls = [e for e in rec["e"] if e[2] <= 7]
        if refs is not None and code != NEW and all(ids.get(r, 0) == 0 for r in refs) and calls:
            bad("a disabled span caused collector calls", i, calls=calls)
        sid = None
        if code in (POLLBEGIN, DROP, PDROP, INTOINNER) and own.anyfut(a):
            sid = ids.get(a, 0) - 1
            en = sid >= 0 and sid != NOCOLL
            shape = [(e[2], e[3], e[1]) for e in rec["e"]]
            if code == POLLBEGIN:
                want = ([(4, sid, t)] if en else []) + [(8, a, t)]
            elif code in (DROP, PDROP):
                want = ([(4, sid, t)] if en else []) + [(9, a, t)] + ([(5, sid, t), (3, sid, t)] if en else [])
            else:
                want = ([(3, sid, t)] if en else []) + [(9, a, t)]
            if shape != want:
                bad("Instrumented: %s did not produce enter / body / exit (/ close) in order" % OPNAMES[code], i,
                    got=rec["e"], want=want)
        # --- the log itself
        returned = None      # the id the collector handed out in this op (new_span / clone_span)
        for e in rec["e"]:
            c, et, tag, sid_, x, _y = e
            if tag > 7:
                continue
            if et != t:
                bad("call made on a different thread than the operation", i, entry=e)
            if c != cur:
                flags.add("foreign-default")
            if tag == 1:
                if sid_ in creator:
                    bad("an id was issued by new_span twice", i, entry=e)
                creator[sid_] = c
                root[sid_] = sid_
                issued[sid_] = issued.get(sid_, 0) + 1
                news[sid_] = news.get(sid_, 0) + 1
                returned = sid_
                continue
            if sid_ not in root:
                bad("a call used an id no collector had issued", i, entry=e, call=TAGS[tag])
                continue
            sp = root[sid_]
            if creator.get(sid_) != c:
                bad("a call about a span went to a collector that did not create it", i, entry=e, call=TAGS[tag], created_by=creator.get(sid_))
            if idclosed.get(sid_, 0) >= issued.get(sid_, 0):
                # every handle this id was issued for has been closed
                bad("a call arrived after the last handle's close notification", i, entry=e, call=TAGS[tag])
            if tag == 2:
                clones[sp] = clones.get(sp, 0) + 1
                ret = x
                if ret != sid_:
                    flags.add("alias-id")
                if ret in root and root[ret] != sp:
                    bad("harness: clone_span returned an id of another span", i, entry=e)
                root[ret] = sp
                creator[ret] = c
                issued[ret] = issued.get(ret, 0) + 1
                returned = ret
            elif tag == 3:
                closes[sp] = closes.get(sp, 0) + 1
                idclosed[sid_] = idclosed.get(sid_, 0) + 1
            elif tag == 4:
                depth[(sp, et)] = depth.get((sp, et), 0) + 1
            elif tag == 5:
                if depth.get((sp, et), 0) == 0:
                    bad("exit without a matching enter on that thread", i, entry=e)
                else:
                    depth[(sp, et)] -= 1
        # --- handles made / dropped, as the real Span::id() reports them
        res, dr, pre = rec["res"], rec["dr"], rec["pre"]
        def span_of(h):           # the span a reported handle id (id + 1) denotes; None = disabled / no collector / unknown
            return root.get(h - 1) if h and h - 1 != NOCOLL else None
        for n_ in locals_:
            # the frame's locals were dropped when it ended
            sp_ = span_of(ids.get(n_, 0))
            if sp_ is not None:
                dropped[sp_] = dropped.get(sp_, 0) + 1
        if code == CLONEDROP:
            # a handle of r's span came into existence and was dropped again
            sp_ = span_of(ids.get(a, 0))
            if sp_ is not None:
                made[sp_] = made.get(sp_, 0) + 1
                dropped[sp_] = dropped.get(sp_, 0) + 1
        if code == CLONEFROM:
            # a.clone_from(&b): a handle of b's span came into existence, the value a held before was dropped
            old_, src_ = span_of(ids.get(a, 0)), span_of(ids.get(b, 0))
            if src_ is not None:
                made[src_] = made.get(src_, 0) + 1
            if old_ is not None:
                dropped[old_] = dropped.get(old_, 0) + 1
            if span_of(res) != src_ or (res == 0) != (ids.get(b, 0) == 0):
                bad("after clone_from the handle does not refer to the span of its source", i, handle_id=res - 1,
                    source_id=ids.get(b, 0) - 1)
            if returned is not None and res - 1 != returned:
                bad("the new handle does not carry the id its collector returned for it", i, handle_id=res - 1,
                    collector_returned=returned)
        if code in (NEW, CLONE, CURRENT, CLONEFUT, INSTRCUR) or (code == ORCURRENT and pre == 0):
            if res and res - 1 != NOCOLL:
                if res - 1 not in root:
                    bad("a handle carries an id no collector had issued", i, handle_id=res - 1)
                else:
                    made[root[res - 1]] = made.get(root[res - 1], 0) + 1
                # the new handle must carry the id the collector returned from the call that made it
                if returned is not None and res - 1 != returned:
                    bad("the new handle does not carry the id its collector returned for it", i, handle_id=res - 1,
                        collector_returned=returned)
        if dr and dr - 1 != NOCOLL and dr - 1 in root:
            dropped[root[dr - 1]] = dropped.get(root[dr - 1], 0) + 1
        if code in (NEW, CURRENT, ORCURRENT, EXITOWNED, CLONEFROM, INSTRCUR):
            ids[a] = res
        elif code in (CLONE, CLONEFUT):
            ids[b] = res
        elif code == SWAP:
            ids[a], ids[b] = pre, res
        # --- state
        if code in (POLLEND, POLLENDL):
            f = own.top_frame(t)
            polled[f[1]] = a
        if code in (POLLEND, POLLENDL) and own.kinds.get(own.top_frame(t)[1]) in ('w', 'i') and defaults.get(t):
            defaults[t].pop()
        if code == INSTRCUR:
            polled.pop(a, None)
        if code == INSTRUMENT:
            polled.pop(a, None)
            if op[4] == 1:
                disp[a] = cur
            elif op[4] >= 2:
                disp[a] = op[4] - 2
        if code == WITHCOLL:
            disp[a] = cur if b == 0 else b - 1
        if code == CLONEFUT:
            polled.pop(b, None)
            if a in disp:
                disp[b] = disp[a]
        if code == POLLBEGIN and own.kinds.get(a) in ('w', 'i'):
            defaults.setdefault(t, []).append(disp.get(a, 0))
        if code == SETDEFAULT:
            defaults.setdefault(t, []).append(a)
        if code == CLOSESCOPE and defaults.get(t):
            defaults[t].pop()
        own.apply(op)
        # --- counts after this op (per span): one new_span, clones = handles - 1, closes = dropped handles
        for s in set(made) | set(news) | set(clones) | set(closes) | set(dropped):
            m, d_ = made.get(s, 0), dropped.get(s, 0)
            if news.get(s, 0) != 1:
                bad("a span with handles does not have exactly one new_span", i, span=s, new_span_calls=news.get(s, 0))
            if clones.get(s, 0) != m - 1:
                bad("#clone_span differs from the number of additional handles", i, span=s, clone_span_calls=clones.get(s, 0), additional_handles=m - 1)
            if closes.get(s, 0) != d_:
                bad("#try_close differs from the number of dropped handles", i, span=s, try_close_calls=closes.get(s, 0), dropped_handles=d_)
            if m > 0 and m == d_:
                # every handle of the span is gone: each id issued for one of them has had its close
                for h, sp_ in root.items():
                    if sp_ == s and idclosed.get(h, 0) != issued.get(h, 0):
                        bad("an id issued for a handle of a fully dropped span did not get exactly one close per handle", i,
                            span=s, id=h, issued_for_handles=issued.get(h, 0), try_close_calls=idclosed.get(h, 0))
        # --- enter/exit balance against the guards that are alive now
        want = {}
        for e in own.ents:
            s = ids.get(e[1], 0) - 1
            if s >= 0 and s != NOCOLL and s in root:
                want[(root[s], e[2])] = want.get((root[s], e[2]), 0) + 1
        for k in set(want) | set(depth):
            if depth.get(k, 0) != want.get(k, 0):
                bad("unmatched enters differ from the live guards / scopes / polls of that span on that thread", i, span=k[0], thread=k[1], unmatched_enters=depth.get(k, 0), live_guards=want.get(k, 0))
        if len(viol) > 6:
            break
    return viol, flags


# ------------------------------------------------------------------------------------------------

def describe_collectors(case):
    ws = case.get("wraps") or []
    own = case.get("own_ids")
    names = ["Dispatch::new(c)", "Dispatch::new(Box::new(c))", "Dispatch::new(Arc::new(c))",
             "Dispatch::new(Box<dyn Collect + Send + Sync>)", "Dispatch::new(Arc<dyn Collect + Send + Sync>)"]
    return ["collector %d: %s%s" % (k + 1, names[ws[k] if k < len(ws) else 0],
                                    ", clone_span returns a fresh id per handle" if k + 1 >= 3 else "")
            for k in range(case.get("collectors", 2))] + \
        (["every collector numbers its spans from 1 (the log shows global sequence numbers)"] if own else [])


def wf_all(ops):
    own = Own()
    for op in ops:
        if not own.ok(op):
            return False
        own.apply(op)
    return True


def shrink(bin_path, case, what, budget=250):
    """Greedy op deletion keeping the program well-formed and the same oracle verdict on the real code."""
    cur = case
    runs = 0
    changed = True
    while changed and runs < budget:
        changed = False
        i = len(cur["ops"]) - 1
        while i >= 0 and runs < budget:
            cand = dict(cur, ops=cur["ops"][:i] + cur["ops"][i + 1:])
            if cand["ops"] and wf_all(cand["ops"]):
                runs += 1
                rc, out = run_bin(bin_path, input=json.dumps(cand) + "\n", timeout=120)
                recs = [json.loads(l) for l in out.splitlines() if l.startswith("{")]
                if rc == 0 and recs and not recs[0].get("fatal"):
                    viol, _ = oracle(cand, recs[0])
                    if any(w == what for w, _ in viol):
                        cur = cand
                        changed = True
            i -= 1
    return cur


def model_obs(ctx, cases, tag="cases"):
    """{case id: ([(entries, res)...], ok)} from the Coq model."""
    chunk = 60
    terms = []
    for i in range(0, len(cases), chunk):
        terms.append((i, "map observe [%s]" % "; ".join(coq_prog(c["ops"]) for c in cases[i:i + chunk])))
    res = coq_eval(ctx, "From TV Require Import SpanApi.Model.\nFrom Coq Require Import List NArith.\nImport ListNotations.\nLocal Open Scope N_scope.",
                   terms, tag=tag)
    out = {}
    for i in range(0, len(cases), chunk):
        for c, r in zip(cases[i:i + chunk], res[i]):
            out[c["id"]] = r
    return out


def run(ctx):
    rep = Report(ctx)
    rep.rule = ("seeded random programs over 30 (+4 fault) op kinds (New via span!/direct x root/contextual/&Span/Option<Id>/None parent x enabled?, "
                "Clone, Current, OrCurrent, Drop, Enter/DropGuard in any order, Entered/ExitOwned, in_scope begin/end (return or unwind), "
                "Record chains incl. missing fields, FollowsFrom &Span/Option<Id>/None, is_none/is_disabled/id/metadata, Instrument "
                "(tracing / tracing-futures; plain or around a WithDispatch), with_collector / with_current_collector around an "
                "Instrumented, Poll begin/end (Pending/Ready/panic), IntoInner, inner/inner_mut/inner_pin_ref/inner_pin_mut, "
                "mem::swap through span_mut, Clone for Instrumented/WithDispatch, drop(x.clone()) written on the holder incl. an EnteredSpan "
                "guard, clone_from directly / through Box / Option / Vec, in_current_span, holders dropped by a contained panic (PDrop) and "
                "in_scope / poll bodies that own holders as locals and return or unwind (ScopeEndL / PollEndL), SetDefault/CloseScope) on 1-3 (thorough: 1-6) OS threads, "
                "in every 4th program also (oracle only, outside the Coq model) EnteredSpan::exit / drop of an EnteredSpan / drop of an Entered / in_scope "
                "run inside catch_unwind while the collectors' exit callback is armed to panic once, "
                "2-4 recording collectors (installed directly or behind Box<C> / Arc<C> / Box<dyn Collect> / Arc<dyn Collect>; "
                "collectors 3 and 4 return a fresh alias id from clone_span and name the current span by the newest unclosed alias; in 35 % of the cases every "
                "collector numbers its spans from 1, so ids overlap between collectors) + no collector; non-trivial = the program has a clone AND (an out-of-order guard drop OR a "
                "future dropped between polls OR a collector call made while the thread's default was a different collector / none "
                "OR a handle consumed on one thread while its span is entered on another); distinct = distinct op lists")
    rep.trusted_base = [
        "Coq 8.16.1 kernel + vm_compute", "translators/span_shapes.py + rsparse.py (statement-level shape reading; fails closed to "
        "SUnrecognised)", "harness h_spanapi.rs (recording Collect impl, re-entrant op loops, ownership validator)",
        "Python generator / differ / oracle (driver/props/c03.py)", "rustc's borrow checker and Send/Sync checks are represented by "
        "SpanApi.Model.compile (hand-written; mirrored by the harness validator and the generator, three-way compared on every case)",
        "std: drop order, catch_unwind, thread_local, mpsc; pin-project-lite"]
    rep.assumptions = [
        "collector contract: new_span returns an id no collector has issued before; clone_span returns the id it was given "
        "(collectors 1, 2) or a fresh id that aliases the same span (collectors 3, 4: one id per handle); current_span is the "
        "innermost span entered on the calling thread (exit removes the most recent occurrence of that span); collectors 3, 4 "
        "name it by the newest alias they issued for it and have not seen closed",
        "no mem::forget / leaks of handles or guards; the `log` feature is off",
        "default-collector scopes are closed innermost-first (out-of-order DefaultGuard drops are C02's subject)",
        "a thread does not open / close default-collector scopes of its own while it is inside the poll of a WithDispatch-wrapped "
        "future (the wrapper's DefaultGuard sits in that stack frame; out-of-order DefaultGuard drops are C02's subject)"]
    # ---- leg T: the collector-call shapes, read off the source
    text, unrec = span_shapes.main(ctx.repo, None)
    gen_if_changed(os.path.join(vlib.COQ, "gen", "Gen_span.v"), text)
    rep.tie("translator:Gen_span (every statement of the span / guard / Instrumented / WithDispatch methods and of span! recognised)",
            not unrec, "; ".join(unrec[:4]), unrec[:1] or None)
    rows_ok, bad_rows = False, None
    try:
        rc, out = vlib.coq_make(["theories/SpanApi/Shapes.vo", "gen/Gen_span.vo"], timeout=600)
        if rc != 0:
            raise RuntimeError(vlib.last_error(out))
        bad_rows = coq_eval(ctx, "From Coq Require Import NArith List String.\nImport ListNotations.\nFrom TV Require Import SpanApi.ShapeSyntax SpanApi.Shapes.\nFrom TVGen Require Gen_span.",
                            [("bad", "differing_rows Gen_span.src_shapes model_shapes")], tag="shapes")["bad"]
        bad_rows = [] if bad_rows in ("nil", []) else list(bad_rows)
        rows_ok = bad_rows == []
        rep.count("shape-rows-read", text.count('\n  ; ("') + 1)
        if not rows_ok:
            ctx.log("methods whose shape differs from the model's table:", bad_rows)
            rep.tie("source-shapes: the generated row of every method equals the model's row", False,
                    "differing rows: %s" % ", ".join(bad_rows[:8]),
                    {"rows": bad_rows, "generated": [l.strip() for l in text.split("\n") if any('("%s",' % b in l for b in bad_rows)][:8]})
        else:
            rep.tie("source-shapes: the generated row of every method equals the model's row", True, "%d rows" % (text.count('\n  ; ("') + 1))
    except Exception as ex:  # noqa: BLE001
        rep.tie("source-shapes: the generated row of every method equals the model's row", False, str(ex)[:300])
    # ---- leg A
    rep.proof = coq_prove(ctx, "C03", ["theories/Properties/C03.vo"],
                          extra_obligations=[("Gen_span.src_shapes = model_shapes (row by row, differing_rows = [])", rows_ok)])
    # ---- cases
    rng = ctx.rng
    n = 1500 if not ctx.thorough() else 20000
    cases = []
    for f in sorted(glob.glob(os.path.join(vlib.VERIF, "corpus", "C03", "*.json"))):
        for line in open(f):
            if line.strip():
                c = json.loads(line)
                c["id"] = "corpus:%s:%s" % (os.path.basename(f), c.get("id"))
                c["ops"] = [(o + [0] * 7)[:7] for o in c["ops"]]
                cases.append(c)
    for k in range(n):
        threads = rng.choice([1, 2, 2, 3]) if not ctx.thorough() else rng.choice([1, 2, 2, 3, 4, 6])
        colls = rng.choice([2, 2, 3, 3, 4])
        malformed = rng.random() < 0.12
        size = rng.choice([6, 12, 20, 30, 30, 45, 70] + ([100, 140] if ctx.thorough() else []))
        # how each collector reaches Dispatch::new: directly, Box<C>, Arc<C>, Box<dyn Collect + Send + Sync>, Arc<dyn ..>
        wraps = [rng.choice([0, 0, 1, 2, 3, 4]) for _ in range(colls)]
        cases.append({"id": "r%d" % k, "threads": threads, "collectors": colls, "wraps": wraps,
                      # every collector numbers its spans from 1 (tracing sees overlapping ids); the log stays in global numbers
                      "own_ids": rng.random() < 0.35,
                      "ops": gen_program(rng, size, threads, colls, malformed, fault=(k % 4 == 3))})
    if ctx.replay:
        rp = json.load(open(ctx.replay))
        c = rp.get("case", rp)
        c = c.get("program", c)
        cases = [{"id": "replay", "threads": c["threads"], "collectors": c["collectors"], "wraps": c.get("wraps", []),
                  "own_ids": c.get("own_ids", False),
                  "ops": [(o + [0] * 7)[:7] for o in c["ops"]]}]
    # ---- implementation
    builds = [False] + ([True] if ctx.thorough() else [])
    impl = {}
    bin_paths = {}
    for rel in builds:
        ok, paths, log = cargo_build(ctx, "spanapi", ["h_spanapi"], release=rel)
        if not ok:
            rep.tie("build:h_spanapi" + ("-release" if rel else ""), False, vlib.last_error(log))
            return rep
        stdin = "\n".join(json.dumps(c) for c in cases) + "\n"
        rc, out = run_bin(paths["h_spanapi"], input=stdin, timeout=1200)
        recs = {}
        for l in out.splitlines():
            if l.startswith("{"):
                r = json.loads(l)
                recs[r["id"]] = r
        if rc != 0 or len(recs) != len(cases):
            rep.tie("run:h_spanapi", False, "rc=%d, %d of %d cases answered: %s" % (rc, len(recs), len(cases), vlib.last_error(out)))
            return rep
        impl["release" if rel else "debug"] = recs
        bin_paths["release" if rel else "debug"] = paths["h_spanapi"]
    # ---- model
    model = None
    try:
        # the fault ops (a collector whose exit hook unwinds) are outside the Coq model: those programs go to the oracle only
        model = model_obs(ctx, [c for c in cases if not is_fault(c)])
    except Exception as ex:
        rep.tie("model-eval", False, str(ex)[:300])
    # ---- correspondence + oracle
    shrunk = {}
    for prof, recs in impl.items():
        disagree = []
        for c in cases:
            r = recs[c["id"]]
            key = json.dumps(c["ops"])
            if prof == "debug":
                rep.evaluations += 1
                rep.count("ops:%d-%d" % ((len(c["ops"]) // 20) * 20, (len(c["ops"]) // 20) * 20 + 19))
                rep.count("threads:%d" % c["threads"])
                for k_, w_ in enumerate(c.get("wraps", [])):
                    rep.count("collector-installed-as:" + ["direct", "Box<C>", "Arc<C>", "Box<dyn>", "Arc<dyn>"][w_] +
                              (" (fresh id per handle)" if k_ + 1 >= 3 else ""))
                for o in c["ops"][:len(r["ops"])]:
                    rep.count("op:" + OPNAMES[o[1]])
            if r.get("fatal"):
                rep.violation("harness could not complete the program: %s" % r["fatal"], {"program": c, "pretty": pretty(c["ops"]), "profile": prof})
                continue
            if r["rejected_at"] >= 0 and prof == "debug":
                rep.count("malformed-rejected")
            viol, flags = oracle(c, r)
            for what, detail in viol[:3]:
                if what not in shrunk and len(shrunk) < 4:
                    # an ill-formed program is cut at the refused op: the executed prefix is a well-formed program
                    base = c if r["rejected_at"] < 0 else dict(c, ops=c["ops"][:r["rejected_at"]])
                    small = shrink(bin_paths[prof], base, what)
                    rc2, out2 = run_bin(bin_paths[prof], input=json.dumps(small) + "\n", timeout=120)
                    r2 = [json.loads(l) for l in out2.splitlines() if l.startswith("{")][0]
                    d2 = [d for w, d in oracle(small, r2)[0] if w == what]
                    shrunk[what] = {"program": small, "pretty": pretty(small["ops"]), "detail": d2[0] if d2 else detail,
                                    "collectors": describe_collectors(small),
                                    "impl_log": [[TAGS[e[2]], e] for o in r2["ops"] for e in o["e"]], "profile": prof,
                                    "shrunk_from_ops": len(c["ops"])}
                    rep.violation(what + " [%s build]" % prof, shrunk[what])
                elif what not in shrunk:
                    rep.violation(what + " [%s build]" % prof, {"program": c, "pretty": pretty(c["ops"]), "detail": detail, "profile": prof})
            if prof == "debug":
                for f in flags:
                    rep.count("flag:" + f)
                if "clone" in flags and (flags & {"ooo-guard-drop", "fut-dropped-between-polls", "foreign-default",
                                                  "moved-while-entered-elsewhere"}):
                    rep.nontrivial.add(key)
            if prof == "debug" and is_fault(c):
                rep.count("fault-programs (oracle only)")
            if model is not None and c["id"] in model:
                m_ops, m_ok = model[c["id"]]
                want_rej = -1 if m_ok else len(m_ops)
                own_ids = bool(c.get("own_ids"))

                def vis(e):
                    # with per-collector id counters an id of ANOTHER collector (explicit parent, follows_from source) cannot
                    # be named in global numbers by the receiving collector: not compared
                    e = list(e)
                    if own_ids and e[2] == 1 and e[4] == 2:
                        e[5] = 0
                    if own_ids and e[2] == 7:
                        e[4] = 0
                    return e
                i_ops = [([vis(e) for e in o["e"]], o["res"]) for o in r["ops"]]
                mm_ops = [([vis(e) for e in ents], res) for ents, res in m_ops]
                if want_rej != r["rejected_at"] or i_ops != mm_ops:
                    first = next((j for j, (x, y) in enumerate(zip(i_ops, mm_ops)) if x != y), min(len(i_ops), len(mm_ops)))
                    disagree.append({"program": c, "pretty": pretty(c["ops"]), "first_differing_op": first,
                                     "impl": i_ops[first] if first < len(i_ops) else None,
                                     "model": mm_ops[first] if first < len(mm_ops) else None,
                                     "impl_rejected_at": r["rejected_at"], "model_rejected_at": want_rej})
                else:
                    rep.traces_validated += 1
        if model is not None:
            rep.tie("correspondence:per-op collector calls + produced ids + rejection point [%s]" % prof, not disagree,
                    "%d of %d programs disagree" % (len(disagree), len(model)), disagree[:1] or None)
    ex = next((c for c in cases if json.dumps(c["ops"]) in rep.nontrivial), cases[0])
    rep.samples = [{"program": pretty(ex["ops"]), "threads": ex["threads"], "impl_log": [[TAGS[e[2]], e] for o in impl["debug"][ex["id"]]["ops"] for e in o["e"]][:40]}]
    return rep
