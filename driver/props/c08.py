"""C08 — Static summaries of filters (interest, max-level hint) are sound upper bounds.

Leg A: theorems of coq/theories/Properties/C08.v over the executable model Summary/Model.v (filters, combinators,
       layers, Layered::pick_interest / pick_level_hint with the three flags and the marker rules, Filtered,
       Option / Vec, the registry's take_interest), by structural induction over every depth and shape.
Leg B: correspondence: seeded random filter expressions and stack shapes are built from the REAL crates
       (harness/summary/h_summary.rs) and evaluated on every metadata of an 80-entry pool in up to three span
       contexts; the same cases are evaluated by the model under vm_compute; every datum is compared.
Leg C: oracle = the three soundness implications checked directly on the implementation's answers
       (complete per case: the pool is finite), attributed to a known finding only when the failing case is in
       that finding's class (the class predicates are the ones the theorems exclude) and the kind of violation
       is the one the finding produces."""
import json
import os

import sys

import vlib
from vlib import Report, coq_prove, cargo_build, run_bin, coq_eval, gen_if_changed

sys.path.insert(0, os.path.join(vlib.VERIF, "translators"))
import summary_shapes as shapes_tr  # noqa: E402

NPOOL = 80
TARGETS = ["a", "ab", "a::b", "b"]
LV = ["ERROR", "WARN", "INFO", "DEBUG", "TRACE"]
LFNAME = ["off", "error", "warn", "info", "debug", "trace"]


# ------------------------------------------------------------------------------------------------
# the pool (must agree with h_summary.rs and Summary/Model.v `pool`)

def meta(i):
    fs = i % 2
    span = (i // 2) % 2 == 1
    return {"i": i, "fs": fs, "span": span, "target": TARGETS[(i // 4) % 4], "lvl": i // 16 + 1,
            "name": ("ev" if not span else ("sp" if fs == 0 else "sq")), "fields": ([] if fs == 0 else ["x", "y"])}


POOL = [meta(i) for i in range(NPOOL)]
SPAN_IDX = [m["i"] for m in POOL if m["span"]]


# ------------------------------------------------------------------------------------------------
# expression trees: python tuples; printers for the harness (s-expressions) and for Coq

def coq_str(s):
    return '"%s"%%string' % s


def coq_lf(n):
    return "None" if n == 0 else "(Some %s)" % LV[n - 1]


def coq_hint(h):
    return "None" if h is None else "(Some %s)" % coq_lf(h)


def sx_hint(h):
    return "-" if h is None else str(h)


def render_directive(d):
    """d = (target|None, span|None, [(field, value|None)], level 0..5 | None) -> EnvFilter directive text."""
    t, sp, fields, lvl = d
    s = t or ""
    if sp is not None or fields:
        s += "[" + (sp or "")
        if fields:
            s += "{" + ",".join(f if v is None else "%s=%d" % (f, v) for f, v in fields) + "}"
        s += "]"
    if s == "":
        return LFNAME[lvl]
    if lvl is None:
        return s
    return s + "=" + LFNAME[lvl]


def coq_directive(d):
    t, sp, fields, lvl = d
    fl = "[" + "; ".join("(%s, %s)" % (coq_str(f), "None" if v is None else "(Some %d)" % v) for f, v in fields) + "]"
    return "(mkdir %s %s %s %s)" % ("None" if t is None else "(Some %s)" % coq_str(t),
                                    "None" if sp is None else "(Some %s)" % coq_str(sp), fl, coq_lf(5 if lvl is None else lvl))


def tgt_dir(d):
    """a Targets directive: (target|None, level) from the builder API, or (target|None, [field names], level)"""
    return (d[0], [], d[1]) if len(d) == 2 else (d[0], list(d[1]), d[2])


def tgt_is_str(f):
    """("tgt", ds) is built with with_target / with_default; ("tgt", ds, "str") or any directive with field names is
    parsed from a string with Targets::from_str"""
    return bool(f[1]) and ((len(f) > 2 and f[2] == "str") or any(tgt_dir(d)[1] for d in f[1]))


def render_static(d):
    """StaticDirective::from_str: `level` | `target=level` | `target[{f,..}]=level` (a target is always Some(..) when
    there is an `=`: the default directive can only be written as a bare level)"""
    t, fl, l = d
    assert len(fl) <= 1, "Targets::from_str splits at every comma: only single-field directives can be written"
    if t is None:
        assert not fl, "a field-name directive needs a (possibly empty) target"
        return LFNAME[l]
    return "%s%s=%s" % (t, ("[{%s}]" % ",".join(fl)) if fl else "", LFNAME[l])


def f_sx(f):
    k = f[0]
    if k == "lvl":
        return "(lvl %d)" % f[1]
    if k == "tgt":
        ds = [tgt_dir(d) for d in f[1]]
        if tgt_is_str(f):
            return '(tgts "%s")' % ",".join(render_static(d) for d in ds)
        return "(tgt %s)" % " ".join("(%s %d)" % ("*" if t is None else ('""' if t == "" else t), l) for t, _, l in ds)
    if k == "env":
        return '(env %d "%s")' % (f[1], ",".join(render_directive(d) for d in f[2]))
    if k == "fn":
        return "(fn %x %s)" % (f[1], sx_hint(f[2]))
    if k == "dyn":
        cs = "-" if f[3] is None else "(%x %x)" % f[3]
        return "(dyn %x %s %s)" % (f[1], sx_hint(f[2]), cs)
    if k in ("and", "or"):
        return "(%s %s %s)" % (k, f_sx(f[1]), f_sx(f[2]))
    if k == "none":
        return "(none)"
    return "(%s %s)" % (k, f_sx(f[1]))


def f_coq(f):
    k = f[0]
    if k == "lvl":
        return "(FLevel %s)" % coq_lf(f[1])
    if k == "tgt":
        return "(FTargets [%s])" % "; ".join(
            "(%s, [%s], %s)" % ("None" if t is None else "(Some %s)" % coq_str(t), "; ".join(coq_str(x) for x in fl), coq_lf(l))
            for t, fl, l in (tgt_dir(d) for d in f[1]))
    if k == "env":
        return "(FEnv %d [%s])" % (f[1], "; ".join(coq_directive(d) for d in f[2]))
    if k == "fn":
        return "(FFn (tab_fn %d) %s)" % (f[1], coq_hint(f[2]))
    if k == "dyn":
        cs = "None" if f[3] is None else "(Some (tab_cs %d %d))" % f[3]
        return "(FDyn (tab_dyn %d) %s %s)" % (f[1], coq_hint(f[2]), cs)
    if k == "and":
        return "(FAnd %s %s)" % (f_coq(f[1]), f_coq(f[2]))
    if k == "or":
        return "(FOr %s %s)" % (f_coq(f[1]), f_coq(f[2]))
    if k == "not":
        return "(FNot %s)" % f_coq(f[1])
    if k == "some":
        return "(FSome %s)" % f_coq(f[1])
    if k == "none":
        return "FNone"
    if k == "box":
        return "(FBox %s)" % f_coq(f[1])
    if k == "arc":
        return "(FArc %s)" % f_coq(f[1])
    if k == "reload":
        return "(FReload %s)" % f_coq(f[1])
    raise ValueError(k)


def l_sx(l):
    k = l[0]
    if k == "rec":
        return "(rec %d)" % l[1]
    if k == "glob":
        return "(glob %s)" % f_sx(l[1])
    if k == "filt":
        return "(filt %s %s)" % (l_sx(l[1]), f_sx(l[2]))
    if k == "pair":
        return "(pair %s %s)" % (l_sx(l[1]), l_sx(l[2]))
    if k == "vec":
        return "(vec%s)" % "".join(" " + l_sx(e) for e in l[1])
    if k in ("lnone", "ident"):
        return "(%s)" % k
    if k == "lswap":
        return "(lswap %s %s)" % (l_sx(l[1]), l_sx(l[2]))
    return "(%s %s)" % (k, l_sx(l[1]))


def l_coq(l):
    k = l[0]
    if k == "rec":
        return "(Rec %d)" % l[1]
    if k == "glob":
        return "(Glob %s)" % f_coq(l[1])
    if k == "filt":
        return "(Filtered %s %s)" % (l_coq(l[1]), f_coq(l[2]))
    if k == "pair":
        return "(Pair %s %s)" % (l_coq(l[1]), l_coq(l[2]))
    if k == "vec":
        return "(LVec [%s])" % "; ".join(l_coq(e) for e in l[1])
    if k == "lnone":
        return "LNone"
    if k == "lsome":
        return "(LSome %s)" % l_coq(l[1])
    if k == "lbox":
        return "(LBox %s)" % l_coq(l[1])
    if k == "lreload":
        return "(LReload %s)" % l_coq(l[1])
    if k == "ident":
        return "Identity"
    raise ValueError(k)


def l_phase(l, ph):
    """the tree a stack holds in observation phase ph: ("lswap", v0, v1) is a reload::Subscriber holding v0 (phase 0, while
    the stack is built and first observed) and v1 after Handle::reload (phase 1)"""
    k = l[0]
    if k == "lswap":
        return ("lreload", l_phase(l[1 + ph], ph))
    if k == "vec":
        return ("vec", [l_phase(e, ph) for e in l[1]])
    if k == "pair":
        return ("pair", l_phase(l[1], ph), l_phase(l[2], ph))
    if k == "filt":
        return ("filt", l_phase(l[1], ph), l[2])
    if k in ("lsome", "lbox", "lreload"):
        return (k, l_phase(l[1], ph))
    return l


def has_swap(l):
    return l[0] == "lswap" or any(has_swap(e) for e in l_children(l))


def s_sx(layers):
    return "(stack%s)" % "".join(" " + l_sx(l) for l in layers)


def s_coq(layers):
    t = "Registry"
    for l in layers:
        t = "(With %s %s)" % (l_coq(l), t)
    return t


def ctx_sx(spans):
    return "(%s)" % " ".join("(%d %d %d)" % s for s in spans)


def ctx_coq(spans):
    return "[%s]" % "; ".join("(%d, [%d; %d])" % s for s in spans)


# ------------------------------------------------------------------------------------------------
# generator

class Gen:
    def __init__(self, rng, nctx_max=3):
        self.r = rng
        self.env_id = 0
        self.rec_id = 0

    def lvl(self):
        return self.r.choice([0, 1, 2, 3, 3, 4, 4, 5])

    def table(self, nctx, hint):
        """A closure table over nctx*80 entries; honest w.r.t. the hint (entries above it are false)."""
        r = self.r
        style = r.randint(0, 4)
        bits = 0
        thr = r.randint(1, 5)
        tg = r.randint(0, 3)
        for c in range(nctx):
            for m in POOL:
                if style == 0:
                    b = m["lvl"] <= thr
                elif style == 1:
                    b = (m["i"] // 4) % 4 == tg or m["lvl"] <= 2
                elif style == 2:
                    b = r.random() < 0.5
                elif style == 3:
                    b = (m["lvl"] <= thr) != (c == 1 and m["span"])
                else:
                    b = (c % 2 == 0) or m["lvl"] <= thr
                if hint is not None and m["lvl"] > hint:
                    b = False
                if b:
                    bits |= 1 << (c * NPOOL + m["i"])
        return bits

    def hint(self):
        return None if self.r.random() < 0.45 else self.r.choice([1, 2, 3, 3, 4, 5, 0])

    def directive(self):
        r = self.r
        t = r.choice([None, None, "a", "a", "ab", "a::b", "b", "a::", "c"])
        kind = r.random()
        sp, fields = None, []
        if kind < 0.4:
            pass  # static target/level
        elif kind < 0.5:
            fields = [(r.choice(["x", "y", "z"]), None)]  # field name only: dynamic AND static
        elif kind < 0.75:
            sp = r.choice(["sp", "sq", "sq", "other"])
        elif kind < 0.9:
            sp = r.choice(["sq", "sq", "sp", None])
            fields = [(r.choice(["x", "y"]), r.choice([None, 1, 1, 2, 3]))]
        else:
            sp = None
            fields = [(r.choice(["x", "y"]), r.choice([1, 2]))]
        lvl = self.lvl()
        if t is not None and sp is None and not fields and r.random() < 0.15:
            lvl = None  # bare target: TRACE
        return (t, sp, fields, lvl)

    def leaf(self, nctx, allow_bad=False):
        r = self.r
        k = r.choice(["lvl", "lvl", "tgt", "tgt", "env", "env", "env", "fn", "fn", "dyn", "dyn"])
        if k == "lvl":
            return ("lvl", self.lvl())
        if k == "tgt":
            n = r.choice([0, 1, 1, 2, 2, 3, 4])
            ds = []
            for _ in range(n):
                t = r.choice([None, "a", "a", "ab", "a::b", "b", "a::", "c", ""])
                ds.append((t, self.lvl()))
            if ds and r.random() < 0.25:  # replace-on-duplicate with a lower level: max_level is recomputed over the set
                t, l = r.choice(ds)
                ds.append((t, max(0, l - r.randint(1, 3))))
            if r.random() < 0.4:
                # parsed from a string (Targets::from_str), with field-name directives: `a=warn,a[{x}]=trace` - the
                # field directive is more specific, applies to events that carry the fields (and to every span) and is
                # usually more permissive than the field-less directive of the same target
                ds3 = [(t, [], l) for t, l in ds]
                for _ in range(r.choice([1, 1, 2])):
                    base = r.choice(ds3) if ds3 and r.random() < 0.7 else (r.choice(["a", "ab", "a::b", "b", ""]), [], self.lvl())
                    t = base[0] if base[0] is not None else r.choice(["", "a", "b"])
                    fl = [r.choice(["x", "x", "y", "y", "z"])]  # one name: Targets::from_str splits the string at EVERY comma (C11)
                    lv = min(5, base[2] + r.randint(1, 3)) if r.random() < 0.75 else self.lvl()
                    ds3.insert(r.randrange(len(ds3) + 1), (t, fl, lv))
                return ("tgt", ds3, "str")
            if ds and r.random() < 0.15:  # (the empty string is not the empty set: "" parses as the level ERROR, F13)
                return ("tgt", ds, "str")
            return ("tgt", ds)
        if k == "env":
            self.env_id += 1
            n = r.choice([0, 1, 1, 2, 2, 3])
            ds = [self.directive() for _ in range(n)]
            if ds and r.random() < 0.2:
                t, sp, fl, l = r.choice(ds)
                ds.append((t, sp, fl, max(0, (5 if l is None else l) - r.randint(1, 3))))
            return ("env", self.env_id, ds)
        if k == "fn":
            h = self.hint()
            return ("fn", self.table(1, h), h)
        h = self.hint()
        tab = self.table(nctx, h)
        cs = None
        if r.random() < 0.4:
            al = nv = 0
            for m in POOL:
                vals = [(tab >> (c * NPOOL + m["i"])) & 1 for c in range(nctx)]
                if all(vals) and r.random() < 0.7:
                    al |= 1 << m["i"]
                elif not any(vals) and (r.random() < 0.7 or (h is not None and m["lvl"] > h)):
                    nv |= 1 << m["i"]
            if allow_bad and h is None and r.random() < 0.5:
                # an inconsistent callsite filter (violates the closure contract LeafOK): flip some entries
                for _ in range(3):
                    i = r.randrange(NPOOL)
                    al ^= 1 << i
                    nv &= ~(1 << i)
            cs = (al, nv)
        return ("dyn", tab, h, cs)

    def filt(self, depth, nctx, allow_bad=False):
        r = self.r
        if depth <= 0 or r.random() < 0.25:
            return self.leaf(nctx, allow_bad)
        k = r.choice(["and", "and", "or", "or", "not", "not", "some", "none", "box", "arc", "reload"])
        if k in ("and", "or"):
            return (k, self.filt(depth - 1, nctx, allow_bad), self.filt(depth - 1, nctx, allow_bad))
        if k == "none":
            return ("none",)
        return (k, self.filt(depth - 1, nctx, allow_bad))

    def layer(self, depth, nctx, malformed=False):
        r = self.r
        if depth <= 0 or r.random() < 0.3:
            k = r.choice(["rec", "rec", "rec", "glob", "glob", "lnone", "ident"])
            if k == "rec":
                self.rec_id += 1
                return ("rec", self.rec_id)
            if k == "glob":
                return ("glob", self.leaf(nctx, malformed))
            return (k,)
        k = r.choice(["filt", "filt", "filt", "filt", "pair", "pair", "lsome", "vec", "vec", "lbox", "lreload"])
        if k == "filt":
            return ("filt", self.layer(depth - 1, nctx, malformed), self.filt(r.choice([0, 1, 1, 2]), nctx, malformed))
        if k == "pair":
            return ("pair", self.layer(depth - 1, nctx, malformed), self.layer(depth - 1, nctx, malformed))
        if k == "vec":
            n = r.choice([1, 2, 2, 3]) if not malformed else r.choice([0, 0, 1, 2])
            return ("vec", [self.layer(depth - 1, nctx, malformed) for _ in range(n)])
        if k == "lreload":
            inner = self.layer(depth - 1, nctx, malformed)
            if not malformed and has_filtered(inner):
                return ("lbox", inner)  # reload(Filtered) is the documented restriction: only in the malformed stream
            return ("lreload", inner)
        return (k, self.layer(depth - 1, nctx, malformed))

    def spans(self):
        r = self.r
        n = r.choice([0, 1, 2, 2])
        return [(r.choice(SPAN_IDX), r.choice([1, 1, 2]), r.choice([2, 2, 3])) for _ in range(n)]

    def filter_case(self, depth, allow_bad=False):
        sp = self.spans()
        return {"kind": "F", "spans": sp, "expr": self.filt(depth, len(sp) + 1, allow_bad)}

    def marker_stack(self, nctx):
        """hint-merge / marker shapes: a tree that combines a None-like half with a hinted half (per-layer filter or
        global filter), in every order and wrapper, stacked with layers that have no hint (plain, Identity, a
        per-layer filter without hint) or another hint - the cases in which pick_level_hint's none / PSF branches
        decide whether a one-sided hint is published"""
        r = self.r

        def rec():
            self.rec_id += 1
            return ("rec", self.rec_id)

        def noneish():
            k = r.choice(["lnone", "lnone", "vec0", "some", "box", "reload", "pair"])
            return {"lnone": ("lnone",), "vec0": ("vec", []), "some": ("lsome", ("lnone",)), "box": ("lbox", ("lnone",)),
                    "reload": ("lreload", ("lnone",)), "pair": ("pair", ("lnone",), ("vec", []))}[k]

        def hinted():
            k = r.choice(["filt", "filt", "filt", "glob", "filtnohint"])
            if k == "filt":
                return ("filt", rec(), r.choice([("lvl", self.lvl()), ("tgt", [(r.choice([None, "a", "b"]), self.lvl())]),
                                                 ("some", ("lvl", self.lvl())), ("and", ("lvl", self.lvl()), ("lvl", self.lvl()))]))
            if k == "glob":
                return ("glob", ("lvl", self.lvl()))
            return ("filt", rec(), ("not", ("lvl", self.lvl())))

        def unhinted():
            k = r.choice(["rec", "rec", "ident", "filtnohint", "some", "pairrec"])
            if k == "rec":
                return rec()
            if k == "ident":
                return ("ident",)
            if k == "filtnohint":
                return ("filt", rec(), r.choice([("not", ("lvl", self.lvl())), ("none",), ("fn", self.table(1, None), None)]))
            if k == "some":
                return ("lsome", rec())
            return ("pair", rec(), rec())

        def tree():
            parts = [noneish(), hinted()]
            if r.random() < 0.3:
                parts.append(r.choice([noneish, hinted, unhinted])())
            r.shuffle(parts)
            k = r.choice(["pair", "pair", "pair", "vec"])
            if k == "vec":
                t = ("vec", parts)
            else:
                t = parts[0]
                for q in parts[1:]:
                    t = ("pair", t, q) if r.random() < 0.5 else ("pair", q, t)
            w = r.choice([None, None, None, "lbox", "lsome"])
            return (w, t) if w else t

        layers = [tree()]
        for _ in range(r.choice([1, 1, 2])):
            layers.append(r.choice([unhinted, unhinted, unhinted, hinted, noneish])())
        r.shuffle(layers)
        return layers[:4]

    def swap_stack(self, nctx):
        """a layer of a live stack is reloaded: reload::Subscriber<Box<dyn Subscribe>> holds V0 while the stack is built
        (V0 may be a Filtered: its FilterId is registered then), summaries and deliveries are observed, then
        Handle::reload(V1) and everything is observed again.  V1 never contains a Filtered (a Filtered that is reloaded in
        never gets on_subscribe: the documented restriction of reload); after the swap the stack must be sound."""
        r = self.r

        def rec():
            self.rec_id += 1
            return ("rec", self.rec_id)

        def filt():
            return ("filt", rec(), r.choice([("lvl", self.lvl()), ("lvl", r.choice([0, 1, 2])), ("tgt", [("b", self.lvl())]),
                                             ("not", ("lvl", self.lvl()))]))

        def v0():
            k = r.choice(["filt", "filt", "filt", "rec", "lnone", "glob", "vec0", "pairf", "vecf"])
            return {"filt": filt, "rec": rec, "lnone": lambda: ("lnone",), "glob": lambda: ("glob", ("lvl", self.lvl())),
                    "vec0": lambda: ("vec", []), "pairf": lambda: ("pair", filt(), filt()),
                    "vecf": lambda: ("vec", [filt(), filt()])}[k]()

        def v1():
            k = r.choice(["rec", "rec", "rec", "lnone", "glob", "ident", "vec0", "pairg", "some"])
            return {"rec": rec, "lnone": lambda: ("lnone",), "glob": lambda: ("glob", ("lvl", self.lvl())),
                    "ident": lambda: ("ident",), "vec0": lambda: ("vec", []),
                    "pairg": lambda: ("pair", rec(), ("glob", ("lvl", self.lvl()))), "some": lambda: ("lsome", rec())}[k]()

        sw = ("lswap", v0(), v1())
        if r.random() < 0.25:
            sw = r.choice([("lbox", sw), ("lsome", sw), ("pair", sw, rec()), ("pair", filt(), sw), ("vec", [sw, filt()])])
        layers = [sw]
        for _ in range(r.choice([1, 1, 2, 2, 3])):
            layers.append(r.choice([filt, filt, filt, rec, lambda: ("glob", ("lvl", self.lvl())), lambda: ("lnone",)])())
        r.shuffle(layers)
        return layers[:4]

    def stack_case(self, malformed=False):
        r = self.r
        sp = self.spans()
        self.rec_id = 0
        if not malformed and r.random() < 0.12:
            return {"kind": "S", "spans": sp, "expr": self.marker_stack(len(sp) + 1)}
        if not malformed and r.random() < 0.07:
            return {"kind": "S", "spans": sp, "expr": self.swap_stack(len(sp) + 1)}
        n = r.choice([1, 1, 2, 2, 2, 3, 3, 4])
        layers = [self.layer(r.choice([0, 1, 1, 2, 2, 3]), len(sp) + 1, malformed) for _ in range(n)]
        return {"kind": "S", "spans": sp, "expr": layers}


LAYER_KINDS = ("rec", "glob", "filt", "pair", "lsome", "lnone", "vec", "lbox", "lreload", "lswap", "ident")
FILTER_KINDS = ("lvl", "tgt", "env", "fn", "dyn", "and", "or", "not", "some", "none", "box", "arc", "reload")


def l_children(l):
    k = l[0]
    if k == "vec":
        return list(l[1])
    if k in ("pair", "lswap"):
        return [l[1], l[2]]
    if k in ("filt", "lsome", "lbox", "lreload"):
        return [l[1]]
    return []


def f_children(f):
    k = f[0]
    if k in ("and", "or"):
        return [f[1], f[2]]
    if k in ("not", "some", "box", "arc", "reload"):
        return [f[1]]
    return []


def has_filtered(l):
    return l[0] == "filt" or any(has_filtered(e) for e in l_children(l))


def l_filters(l):
    out = []
    if l[0] == "glob":
        out.append(l[1])
    if l[0] == "filt":
        out.append(l[2])
    for e in l_children(l):
        out += l_filters(e)
    return out


def f_leaves(f):
    if not f_children(f):
        return [f]
    return [x for c in f_children(f) for x in f_leaves(c)]


def case_line(c):
    if c["kind"] == "F":
        return "F %d %s %s" % (c["id"], ctx_sx(c["spans"]), f_sx(c["expr"]))
    return "S %d %s %s" % (c["id"], ctx_sx(c["spans"]), s_sx(c["expr"]))


def f_depth(f):
    return 1 + max([f_depth(c) for c in f_children(f)], default=0)


def f_kinds(f, acc):
    acc.add(f[0])
    for c in f_children(f):
        f_kinds(c, acc)
    return acc


def l_kinds(l, acc):
    acc.add(l[0])
    for e in l_children(l):
        l_kinds(e, acc)
    return acc


def l_depth(l):
    return 1 + max([l_depth(e) for e in l_children(l)], default=0)


def leaf_ok(f, nctx):
    """the user-closure contract LeafOK, decided over the finite pool x the case's contexts"""
    for lf in f_leaves(f):
        if lf[0] == "fn":
            _, bits, h = lf
            if h is not None and any((bits >> m["i"]) & 1 and m["lvl"] > h for m in POOL):
                return False
        if lf[0] == "dyn":
            _, bits, h, cs = lf
            for m in POOL:
                vals = [(bits >> (c * NPOOL + m["i"])) & 1 for c in range(nctx)]
                if h is not None and m["lvl"] > h and any(vals):
                    return False
                if cs is not None:
                    if (cs[0] >> m["i"]) & 1 and not all(vals):
                        return False
                    if not (cs[0] >> m["i"]) & 1 and (cs[1] >> m["i"]) & 1 and any(vals):
                        return False
    return True


def tup(x):
    """JSON round trip of a case (corpus files): lists that are expression nodes become tuples again"""
    if isinstance(x, list):
        y = [tup(e) for e in x]
        if y and isinstance(y[0], str) and y[0] in LAYER_KINDS + FILTER_KINDS:
            return tuple(y)
        return y
    return x


# ------------------------------------------------------------------------------------------------
# oracle on the implementation's observations

def oracle_filter(c, o):
    """the three implications, on the real filter's answers.  Returns list of (kind, pool index, ctx)."""
    bad = []
    h = o["hint"]
    for k, acc in enumerate(o["acc"]):
        for m in POOL:
            i = m["i"]
            a = acc[i]
            if o["int"][i] == 0 and a:
                bad.append(("never", i, k))
            if o["int"][i] == 2 and not a:
                bad.append(("always", i, k))
            if h >= 0 and m["lvl"] > h and a:
                bad.append(("hint", i, k))
    return bad


def oracle_stack(c, o):
    bad = []
    h = o["hint"]
    for k, cx in enumerate(o["ctx"]):
        for m in POOL:
            i = m["i"]
            got = cx["recv"][i] if cx["en"][i] else []
            if o["int"][i] == 0 and got:
                bad.append(("never", i, k))
            if o["int"][i] == 2 and got != cx["direct"][i]:
                bad.append(("always", i, k))
            if h >= 0 and m["lvl"] > h and got:
                bad.append(("hint", i, k))
    return bad


def run_impl(ctx, binpath, cases):
    text = "\n".join(case_line(c) for c in cases) + "\n"
    path = os.path.join(ctx.work, "cases.txt")
    with open(path, "w") as f:
        f.write(text)
    rc, out = run_bin(binpath, [path], timeout=1200)
    obs = {}
    for l in out.splitlines():
        if l.startswith("{"):
            o = json.loads(l)
            obs[o["id"]] = o
    return rc, obs, out


REQ = ("From Coq Require Import List NArith String.\nImport ListNotations.\nFrom TV Require Import Summary.Model.\n"
       "Local Open Scope N_scope.")


def model_eval(ctx, cases, chunk=12):
    terms = []

    def group(c):
        return "W" if c["kind"] == "S" and any(has_swap(l) for l in c["expr"]) else c["kind"]

    def swap_coq(layers):
        return "%s %s" % (s_coq([l_phase(l, 0) for l in layers]), s_coq([l_phase(l, 1) for l in layers]))
    for kind, fn, pr in (("F", "eval_filter", f_coq), ("S", "eval_stack", s_coq), ("W", "eval_swap", swap_coq)):
        cs = [c for c in cases if group(c) == kind]
        for i in range(0, len(cs), chunk):
            part = cs[i:i + chunk]
            terms.append(((kind, i), "[%s]" % "; ".join("%s %s %s" % (fn, pr(c["expr"]), ctx_coq(c["spans"])) for c in part)))
    res = coq_eval(ctx, REQ, terms, tag="cases")
    out = {}
    for kind in ("F", "S", "W"):
        cs = [c for c in cases if group(c) == kind]
        for i in range(0, len(cs), chunk):
            for c, r in zip(cs[i:i + chunk], res[(kind, i)]):
                out[c["id"]] = r
    return out


def dec_h(x):
    return -1 if x == 99 else x


def compare_filter(c, o, mo):
    """-> (list of disagreements (implementation vs model), set of disagreeing data keys)"""
    d = []
    keys = set()
    h, ints, accs, _ = mo
    if dec_h(h) != o["hint"]:
        d.append({"what": "max_level_hint", "impl": o["hint"], "model": dec_h(h)})
        keys.add(("hint",))
    for i in range(NPOOL):
        if ints[i] != o["int"][i]:
            if ("int",) not in {k[:1] for k in keys}:
                d.append({"what": "callsite_enabled", "meta": i, "impl": o["int"][i], "model": ints[i]})
            keys.add(("int", i))
    for k in range(len(o["acc"])):
        first = True
        for i in range(NPOOL):
            if accs[k][i] != o["acc"][k][i]:
                if first:
                    d.append({"what": "enabled", "meta": i, "ctx": k, "impl": o["acc"][k][i], "model": accs[k][i]})
                    first = False
                keys.add(("dyn", k, i))
    return d, keys


def compare_stack(c, o, mo):
    d = []
    keys = set()
    h, ints, ctxs, allrec, _ = mo
    if dec_h(h) != o["hint"]:
        d.append({"what": "max_level_hint", "impl": o["hint"], "model": dec_h(h)})
        keys.add(("hint",))
    for i in range(NPOOL):
        if ints[i] != o["int"][i]:
            if ("int",) not in {k[:1] for k in keys}:
                d.append({"what": "register_callsite", "meta": i, "impl": o["int"][i], "model": ints[i]})
            keys.add(("int", i))
    for k, cx in enumerate(o["ctx"]):
        men, mrecv = ctxs[k]
        first = True
        for i in range(NPOOL):
            bad = None
            if men[i] != cx["en"][i]:
                bad = {"what": "enabled", "meta": i, "ctx": k, "impl": cx["en"][i], "model": men[i]}
            elif cx["en"][i] and mrecv[i] != cx["recv"][i]:
                bad = {"what": "deliveries", "meta": i, "ctx": k, "impl": cx["recv"][i], "model": mrecv[i]}
            elif cx["direct"][i] != allrec:
                bad = {"what": "deliveries-without-enabled", "meta": i, "ctx": k, "impl": cx["direct"][i], "model": allrec}
            if bad:
                if first:
                    d.append(bad)
                    first = False
                keys.add(("dyn", k, i))
    return d, keys


def model_agrees_on(keys, kind, i, k):
    """may a violation of this kind at metadata i / context k be explained with the model's class predicates?
    Only if the model agrees with the implementation on the data the violation is about."""
    if ("dyn", k, i) in keys:
        return False
    if kind == "hint":
        return ("hint",) not in keys
    return ("int", i) not in keys


# which known-finding classes can explain which kind of violation
KIND_CLASSES = {"never": ["F12"], "hint": ["F83"], "always": ["F82", "F12"]}


def classes_of(c, mo, i):
    """the finding classes (the predicates the theorems exclude, evaluated by the model) a case is in, for metadata i"""
    if c["kind"] == "F":
        return {"F12"} if mo[3][i] else set()
    f12, f82, flags = mo[4]
    s = set()
    if f12[i]:
        s.add("F12")
    if f82[i]:
        s.add("F82")
    if flags[0]:
        s.add("F83")
    return s


def gen_cases(ctx):
    g = Gen(ctx.rng)
    th = ctx.thorough()
    cases = []
    nf, ns, nm = (260, 520, 120) if not th else (1500, 3600, 600)
    for _ in range(nf):
        c = g.filter_case(ctx.rng.choice([1, 2, 2, 3, 3, 4]))
        c["stream"] = "valid"
        cases.append(c)
    for _ in range(ns):
        c = g.stack_case()
        c["stream"] = "valid"
        cases.append(c)
    # the malformed stream: inconsistent user closures, empty Vecs, reload around Filtered
    for _ in range(nm // 3):
        c = g.filter_case(ctx.rng.choice([1, 2, 3]), allow_bad=True)
        c["stream"] = "malformed"
        cases.append(c)
    for _ in range(nm - nm // 3):
        c = g.stack_case(malformed=True)
        c["stream"] = "malformed"
        cases.append(c)
    return cases


def load_corpus():
    d = os.path.join(vlib.VERIF, "corpus", "C08")
    out = []
    if os.path.isdir(d):
        for f in sorted(os.listdir(d)):
            if f.endswith(".json"):
                for c in json.load(open(os.path.join(d, f))):
                    c = {"kind": c["kind"], "spans": [tuple(s) for s in c["spans"]], "expr": tup(c["expr"]),
                         "stream": "corpus", "name": c.get("name", f)}
                    out.append(c)
    return out


def run(ctx):
    rep = Report(ctx)
    rep.rule = ("seeded random filter expressions (depth <= 4 over level / Targets / EnvFilter with static, span-scoped and "
                "value directives / FilterFn / DynFilterFn with and without hint and callsite filter / and / or / not / Option / "
                "Box / Arc / reload) and stacks (1-4 layers of rec / global filter / Filtered / and_then pair / Option / Vec / "
                "Box / reload / Identity trees, depth <= 4), each evaluated on EVERY metadata of an 80-entry pool (5 levels x 4 "
                "targets x span/event x 2 field sets) in up to 3 span contexts. non-trivial = filter expression of depth >= 2 "
                "with >= 2 distinct leaf kinds, or a stack with both a global and a per-layer filter; distinct = distinct case text")
    rep.trusted_base = [
        "Coq 8.16.1 kernel + vm_compute (no native_compute)",
        "harness/summary h_summary.rs (builds the real filters/layers dynamically as Box<dyn Filter>/Box<dyn Subscribe>, so every "
        "node carries one extra transparent Box; drives the real Collect/Filter API)",
        "driver/props/c08.py: case generator, renderers (s-expression for the harness, Gallina for the model), EnvFilter "
        "directive text as parsed by the real parser, Python oracle",
        "the abstraction of the per-layer filter bitmap: a Filtered forwards iff its own filter accepted in the same pass (C07)"]
    rep.assumptions = [
        "Built: at most 64 per-layer filters (the code asserts it; Registry::enabled = FilterMap::any_enabled never vetoes since d650aab)",
        "user closures are pure functions of (metadata, context number); LeafOK = their hints / callsite filters are honest",
        "EnvFilter value matchers restricted to u64 literals; directive text -> structure is the real parser's job (C11)",
        "every callsite is registered (register_callsite) before enabled() is asked about it, as tracing-core guarantees",
        "NoReloadedFiltered: no Filtered inside reload::Subscriber (documented restriction of reload)",
        "per-layer filter state is clean at the start of each enabled() pass (no F3 history; C07)"]
    # ---- translator: the pure summary-merging functions and the shapes read as flags, from the source of ctx.repo
    text, unrec = shapes_tr.main(ctx.repo, None)
    gen_if_changed(os.path.join(vlib.COQ, "gen", "Gen_summary.v"), text)
    rep.tie("translator:Gen_summary", not unrec, "; ".join(unrec[:4]), unrec[:1] or None)
    # ---- leg A
    rep.proof = coq_prove(ctx, "C08", ["theories/Properties/C08.vo"])
    # ---- implementation
    builds = [False] + ([True] if ctx.thorough() else [])
    cases = load_corpus() + gen_cases(ctx)
    for n, c in enumerate(cases):
        c["id"] = n
    for c in cases:
        if c["kind"] == "F":
            ks = f_kinds(c["expr"], set())
            for k in ks:
                rep.count("filter-node:" + k)
            rep.count("filter-depth:%d" % f_depth(c["expr"]))
        else:
            ks = set()
            for l in c["expr"]:
                l_kinds(l, ks)
            for k in ks:
                rep.count("layer-node:" + k)
            rep.count("stack-layers:%d" % len(c["expr"]))
            rep.count("stack-depth:%d" % max(l_depth(l) for l in c["expr"]))
        rep.count("stream:" + c["stream"])
        rep.count("contexts:%d" % (len(c["spans"]) + 1))
    impl_runs = []
    for rel in builds:
        ok, paths, log = cargo_build(ctx, "summary", ["h_summary"], release=rel)
        if not ok:
            rep.tie("build:h_summary" + ("-release" if rel else ""), False, vlib.last_error(log))
            return rep
        rc, obs, out = run_impl(ctx, paths["h_summary"], cases)
        if rc != 0 or len(obs) != len(cases):
            rep.tie("run:h_summary", False, "rc=%d, %d of %d observations; %s" % (rc, len(obs), len(cases), vlib.last_error(out)[-300:]))
            return rep
        impl_runs.append(("release" if rel else "debug", obs))
    ctx.log("implementation runs done (%d cases)" % len(cases))
    # ---- model
    model = None
    try:
        model = model_eval(ctx, cases)
        ctx.log("model evaluation done")
    except Exception as ex:
        rep.tie("model-eval", False, str(ex)[:300])
    # ---- correspondence + oracle
    for prof, obs in impl_runs:
        disagree = []
        n_data = 0
        for c in cases:
            o_all = obs[c["id"]]
            line = case_line(c)
            nctx = len(c["spans"]) + 1
            if o_all["k"] == "panic":
                rep.violation("the harness panicked on a case: %s" % o_all["msg"][:160], {"case": line, "profile": prof})
                continue
            mo_all = model[c["id"]] if model is not None else None
            # views: one per observation phase.  A stack with an `lswap` layer is observed twice: while the
            # reload::Subscriber holds V0 (`pre`) and after Handle::reload(V1) on the live stack (`post`)
            if c["kind"] == "S" and "pre" in o_all:
                views = [("before the reload", o_all["pre"], mo_all[0] if mo_all is not None else None, [l_phase(l, 0) for l in c["expr"]]),
                         ("after the reload", o_all, mo_all[1] if mo_all is not None else None, [l_phase(l, 1) for l in c["expr"]])]
                rep.count("swap-cases")
            else:
                views = [(None, o_all, mo_all, c["expr"])]
            for phase, o, mo, expr in views:
                if c["kind"] == "F":
                    filters = [expr]
                    bad = oracle_filter(c, o)
                    n_data += NPOOL * (1 + nctx) + 1
                    if f_depth(expr) >= 2 and len(f_kinds(expr, set()) & {"lvl", "tgt", "env", "fn", "dyn"}) >= 2:
                        rep.nontrivial.add(line)
                else:
                    filters = [f for l in expr for f in l_filters(l)]
                    bad = oracle_stack(c, o)
                    n_data += NPOOL * (1 + 3 * nctx) + 1
                    ks = set()
                    for l in expr:
                        l_kinds(l, ks)
                    if "glob" in ks and "filt" in ks:
                        rep.nontrivial.add(line)
                rep.evaluations += NPOOL * nctx
                dis, dkeys = [], set()
                if mo is not None:
                    dis, dkeys = compare_filter(c, o, mo) if c["kind"] == "F" else compare_stack(c, o, mo)
                    if dis:
                        disagree.append({"case": line, "phase": phase, "first": dis[0], "n": len(dis)})
                    if c["kind"] == "S" and not mo[4][2][2]:
                        disagree.append({"case": line, "phase": phase, "first": {"what": "model: interest pass leaves FilterState::interest set"}, "n": 1})
                if not bad:
                    continue
                # outside the property's domain: dishonest user closures (LeafOK), reload around a Filtered (documented)
                if not all(leaf_ok(f, nctx) for f in filters):
                    rep.count("excluded:LeafOK-violated")
                    continue
                reported = set()
                for kind, i, k in bad:
                    if kind == "hint" and mo is not None and c["kind"] == "S" and mo[4][2][1]:
                        if (kind, "reload") not in reported:
                            rep.count("excluded:reload-around-Filtered(hint)")
                            reported.add((kind, "reload"))
                        continue
                    # a violation is attributed to a known finding only if the model agrees with the implementation on
                    # the data it is about and the failing (case, metadata) lies in that finding's class
                    fid = None
                    if mo is not None and model_agrees_on(dkeys, kind, i, k):
                        cl = classes_of(c, mo, i)
                        for cand in KIND_CLASSES[kind]:
                            if cand in cl:
                                fid = cand
                                break
                    if (kind, fid) in reported:
                        continue
                    reported.add((kind, fid))
                    rep.count("oracle:%s:%s" % (kind, fid or "UNEXPLAINED"))
                    m = POOL[i]
                    what = {"never": "summary says `never` for a callsite that is accepted when asked dynamically",
                            "always": "summary says `always` for a callsite that can be rejected when asked dynamically",
                            "hint": "max-level hint below a level that is accepted when asked dynamically"}[kind]
                    payload = {"case": line, "metadata": m, "context": k, "span_context": c["spans"][:k], "profile": prof,
                               "published": {"interest": o["int"][i], "hint": o["hint"]},
                               "observed": (o["acc"][k][i] if c["kind"] == "F" else
                                            {"enabled": o["ctx"][k]["en"][i], "received_by": o["ctx"][k]["recv"][i],
                                             "received_without_enabled": o["ctx"][k]["direct"][i]}),
                               "replay": "echo '%s' | .cache/target-repo/debug/h_summary" % line}
                    if phase:
                        payload["phase"] = phase
                    rep.violation("%s [%s %s%s]" % (what, "filter" if c["kind"] == "F" else "stack", fid or "no known class",
                                                   (", " + phase) if phase else ""), payload, finding=fid)
        if model is not None:
            rep.tie("correspondence:" + prof, not disagree, "%d of %d cases disagree" % (len(disagree), len(cases)), disagree[:1] or None)
            rep.traces_validated += n_data
    rep.samples = [{"case": case_line(c)[:300]} for c in cases[:3]] + [{"cases": len(cases)}]
    return rep
