"""C13 — fmt writes one complete record per event, to exactly the selected writers.

Leg A: theorems of coq/theories/Properties/C13.v over Fmt/{BufferModel,WriterModel,RecordModel}.v:
       one factory call + one whole-record write per event for every history (hypothesis NoAbortedFormat
       while the tree clears the buffer only after the write: known finding F9, refuted by witness),
       non-interleaving for every thread count and schedule, route = denote for every writer
       expression, token content of Full/Compact records.
Leg B: translators/fmtbuf.py (every run: where fmt_subscriber.rs::on_event clears its thread-local
       buffer -> TVGen.Gen_fmtbuf.clear_policy, every other shape of the protocol checked, fails closed)
       + correspondence: the real fmt layer / MakeWriter combinators (harness/fmt/h_fmt.rs, recording
       sinks) against the model on the same cases — per thread the exact sequence of sink-level calls;
       record bytes byte-exact (hash) for Full/Compact, chunk structure for Pretty/JSON.
Leg C: oracle, in Python, on the implementation's call log only: per routed record one
       make_writer_for(meta of that event) + one write on the writer it returned, to exactly the sinks
       `denote` (computed here, independently of Coq) selects; each write is one whole record: starts
       with the record's first token, names level / spans root->leaf with fields / event fields in
       order, exactly one trailing newline (single line for full/compact/json), carries its own
       sequence marker and nobody else's.
Sink faults (every leg): recording writer instances answer their write/flush calls from a scripted fault plan
       (Err, Interrupted, Ok(0), partial accepts, panic) -- every subset of a record's sinks failing.  The model
       (WriterModel.tee_apply / sink_write_all, BufferModel's unw input) says which sinks are attempted and with
       which bytes; the oracle demands that EVERY denoted sink is offered the whole record whichever of the
       others fail (only a panicking sink cuts the walk short), that a sink accepting a part is re-offered exactly
       the rest, and that the record after a failed write is whole and unprefixed."""
import copy
import json
import os
import re
import sys

import vlib
from vlib import Report, coq_prove, cargo_build, run_bin, coq_eval, gen_if_changed

sys.path.insert(0, os.path.join(vlib.VERIF, "translators"))
import fmtbuf as fmtbuf_tr  # noqa: E402

FULL_LV = {1: "ERROR", 2: " WARN", 3: " INFO", 4: "DEBUG", 5: "TRACE"}
COMPACT_LV = {1: "X", 2: "!", 3: "i", 4: ":", 5: "."}
JSON_LV = {1: "ERROR", 2: "WARN", 3: "INFO", 4: "DEBUG", 5: "TRACE"}
TARGETS = ["app", "app::db", "http::access_log", "net", "a", "Ünï"]
SPAN_NAMES = ["outer", "inner", "req", "db_query", "s"]
FIELD_NAMES = ["a", "b", "k", "user", "r#type", "x.y", "n_items", "ok"]
FLOATS = [0.5, 1.5, -2.25, 3.0, 100.125]
STRS = ["x", "hello world", "a b", "q\"uote", "back\\slash", "tab\there", "line1\nline2", "brace{}:", "k=v", "é→日本", "", "  "]
RAWS = ["Raw", "Some(3)", "[1, 2]", "Foo { x: 1 }", "a=b c=d", "{:}"]
MARK_RE = re.compile(r'seq(?:=|: |":)(\d+)')
ANSI_RE = re.compile(r"\x1b\[[0-9;]*m")
TIMING_RE = re.compile(r"(time\.(?:busy|idle)(?:=|: |\":\"))[0-9.]+(?:ns|µs|ms|s)")
ERRLINE_RE = re.compile(r"^(Unable to format the following event\. Name: .*?; Fields: ).*\n$", re.S)


# ------------------------------------------------------------------------------------------------
# the documented meaning of the writer combinators (independent of Coq)

def eval_pred(p, m):
    k = p["p"]
    if k == "true":
        return True
    if k == "false":
        return False
    if k == "target_eq":
        return m["target"] == p["v"]
    if k == "target_prefix":
        return m["target"].startswith(p["v"])
    if k == "name_eq":
        return m["name"] == p["v"]
    if k == "level_is":
        return m["level"] == p["l"]
    if k == "is_span":
        return m["span"]
    if k == "is_event":
        return not m["span"]
    if k == "not":
        return not eval_pred(p["q"], m)
    raise ValueError(k)


def declines(w, m):
    """`returns OptionalWriter::none`: the combinator's own gate rejects (m is None: no metadata)"""
    k = w["k"]
    if k == "max":   # "events whose level is more verbose than `level` will be ignored"
        return m is None or not (m["level"] <= w["l"])
    if k == "min":   # "events whose level is less verbose than `level` will be ignored"
        return m is None or not (m["level"] >= w["l"])
    if k == "filter":
        return m is not None and not eval_pred(w["p"], m)
    return False


def denote(w, m):
    """sinks (with multiplicity, in order) the documentation says a record with metadata m goes to"""
    k = w["k"]
    if k == "sink":
        return [w["i"]]
    if k == "box":
        return denote(w["w"], m)
    if k in ("max", "min", "filter"):
        return [] if declines(w, m) else denote(w["w"], m)
    if k == "tee":       # "writes to both outputs"
        return denote(w["a"], m) + denote(w["b"], m)
    if k == "orelse":    # "calls other's make_writer if self's make_writer returns OptionalWriter::none"
        return denote(w["b"], m) if declines(w["a"], m) else denote(w["a"], m)
    raise ValueError(k)


def sink_kind(case, i):
    k = case.get("sink_kinds") or []
    return k[i] if i < len(k) else "rec"


def logs_make(case, i):
    """does the leaf for sink i call the recording sink's factory (rec: with the metadata; fn: without)?"""
    return sink_kind(case, i) in ("rec", "fn")


def sim_calls(script, method, n):
    """what ONE io::Write method call makes of a recording writer whose script is `script`, given n bytes:
    ([(offset of the offered suffix, response tag)], 'ok'|'err'|'unwind').  write_all = std's default loop."""
    script = list(script or [])
    if method == "flush":
        r = script[0] if script else None
        tag = "ok" if (r is None or isinstance(r, dict)) else r
        return [(None, tag)], {"ok": "ok", "int": "err", "err": "err", "panic": "unwind"}[tag]
    if method in ("write", "write_vectored"):
        r = script[0] if script else None
        if r is None:
            return [(0, "ok")], "ok"
        if isinstance(r, dict):
            k = r["ok"]
            return [(0, "zero" if k == 0 else ("ok" if k >= n else "part"))], "ok"
        return [(0, r)], ("unwind" if r == "panic" else "err")
    calls = []
    off = 0
    i = 0
    if n == 0:
        return calls, "ok"
    while True:
        r = script[i] if i < len(script) else None
        i += 1
        if r is None:
            calls.append((off, "ok"))
            return calls, "ok"
        if r == "int":
            calls.append((off, "int"))
            continue
        if r == "err":
            calls.append((off, "err"))
            return calls, "err"
        if r == "panic":
            calls.append((off, "panic"))
            return calls, "unwind"
        k = r["ok"]
        if k == 0:
            calls.append((off, "zero"))
            return calls, "err"
        if k >= n - off:
            calls.append((off, "ok"))
            return calls, "ok"
        calls.append((off, "part"))
        off += k


RCODE = {"ok": 0, "part": 3, "int": 4, "err": 5, "panic": 6, "zero": 7}
BYTE_FORMATS = ("full", "compact", "pretty")      # record text modelled byte for byte (json: C14's model; opaque chunks here)


def wexp_stats(w, acc=None, depth=0):
    acc = acc if acc is not None else {"depth": 0}
    acc[w["k"]] = acc.get(w["k"], 0) + 1
    if w["k"] == "sink" and w["i"] == 0:
        acc["sink0"] = 1
    acc["depth"] = max(acc["depth"], depth)
    for c in ("w", "a", "b"):
        if c in w:
            wexp_stats(w[c], acc, depth + 1)
    return acc


# ------------------------------------------------------------------------------------------------
# values

def rust_debug_str(s):
    out = ['"']
    for ch in s:
        if ch == '"':
            out.append('\\"')
        elif ch == "\\":
            out.append("\\\\")
        elif ch == "\n":
            out.append("\\n")
        elif ch == "\t":
            out.append("\\t")
        elif ch == "\r":
            out.append("\\r")
        else:
            out.append(ch)
    out.append('"')
    return "".join(out)


def render_value(name, v):
    """text the Default/Pretty visitors write for a normal value (None: the field has no value)"""
    if "i" in v:
        return str(v["i"])
    if "u" in v:
        return str(v["u"])
    if "b" in v:
        return "true" if v["b"] else "false"
    if "s" in v:
        return v["s"] if name == "message" else rust_debug_str(v["s"])
    if "f" in v:
        return repr(float(v["f"]))
    if "d" in v:
        return v["d"]
    return None


def json_value(v):
    for k in ("i", "u", "b", "s", "f", "d"):
        if k in v:
            return v[k]
    return None


def shown_name(n):
    return n[2:] if n.startswith("r#") else n


# ------------------------------------------------------------------------------------------------
# what a thread's program makes reach the layer (independent bookkeeping of spans and scopes)

class Em:
    __slots__ = ("meta", "cs", "scope", "fields", "marker", "kind", "status", "nested", "top", "thread", "op", "uid", "abn_text", "jfields", "explicit", "ctx_scope", "poisoned", "tidx", "time_fail")

    def __init__(self):
        self.nested = []
        self.status = "ok"
        self.marker = None
        self.abn_text = None
        self.explicit = False
        self.ctx_scope = []
        self.poisoned = False
        self.tidx = None
        self.time_fail = None


JSON_TIMER_BAILS = [True]      # Format<Json>::format_event has `timer.format_time(..)?` (read from the source in run())


def timer_fault(case, t, idx):
    """what the configured timer does at the idx-th format_time call of thread t: None = writes the timestamp; a string =
    writes that and returns Err"""
    if not case["opts"].get("timer"):
        return None
    tf = case.get("timer_faults") or []
    return (tf[t] if t < len(tf) else {}).get(str(idx))


def next_tidx(case):
    c = case.setdefault("_tctr", [0])
    c[0] += 1
    return c[0] - 1


def time_text(e):
    return "TIME" if e.time_fail is None else e.time_fail + "<unknown time>"


def cs_meta(cs):
    return {"level": cs["level"], "target": cs["target"], "name": cs["name"], "span": cs["kind"] == "span"}


def build_event(case, t, opi, cs_idx, vals, scope, top, counter, explicit, ctx_scope=None):
    ctx_scope = scope if ctx_scope is None else ctx_scope     # a nested event is always contextual
    cs = case["callsites"][cs_idx]
    e = Em()
    e.meta = cs_meta(cs)
    e.cs = cs_idx
    e.scope = scope
    e.ctx_scope = ctx_scope
    e.poisoned = poisons(case) and any(sp.get("poisoned") for sp in scope)
    e.kind = "event"
    e.top = top
    e.thread = t
    e.op = opi
    e.explicit = explicit
    e.uid = counter[0]
    counter[0] += 1
    e.tidx = next_tidx(case)          # the timer is asked first, once per emission, in START order (outer before nested)
    e.time_fail = timer_fault(case, t, e.tidx)
    e.fields = []      # (name, rendered text) of the fields that get formatted completely
    e.jfields = []     # (name, json value)
    if e.time_fail is not None and case["format"] == "json" and JSON_TIMER_BAILS[0]:
        e.status = "err"               # Format<Json>: `self.timer.format_time(..)?` before anything else (finding F133)
        return e
    for name, v in zip(cs["fields"], vals):
        if "panic" in v or "err" in v:
            is_panic = "panic" in v or case["format"] == "json"
            e.status = "panic" if is_panic else "err"
            e.abn_text = (name, v.get("panic", v.get("err")))
            break
        if "nested" in v:
            n = v["nested"]
            e.nested.append(build_event(case, t, opi, n["cs"], n["vals"], ctx_scope, False, counter, False))
            e.fields.append((name, v.get("text", "")))
            e.jfields.append((name, v.get("text", "")))
            continue
        r = render_value(name, v)
        if r is None:
            continue
        if name == "seq":
            e.marker = r
        e.fields.append((name, r))
        e.jfields.append((name, json_value(v)))
    if e.poisoned:
        e.status = "poisoned"       # format_event unwinds on the first extensions() of the poisoned span: nothing is written
    return e


def lifecycle(case, t, opi, kind, sp, counter):
    e = Em()
    cs = case["callsites"][sp["cs"]]
    e.meta = cs_meta(cs)
    e.cs = sp["cs"]
    e.scope = [snap(x) for x in sp["chain"]] + [snap(sp)]
    e.kind = kind
    e.top = True
    e.thread = t
    e.op = opi
    e.uid = counter[0]
    counter[0] += 1
    e.tidx = next_tidx(case)
    e.time_fail = timer_fault(case, t, e.tidx)
    if e.time_fail is not None and case["format"] == "json" and JSON_TIMER_BAILS[0]:
        e.status = "err"
    e.fields = [("message", kind)]
    if kind == "close" and sp.get("timed", case["opts"].get("timer")):     # the span carries Timings (decided at its creation)
        e.fields += [("time.busy", "T"), ("time.idle", "T")]
    e.jfields = list(e.fields)
    e.explicit = True
    return e


def snap(sp):
    return {"name": sp["name"], "target": sp["target"], "groups": [list(g) for g in sp["groups"]], "poisoned": bool(sp.get("poisoned"))}


def poisons(case):
    """do the span-extension locks of the build this case runs on poison? (std locks; not with the parking_lot feature)"""
    return not case.get("pl")


def record_op(case, sp, op, side, t, opi):
    """bookkeeping of {"op":"record"} on the innermost open span sp: a value whose Debug impl panics unwinds out of
    on_record (under the extensions write guard: the std lock is poisoned, finding F132); on a poisoned span every record
    unwinds.  side collects the (thread, op, "record") entries the harness's catch_unwind must report."""
    cs = case["callsites"][sp["cs"]]
    v = op["v"]
    if op["f"] not in cs["fields"] or "none" in v:
        return
    if sp.get("poisoned") and poisons(case):
        side.append([t, opi, "record"])
        return
    if "panic" in v:
        side.append([t, opi, "record"])
        if poisons(case):
            sp["poisoned"] = True
        elif case["format"] != "json":      # the text formatters append in place: what the impl wrote before panicking stays
            sp["groups"].append([(op["f"], v["panic"])])
        return
    r = render_value(op["f"], v)
    if r is not None:
        sp["groups"].append([(op["f"], r)])


CLOSE_GATED = [False]          # on_close writes the close record only for a span with Timings while fmt_timing is on (read from the source in run())


def thread_emissions(case, t, counter, side=None, follow_gated=False):
    """top-level things reaching on_event on thread t, in program order: Em objects and ('direct', text).
    By the property text: one record for every lifecycle point configured AT THE TIME IT OCCURS ({"op":"reconf"} changes the
    configuration of a reloadable layer).  follow_gated: what the SOURCE's on_close shape does instead (model side of the
    JSON correspondence only, never the oracle)."""
    side = side if side is not None else []
    case["_tctr"] = [0]
    se = set(case["opts"].get("span_events", []))
    out = []
    stack = []
    prog = case["threads"][t]

    def scope_of(parent):
        if parent is None:
            return ([snap(x) for x in stack[-1]["chain"]] + [snap(stack[-1])]) if stack else [], (stack[-1]["chain"] + [stack[-1]]) if stack else []
        if parent < 0 or parent >= len(stack):
            return [], []
        p = stack[parent]
        return [snap(x) for x in p["chain"]] + [snap(p)], p["chain"] + [p]

    def close_top(opi):
        sp = stack.pop()
        # exit is reported while the span is still current; close after
        for k in ("exit", "close"):
            if k in se:
                if k == "close" and follow_gated and case["opts"].get("timer") and not sp["timed"]:
                    continue
                out.append(lifecycle(case, t, opi, k, sp, counter))

    for opi, op in enumerate(prog):
        o = op["op"]
        if o == "reconf":
            se.clear()
            se.update(op["se"])
        elif o == "enter":
            cs = case["callsites"][op["cs"]]
            _, chain = scope_of(op.get("parent"))
            g0 = []
            for name, v in zip(cs["fields"], op["vals"]):
                r = render_value(name, v)
                if r is not None:
                    g0.append((name, r))
            sp = {"cs": op["cs"], "name": cs["name"], "target": cs["target"], "groups": [g0], "chain": chain,
                  "timed": bool(case["opts"].get("timer")) and "close" in se}       # on_new_span: Timings iff fmt_timing && trace_close() NOW
            for k in ("new", "enter"):
                if k in se:
                    out.append(lifecycle(case, t, opi, k, sp, counter))
            stack.append(sp)
        elif o == "exit":
            if stack:
                close_top(opi)
        elif o == "record":
            if stack:
                record_op(case, stack[-1], op, side, t, opi)
        elif o == "race":
            # two threads record one field each on the innermost open span at the same time: BOTH are there afterwards
            if stack:
                sp = stack[-1]
                cs = case["callsites"][sp["cs"]]
                for side in ("a", "b"):
                    if op[side]["f"] in cs["fields"]:
                        sp["groups"].append([(op[side]["f"], op[side]["v"])])
        elif o == "event":
            sc, _ = scope_of(op.get("parent"))
            out.append(build_event(case, t, opi, op["cs"], op["vals"], sc, True, counter, op.get("parent") is not None, scope_of(None)[0]))
        elif o == "direct":
            out.append(("direct", op["text"], op.get("method", "write_all"), opi))
    while stack:
        close_top(len(prog))
    return out


def completion_order(items):
    """flatten: a nested emission completes before the one whose formatting emitted it"""
    res = []

    def rec(e):
        for n in e.nested:
            rec(n)
        res.append(e)
    for it in items:
        if isinstance(it, tuple):
            res.append(it)
        else:
            rec(it)
    return res


# ------------------------------------------------------------------------------------------------
# oracle: is this write exactly one whole record of emission e?

def tokens(case, e):
    """(first token, ordered tokens, unordered tokens) the record of e must show, per documented layout"""
    f = case["format"]
    o = case["opts"]
    lvl = e.meta["level"]
    ordered = []
    unordered = []
    flds = [("%s" % v) if n == "message" else "%s=%s" % (shown_name(n), v) for n, v in e.fields]
    if f in ("full", "compact"):
        if o.get("timer"):
            ordered.append(time_text(e))      # a failing timer: "<unknown time>" in place of the timestamp, the rest intact
        if o.get("level"):
            ordered.append((FULL_LV if f == "full" else COMPACT_LV)[lvl])
        if f == "full":
            for sp in e.scope:
                ordered.append(sp["name"])
                for g in sp["groups"]:
                    for n, v in g:
                        ordered.append(v if n == "message" else "%s=%s" % (shown_name(n), v))
            if o.get("target"):
                ordered.append(e.meta["target"])
            ordered += flds
        else:
            if o.get("target"):
                ordered.append(e.meta["target"])
            ordered += flds
            for sp in e.scope:   # documented: span names are not shown, their fields follow the event's
                for g in sp["groups"]:
                    for n, v in g:
                        ordered.append(v if n == "message" else "%s=%s" % (shown_name(n), v))
    elif f == "pretty":
        if o.get("timer"):
            ordered.append(time_text(e))
        if o.get("level"):
            ordered.append(FULL_LV[lvl])
        if o.get("target"):
            ordered.append(e.meta["target"])
        ordered += [("%s" % v) if n == "message" else "%s: %s" % (shown_name(n), v) for n, v in e.fields]
        for sp in e.scope:       # multi-line by design; spans are listed leaf first: containment only
            unordered.append("in " + (sp["target"] + "::" if o.get("target") else "") + sp["name"])
            for g in sp["groups"]:
                for n, v in g:
                    unordered.append(v if n == "message" else "%s: %s" % (shown_name(n), v))
    return ordered, unordered


def first_token(case, e):
    f = case["format"]
    if f == "json":
        return '{"'
    if f == "pretty":
        return "  "
    ordered, _ = tokens(case, e)
    o = case["opts"]
    if o.get("timer") or o.get("level"):
        return ordered[0]
    if o.get("tname"):
        return "wk"
    if o.get("tid"):
        return "ThreadId("
    return None   # begins with scope / location / fields: covered by the ordered tokens


def check_record(case, e, text):
    """None if `text` is exactly one whole record of e (as far as the property says), else a reason"""
    f = case["format"]
    if not text.endswith("\n"):
        return "record does not end with a newline"
    if f != "pretty":
        if text.count("\n") != 1:
            return "record is not exactly one line (%d newlines)" % text.count("\n")
    else:
        if text.endswith("\n\n\n"):
            return "more than one blank line terminates the pretty record"
    marks = MARK_RE.findall(text)
    want = [e.marker] if e.marker is not None else []
    if marks != want:
        return "record carries sequence markers %s, expected %s" % (marks, want)
    ft = first_token(case, e)
    if ft is not None and not text.startswith(ft):
        return "record does not begin with its first token %r" % ft
    if f == "json":
        try:
            j = json.loads(text)
        except ValueError as ex:
            return "line is not one JSON value: %s" % ex
        if not isinstance(j, dict):
            return "line is not a JSON object"
        if case["opts"].get("level") and j.get("level") != JSON_LV[e.meta["level"]]:
            return "JSON level %r, expected %r" % (j.get("level"), JSON_LV[e.meta["level"]])
        got = j.get("fields", {})
        for n, v in e.jfields:
            # (whether JSON strips a raw identifier's `r#` is C14's subject: accept both spellings)
            gv = got.get(shown_name(n), got.get(n, "<absent>"))
            if n in ("time.busy", "time.idle"):
                if gv == "<absent>":
                    return "JSON field %s absent" % n
                continue
            if gv != v and not (isinstance(v, float) and isinstance(gv, (int, float)) and float(gv) == v):
                return "JSON field %s = %r, expected %r" % (n, gv, v)
        return None
    ordered, unordered = tokens(case, e)
    pos = 0
    for tk in ordered:
        i = text.find(tk, pos)
        if i < 0:
            return "token %r missing (or out of order) in record" % tk
        pos = i + len(tk)
    for tk in unordered:
        if tk not in text:
            return "token %r missing in record" % tk
    return None


def mask(text):
    text = ANSI_RE.sub("", text)
    text = TIMING_RE.sub(lambda m: m.group(1) + "T", text)
    return text


def classify_f9(case, e, text, aborts):
    """text is not a whole record of e.  Is it exactly F9's shape: <what the thread's immediately preceding
    aborted (panicked, caught) top-level events had formatted, nothing completed in between> ++ <the whole
    record of e>?"""
    if not aborts or not e.top or any(a.marker is None for a in aborts):
        return False
    ft = first_token(case, e)
    starts = [i for i in range(1, len(text))] if ft is None else [m.start() for m in re.finditer(re.escape(ft), text) if m.start() > 0]
    for k in starts:
        p, r = text[:k], text[k:]
        if "\n" in p or MARK_RE.findall(p) != [a.marker for a in aborts]:
            continue
        name, pre = aborts[-1].abn_text
        tail = (shown_name(name) + ("=" if case["format"] in ("full", "compact") else "")) if name != "message" else ""
        if case["format"] in ("full", "compact") and not p.endswith(tail + pre):
            continue
        if check_record(case, e, r) is None:
            return True
    return False


# ------------------------------------------------------------------------------------------------
# case generation

def gen_pred(rng, depth=0):
    k = rng.choice(["true", "false", "target_eq", "target_prefix", "name_eq", "level_is", "is_span", "is_event", "not"])
    if k in ("target_eq", "target_prefix"):
        v = rng.choice(TARGETS)
        return {"p": k, "v": v if k == "target_eq" else v[:rng.randint(0, len(v))]}
    if k == "name_eq":
        return {"p": k, "v": rng.choice(SPAN_NAMES + ["event e0", "event e1"])}
    if k == "level_is":
        return {"p": k, "l": rng.randint(1, 5)}
    if k == "not":
        return {"p": "not", "q": gen_pred(rng, depth + 1) if depth < 2 else {"p": "is_span"}}
    return {"p": k}


def gen_gate(rng, depth, nsinks):
    k = rng.choice(["max", "min", "filter"])
    inner = gen_wexp(rng, depth - 1, nsinks)
    if k == "filter":
        return {"k": "filter", "p": gen_pred(rng), "w": inner}
    return {"k": k, "l": rng.randint(1, 5), "w": inner}


def gen_wexp(rng, depth, nsinks):
    if depth <= 0 or rng.random() < 0.18:
        return {"k": "sink", "i": rng.randrange(nsinks)}
    k = rng.choices(["gate", "tee", "orelse", "box"], [4, 3, 3, 1])[0]
    if k == "gate":
        return gen_gate(rng, depth, nsinks)
    if k == "box":
        return {"k": "box", "w": gen_wexp(rng, depth - 1, nsinks)}
    if k == "tee":
        return {"k": "tee", "a": gen_wexp(rng, depth - 1, nsinks), "b": gen_wexp(rng, depth - 1, nsinks)}
    return {"k": "orelse", "a": gen_gate(rng, depth - 1, nsinks), "b": gen_wexp(rng, depth - 1, nsinks)}


def gen_value(rng, name):
    if name == "message":
        return rng.choice([{"d": rng.choice(["hello", "shaving yaks", "done: 3 items", "x=1"])}, {"s": rng.choice(["msg text", "a \"q\"", "tab\there"])}])
    k = rng.random()
    if k < 0.3:
        return {"i": rng.choice([0, 1, -1, 7, 42, -5000, 9999])}
    if k < 0.4:
        return {"u": rng.choice([0, 3, 9999, 18446744073709551615])}
    if k < 0.5:
        return {"b": rng.random() < 0.5}
    if k < 0.745:
        return {"s": rng.choice(STRS)}
    if k < 0.75:
        return {"s": "long " + "0123456789abcdef" * rng.choice([40, 300, 600])}     # one record of several KB is still one write
    if k < 0.82:
        return {"f": rng.choice(FLOATS)}
    if k < 0.94:
        return {"d": rng.choice(RAWS)}
    return {"none": 1}


class CaseBuilder:
    def __init__(self, rng):
        self.rng = rng
        self.callsites = []
        self.index = {}

    def cs(self, kind, name, target, level, fields, file=None, line=None):
        key = json.dumps([kind, name, target, level, fields, file, line])
        if key not in self.index:
            self.index[key] = len(self.callsites)
            self.callsites.append({"kind": kind, "name": name, "target": target, "level": level, "fields": fields, "file": file, "line": line})
        return self.index[key]

    def event_cs(self, weird=False):
        rng = self.rng
        n = rng.randint(0, 4 if not weird else 6)
        names = rng.sample(FIELD_NAMES, min(n, len(FIELD_NAMES)))
        fields = ["seq"] + names
        if rng.random() < 0.6:
            fields.insert(rng.choice([1, 1, 1, len(fields)]), "message")
        if rng.random() < 0.06:          # no sequence marker; sometimes no field at all
            fields = [f for f in fields if f != "seq"] if rng.random() < 0.6 else []
        loc = rng.random() < 0.6
        return self.cs("event", "event e%d" % rng.randint(0, 3), rng.choice(TARGETS), rng.randint(1, 5), fields,
                       rng.choice(["src/main.rs", "src/db/mod.rs"]) if loc else None, rng.randint(1, 9999) if loc else None)

    def span_cs(self):
        rng = self.rng
        names = rng.sample(FIELD_NAMES, rng.randint(0, 3))
        loc = rng.random() < 0.5
        return self.cs("span", rng.choice(SPAN_NAMES), rng.choice(TARGETS), rng.randint(1, 5), names,
                       "src/lib.rs" if loc else None, rng.randint(1, 999) if loc else None)


def gen_opts(rng, kind):
    o = {k: rng.random() < p for k, p in (("ansi", 0.2), ("target", 0.7), ("level", 0.8), ("tid", 0.3), ("tname", 0.3), ("file", 0.4), ("line", 0.4), ("timer", 0.35), ("lie", 0.7))}
    se = [k for k in ("new", "enter", "exit", "close") if rng.random() < (0.45 if kind != "route" else 0.25)]
    if rng.random() < 0.35:
        se = []
    o["span_events"] = se
    return o


def gen_program(rng, cb, t, kind, nops, seqc):
    prog = []
    depth = 0
    span_fields = []   # per open span: its declared field names
    for _ in range(nops):
        r = rng.random()
        if r < 0.16 and depth < (6 if kind != "weird" else 9):
            c = cb.span_cs()
            cs = cb.callsites[c]
            parent = None
            pr = rng.random()
            if pr < 0.1:
                parent = -1
            elif pr < 0.2 and depth > 0:
                parent = rng.randrange(depth)
            prog.append({"op": "enter", "cs": c, "vals": [gen_value(rng, n) for n in cs["fields"]], "parent": parent})
            span_fields.append(cs["fields"])
            depth += 1
        elif r < 0.28 and depth > 0:
            prog.append({"op": "exit"})
            span_fields.pop()
            depth -= 1
        elif r < 0.36 and depth > 0 and span_fields[-1]:
            f = rng.choice(span_fields[-1])
            prog.append({"op": "record", "f": f, "v": gen_value(rng, f)})
        elif kind == "weird" and r < 0.40:
            prog.append({"op": "exit"})     # possibly unbalanced: ignored by the harness when nothing is open
            if depth > 0:
                span_fields.pop()
                depth -= 1
        else:
            c = cb.event_cs(kind == "weird")
            cs = cb.callsites[c]
            vals = []
            for n in cs["fields"]:
                if n == "seq":
                    seqc[0] += 1
                    vals.append({"i": 100000 * (t + 1) + seqc[0]})
                else:
                    vals.append(gen_value(rng, n))
            if kind == "abn" and len(vals) > 1 and rng.random() < 0.4:
                j = rng.randrange(1, len(vals))
                a = rng.random()
                if a < 0.45:
                    vals[j] = {"panic": rng.choice(["", "par", "Partial { x: "])}
                elif a < 0.65:
                    vals[j] = {"err": rng.choice(["", "zz"])}
                else:
                    vals[j] = gen_nested(rng, cb, t, seqc, 0)
            parent = None
            pr = rng.random()
            if pr < 0.08:
                parent = -1
            elif pr < 0.18 and depth > 0:
                parent = rng.randrange(depth)
            elif kind == "weird" and pr < 0.22:
                parent = depth + 3        # out of range: the harness makes it a root event
            prog.append({"op": "event", "cs": c, "vals": vals, "parent": parent})
    if kind != "weird" or rng.random() < 0.5:
        prog += [{"op": "exit"}] * depth
    return prog


def gen_nested(rng, cb, t, seqc, d):
    fields = ["seq", "message"] + (["inner"] if rng.random() < 0.5 else [])
    c = cb.cs("event", "event nested", rng.choice(TARGETS), rng.randint(1, 5), fields)
    seqc[0] += 1
    vals = [{"i": 100000 * (t + 1) + seqc[0]}, {"d": "from a Debug impl"}]
    if len(fields) == 3:
        a = rng.random()
        if a < 0.25 and d < 1:
            vals.append(gen_nested(rng, cb, t, seqc, d + 1))
        elif a < 0.45:
            vals.append({"panic": "np"})
        else:
            vals.append({"i": 5})
    return {"nested": {"cs": c, "vals": vals}, "text": rng.choice(["post", "", "Wrapper(..)"])}


def gen_case(rng, cid, kind):
    cb = CaseBuilder(rng)
    fmt = rng.choices(["full", "compact", "pretty", "json"], [4, 4, 2, 2])[0]
    nsinks = rng.randint(1, 4)
    depth = rng.choice([0, 1, 2, 3, 3, 4, 4]) if kind != "conc" else rng.choice([0, 1, 2, 3])
    w = gen_wexp(rng, depth, nsinks)
    if kind == "conc":
        nthreads = rng.randint(2, 8)
        nops = rng.randint(6, 24)
    else:
        nthreads = 1 if rng.random() < 0.8 else 2
        nops = rng.randint(4, 16) if kind != "route" else rng.randint(6, 14)
    threads = []
    for t in range(nthreads):
        seqc = [0]
        if kind == "route":
            prog = []
            for _ in range(nops):
                c = cb.cs("event", "event e%d" % rng.randint(0, 1), rng.choice(TARGETS), rng.randint(1, 5), ["seq", "message"])
                seqc[0] += 1
                prog.append({"op": "event", "cs": c, "vals": [{"i": 100000 * (t + 1) + seqc[0]}, {"d": "routed"}], "parent": None})
                if rng.random() < 0.25:
                    prog.append({"op": "direct", "text": "DIRECT %d" % rng.randint(0, 99), "method": rng.choice(["write_all", "write_all", "write", "flush", "write_vectored", "write_fmt"])})
                if rng.random() < 0.25:
                    sc = cb.span_cs()
                    prog.append({"op": "enter", "cs": sc, "vals": [gen_value(rng, n) for n in cb.callsites[sc]["fields"]], "parent": None})
                    prog.append({"op": "exit"})
        else:
            prog = gen_program(rng, cb, t, kind, nops, seqc)
        threads.append(prog)
    return {"id": cid, "kind": kind, "format": fmt, "opts": gen_opts(rng, kind), "nsinks": nsinks, "writer": w,
            "callsites": cb.callsites, "threads": threads, "global": False}


def gen_global_case(rng, cid):
    c = gen_case(rng, cid, "abn")
    c["kind"] = "global"
    c["global"] = True
    return c


# ------------------------------------------------------------------------------------------------
# sink faults: scripts, plans

def gen_script(rng, partial, panic):
    """one recording writer instance's answers to its successive write calls"""
    pool = [["err"], [{"ok": 0}], ["int"], ["int", "int"], ["int", "err"]]
    if partial:
        k = rng.randint(1, 12)
        pool += [[{"ok": k}], [{"ok": k}, {"ok": rng.randint(1, 9)}], [{"ok": k}, "err"], [{"ok": k}, "int", {"ok": rng.randint(1, 30)}],
                 [{"ok": 1}, {"ok": 1}, {"ok": 1}], [{"ok": k}, {"ok": 0}], ["int", {"ok": k}]]
    if panic:
        pool += [["panic"], ["int", "panic"]] + ([[{"ok": rng.randint(1, 9)}, "panic"]] if partial else [])
    return copy.deepcopy(rng.choice(pool))


def plan_key(e):
    return ("d%d:%d" % (e[4], e[3])) if isinstance(e, tuple) else str(e.uid)


def routed(case, e):
    """sinks (documented routing) of the write the emission / direct op e performs; None: it performs none"""
    if isinstance(e, tuple):
        return denote(case["writer"], None)
    if e.status in ("panic", "poisoned") or (e.status == "err" and not case["opts"].get("lie")):
        return None
    return denote(case["writer"], e.meta)


def case_items(case, follow_gated=False):
    """per thread: what reaches the layer (Em objects) and the direct ops, in program order; direct tuples get the thread appended"""
    counter = [0]
    res = []
    side = []
    for t in range(len(case["threads"])):
        items = thread_emissions(case, t, counter, side, follow_gated)
        res.append([it + (t,) if isinstance(it, tuple) else it for it in items])
    case["_record_unwinds"] = side
    return res


def assign_faults(rng, case, p_record, panic=False, chooser=None):
    """Give some of the case's writes a fault plan.  case["plans"][key] = one script per position of the write's
    denoted sinks; case["faults"][t][k] = the script of the k-th recording writer instance made on thread t (what the
    harness needs).  chooser(e, D) may fix the plan of a write (exhaustive sweeps); otherwise: with probability p_record
    a uniformly random subset of the write's recording sinks gets a random script."""
    fmt = case["format"]
    o = case["opts"]
    plans = {}
    faults = []
    has_mutex = any(sink_kind(case, i).startswith("mutex") for i in range(case["nsinks"]))
    for t, items in enumerate(case_items(case)):
        mk = 0
        ft = {}
        for e in completion_order(items):
            D = routed(case, e)
            if D is None:
                continue
            recs = [j for j, sk in enumerate(D) if logs_make(case, sk)]
            scripts = None
            if chooser is not None:
                scripts = chooser(e, D)
            elif recs and rng.random() < p_record:
                is_tuple = isinstance(e, tuple)
                # partial accepts need the implementation's bytes to be the model's bytes (nothing masked)
                partial = (fmt in BYTE_FORMATS and not o.get("ansi") and (is_tuple or e.status == "ok")
                           and not (not is_tuple and e.kind == "close" and o.get("timer")))
                if is_tuple:
                    partial = e[2] != "flush"
                pn = panic and not has_mutex and (is_tuple or e.kind == "event")
                mask = rng.randrange(1, 2 ** len(recs))
                scripts = [[] for _ in D]
                for b, j in enumerate(recs):
                    if mask >> b & 1:
                        scripts[j] = gen_script(rng, partial, pn)
            if scripts and any(scripts):
                plans[plan_key(e)] = scripts
                for b, j in enumerate(recs):
                    if scripts[j]:
                        ft[str(mk + b)] = scripts[j]
            mk += len(recs)
        faults.append(ft)
    case["plans"] = plans
    case["faults"] = faults
    return case


def gen_fault_case(rng, cid):
    """histories over tee-rich writer expressions with failing / partially accepting / panicking sinks"""
    kind = rng.choice(["content", "abn", "route", "abn"])
    c = gen_case(rng, cid, kind)
    c["kind"] = "fault"
    c["opts"]["ansi"] = False
    ns = c["nsinks"] = rng.randint(2, 4)
    r = rng.random()
    if r < 0.55:       # force tees near the root: the interesting shapes for faults
        c["writer"] = {"k": "tee", "a": gen_wexp(rng, rng.choice([0, 1, 2]), ns), "b": gen_wexp(rng, rng.choice([0, 1, 2, 3]), ns)}
        if rng.random() < 0.3:
            c["writer"] = {"k": rng.choice(["box", "box", "filter"]), "p": {"p": "true"}, "w": c["writer"]}
    else:
        c["writer"] = gen_wexp(rng, rng.choice([2, 3, 4]), ns)
    c["sink_kinds"] = [rng.choice(["rec", "rec", "rec", "fn"]) for _ in range(ns)]
    return assign_faults(rng, c, 0.45, panic=rng.random() < 0.5)


TEE_SHAPES = [
    lambda S: {"k": "tee", "a": S(0), "b": S(1)},
    lambda S: {"k": "tee", "a": {"k": "tee", "a": S(0), "b": S(1)}, "b": S(2)},
    lambda S: {"k": "tee", "a": S(0), "b": {"k": "tee", "a": S(1), "b": S(2)}},
    lambda S: {"k": "tee", "a": {"k": "box", "w": {"k": "tee", "a": S(0), "b": S(1)}}, "b": {"k": "tee", "a": S(2), "b": S(3)}},
    lambda S: {"k": "tee", "a": {"k": "max", "l": 5, "w": S(0)}, "b": {"k": "filter", "p": {"p": "true"}, "w": S(1)}},
    lambda S: {"k": "orelse", "a": {"k": "max", "l": 1, "w": S(0)}, "b": {"k": "tee", "a": S(1), "b": S(2)}},
    lambda S: {"k": "tee", "a": S(0), "b": S(0)},
    lambda S: {"k": "tee", "a": {"k": "filter", "p": {"p": "is_event"}, "w": {"k": "tee", "a": S(0), "b": S(1)}}, "b": {"k": "min", "l": 2, "w": S(2)}},
    lambda S: {"k": "tee", "a": {"k": "orelse", "a": {"k": "filter", "p": {"p": "false"}, "w": S(0)}, "b": S(1)}, "b": S(2)},
]
FAULT_KINDS = [["err"], [{"ok": 0}], ["int", "err"], [{"ok": 3}, "err"], ["panic"], [{"ok": 2}, {"ok": 5}], ["int"]]


def gen_teefault_cases(rng):
    """EXHAUSTIVE over the failing subsets: for each tee shape, one record per subset of its denoted sinks failing
    (each followed by a healthy record), and one direct call per io::Write method per subset"""
    cases = []
    for si, shape in enumerate(TEE_SHAPES):
        fmt = ["full", "compact", "json", "pretty"][(si + rng.randrange(4)) % 4]
        w = shape(lambda i: {"k": "sink", "i": i})
        cb = CaseBuilder(rng)
        cs = cb.cs("event", "event e0", "app", 3, ["seq", "message"])
        meta = cs_meta(cb.callsites[cs])
        D = denote(w, meta)
        D0 = denote(w, None)
        prog = []
        seq = 0
        sel = {}
        for mask in range(2 ** len(D)):
            for _ in range(2):
                seq += 1
                prog.append({"op": "event", "cs": cs, "vals": [{"i": 100000 + seq}, {"d": "tee"}], "parent": None})
            sel[len(prog) - 2] = mask
        methods = ["write_all", "write", "flush", "write_vectored", "write_fmt"]
        dsel = {}
        for mask in range(2 ** len(D0)):
            m = methods[(mask + si) % len(methods)]
            prog.append({"op": "direct", "text": "DIRECT %d" % mask, "method": m})
            dsel[len(prog) - 1] = mask
        fk = FAULT_KINDS[si % len(FAULT_KINDS):] + FAULT_KINDS[:si % len(FAULT_KINDS)]
        partial_ok = fmt in BYTE_FORMATS
        c = {"id": 0, "kind": "teefault", "format": fmt, "opts": {"ansi": False, "target": True, "level": True, "lie": si % 2 == 0, "span_events": []},
             "nsinks": 4, "sink_kinds": ["rec"] * 4, "writer": w, "callsites": cb.callsites, "threads": [prog], "global": False}

        def chooser(e, Dx, sel=sel, dsel=dsel, fk=fk, partial_ok=partial_ok):
            if isinstance(e, tuple):
                mask = dsel.get(e[3], 0)
                meth = e[2]
            else:
                mask = sel.get(e.op, 0)
                meth = "write_all"
            out = []
            for j in range(len(Dx)):
                if mask >> j & 1:
                    sc = copy.deepcopy(fk[(j + mask) % len(fk)])
                    if (not partial_ok or meth == "flush") and any(isinstance(r, dict) and r["ok"] > 0 for r in sc):
                        sc = ["err"]
                    out.append(sc)
                else:
                    out.append([])
            return out
        cases.append(assign_faults(rng, c, 0.0, chooser=chooser))
    return cases


def gen_lifecycle_cases(rng):
    """EVERY subset of {new, enter, exit, close} x timer on/off (32 configurations), formats rotating"""
    cases = []
    names = ["new", "enter", "exit", "close"]
    rot = rng.randrange(4)
    for mask in range(16):
        for timer in (False, True):
            c = gen_case(rng, 0, "content")
            c["kind"] = "lifecycle"
            c["format"] = ["full", "compact", "pretty", "json"][(mask + rot + (2 if timer else 0)) % 4]
            c["opts"]["span_events"] = [n for b, n in enumerate(names) if mask >> b & 1]
            c["opts"]["timer"] = timer
            # make sure spans are entered, recorded into and exited
            cb = CaseBuilder(rng)
            cb.callsites = c["callsites"]
            cb.index = {json.dumps([x["kind"], x["name"], x["target"], x["level"], x["fields"], x["file"], x["line"]]): i for i, x in enumerate(cb.callsites)}
            sc = cb.span_cs()
            sc2 = cb.span_cs()
            ev = cb.cs("event", "event e0", "app", 3, ["seq", "message"])
            extra = [{"op": "enter", "cs": sc, "vals": [gen_value(rng, n) for n in cb.callsites[sc]["fields"]], "parent": None},
                     {"op": "event", "cs": ev, "vals": [{"i": 190001}, {"d": "inside"}], "parent": None},
                     {"op": "enter", "cs": sc2, "vals": [gen_value(rng, n) for n in cb.callsites[sc2]["fields"]], "parent": None},
                     {"op": "exit"}, {"op": "exit"}]
            c["threads"][0] = extra + c["threads"][0]
            cases.append(c)
    return cases


def gen_reconf_cases(rng, nrandom):
    """a RELOADABLE fmt layer (behind reload::Subscriber) whose span events are reconfigured while spans are alive:
    {"op":"reconf","se":mask,"how":"modify"} = Handle::modify(|s| s.set_span_events(mask)), "how":"reload" = Handle::reload(new fmt
    subscriber configured with mask).  Sweep: 4 formats x timer on/off x modify/reload, a span created BEFORE the switch (under a
    rotating initial mask without CLOSE) and one AFTER it, a target mask that contains CLOSE, both closed afterwards; then random
    histories (random masks in both directions, nesting <= 3, events, records).  One thread (the configuration is shared)."""
    names = ["new", "enter", "exit", "close"]
    cases = []

    def base(fmt, timer, plain_writer):
        cb = CaseBuilder(rng)
        c = {"id": 0, "kind": "reconf", "format": fmt, "opts": gen_opts(rng, "content"), "nsinks": 1, "writer": {"k": "sink", "i": 0},
             "callsites": cb.callsites, "threads": [[]], "global": False, "reloadable": True}
        if not plain_writer:
            c["nsinks"] = rng.randint(1, 3)
            c["writer"] = gen_wexp(rng, rng.choice([1, 2, 3]), c["nsinks"])
        c["opts"]["timer"] = timer
        c["opts"]["ansi"] = False
        return c, cb

    def ev(cb, seqc, text):
        seqc[0] += 1
        e = cb.cs("event", "event e0", "app", 3, ["seq", "message"])
        return {"op": "event", "cs": e, "vals": [{"i": 170000 + seqc[0]}, {"d": text}], "parent": None}

    def enter(cb):
        sc = cb.span_cs()
        return {"op": "enter", "cs": sc, "vals": [gen_value(rng, n) for n in cb.callsites[sc]["fields"]], "parent": None}

    rot = rng.randrange(8)
    k = 0
    for fmt in ("full", "compact", "pretty", "json"):
        for timer in (True, False):
            for how in ("modify", "reload"):
                c, cb = base(fmt, timer, True)
                seqc = [0]
                init = [[], ["new"], ["enter", "exit"], ["new", "enter"], ["exit"], [], ["enter"], ["new", "exit"]][(k + rot) % 8]
                extra = [n for n in names[:3] if rng.random() < 0.4]
                c["opts"]["span_events"] = init
                c["threads"][0] = [enter(cb), ev(cb, seqc, "early is running"), {"op": "reconf", "se": extra + ["close"], "how": how},
                                   enter(cb), ev(cb, seqc, "late is running"), {"op": "exit"}, {"op": "exit"}, ev(cb, seqc, "after")]
                cases.append(c)
                k += 1
    for _ in range(nrandom):
        c, cb = base(rng.choice(["full", "compact", "pretty", "json"]), rng.random() < 0.65, rng.random() < 0.5)
        seqc = [0]
        prog = []
        depth = 0
        fields = []
        for _ in range(rng.randint(8, 22)):
            r = rng.random()
            if r < 0.25 and depth < 3:
                op = enter(cb)
                fields.append(cb.callsites[op["cs"]]["fields"])
                prog.append(op)
                depth += 1
            elif r < 0.45 and depth > 0:
                prog.append({"op": "exit"})
                fields.pop()
                depth -= 1
            elif r < 0.65:
                prog.append({"op": "reconf", "se": [n for n in names if rng.random() < 0.5], "how": rng.choice(["modify", "modify", "reload"])})
            elif r < 0.72 and depth > 0 and fields[-1]:
                f = rng.choice(fields[-1])
                v = gen_value(rng, f)
                if not any(x in v for x in ("panic", "err", "nested")):
                    prog.append({"op": "record", "f": f, "v": v})
            else:
                prog.append(ev(cb, seqc, "running"))
        c["threads"][0] = prog
        cases.append(c)
    return cases


def gen_race_cases(rng, n):
    """two threads record different fields on ONE span at overlapping times (rendezvousing Debug impls), then records are
    written inside that span: every recorded field must be named.  Text formats (JSON's stored fields are C14's)."""
    cases = []
    for i in range(n):
        c = gen_case(rng, 0, "content")
        c["kind"] = "race"
        c["format"] = ["full", "compact", "pretty"][(i + rng.randrange(3)) % 3]
        c["opts"]["ansi"] = False
        cb = CaseBuilder(rng)
        cb.callsites = c["callsites"]
        cb.index = {json.dumps([x["kind"], x["name"], x["target"], x["level"], x["fields"], x["file"], x["line"]]): k for k, x in enumerate(cb.callsites)}
        names = rng.sample(FIELD_NAMES, 3)
        sc = cb.cs("span", rng.choice(SPAN_NAMES), rng.choice(TARGETS), rng.randint(1, 5), names)
        ev = cb.cs("event", "event e0", "app", 3, ["seq", "message"])
        fa, fb = rng.sample(names, 2)
        pre = [{"op": "enter", "cs": sc, "vals": [gen_value(rng, names[0]) if rng.random() < 0.5 else {"none": 1}, {"none": 1}, {"none": 1}], "parent": None}]
        if rng.random() < 0.5:
            pre.append({"op": "record", "f": names[0], "v": {"i": rng.randint(0, 9)}})
        pre += [{"op": "race", "a": {"f": fa, "v": rng.choice(RAWS)}, "b": {"f": fb, "v": rng.choice(["B", "Other(2)", "late"])}, "wait_ms": 250},
                {"op": "event", "cs": ev, "vals": [{"i": 195001}, {"d": "after the race"}], "parent": None}]
        c["threads"][0] = pre + c["threads"][0] + [{"op": "exit"}]
        cases.append(c)
    return cases


def assign_timer_faults(rng, c, p, chooser=None):
    """make the configured timer fail for some emissions: case["timer_faults"][t][k] = what the k-th format_time call of thread t
    writes before it returns Err.  chooser(t, k) fixes it (sweeps)."""
    c["opts"]["timer"] = True
    c.pop("timer_faults", None)
    tf = []
    for t, items in enumerate(case_items(c)):
        d = {}
        for e in items:
            if isinstance(e, tuple):
                continue
            pre = chooser(t, e.tidx) if chooser else (rng.choice(["", "", "12:", "T"]) if rng.random() < p else None)
            if pre is not None:
                d[str(e.tidx)] = pre
        tf.append(d)
    c["timer_faults"] = tf
    return c


def gen_timerfault_cases(rng, nrandom):
    """a clock that cannot be read.  Sweep: 3 emissions (event, `new` record of a span, event inside it) x EVERY subset of
    failing timer calls x the four formats; plus random failures over ordinary content programs (no nested / aborted events:
    Format<Json> bails before it formats anything, which would change what else reaches the layer)."""
    cases = []
    for fi, fmt in enumerate(["full", "compact", "pretty", "json"]):
        for mask in range(8):
            cb = CaseBuilder(rng)
            sp = cb.cs("span", rng.choice(SPAN_NAMES), rng.choice(TARGETS), 3, ["a"])
            ev = cb.cs("event", "event e0", "app", rng.randint(1, 5), ["seq", "message"])
            o = gen_opts(rng, "content")
            o.update({"ansi": (mask + fi) % 4 == 0, "span_events": ["new"], "lie": mask % 2 == 0})
            prog = [{"op": "event", "cs": ev, "vals": [{"i": 100001}, {"d": "first"}], "parent": None},
                    {"op": "enter", "cs": sp, "vals": [{"i": 1}], "parent": None},
                    {"op": "event", "cs": ev, "vals": [{"i": 100002}, {"d": "inside"}], "parent": None}, {"op": "exit"}]
            c = {"id": 0, "kind": "timerfault", "format": fmt, "opts": o, "nsinks": 1, "sink_kinds": ["rec"], "writer": {"k": "sink", "i": 0},
                 "callsites": cb.callsites, "threads": [prog], "global": False}
            cases.append(assign_timer_faults(rng, c, 0, chooser=lambda t, k, mask=mask: (["", "12:", "T"][(k + mask) % 3] if mask >> k & 1 else None)))
    for _ in range(nrandom):
        c = gen_case(rng, 0, "content")
        c["kind"] = "timerfault"
        cases.append(assign_timer_faults(rng, c, 0.4))
    return cases


def gen_poison_cases(rng, n):
    """F132's history: a span, a record on it whose value's Debug impl panics (caught), then events inside the span (contextual,
    explicit child, in a child span), outside it (explicit root), a later healthy record on it, exit, an event afterwards.
    No span events (a lifecycle record of the poisoned span would unwind out of exit/close)."""
    cases = []
    for i in range(n):
        fmt = ["full", "compact", "pretty", "json"][(i + rng.randrange(4)) % 4]
        cb = CaseBuilder(rng)
        names = rng.sample(FIELD_NAMES, 3)
        sc = cb.cs("span", rng.choice(SPAN_NAMES), rng.choice(TARGETS), rng.randint(1, 5), names)
        ch = cb.span_cs()
        o = gen_opts(rng, "content")
        o["span_events"] = []
        o["ansi"] = False
        seq = [0]

        def ev(parent=None):
            c_ = cb.event_cs()
            vals = []
            for n_ in cb.callsites[c_]["fields"]:
                if n_ == "seq":
                    seq[0] += 1
                    vals.append({"i": 100000 + seq[0]})
                else:
                    vals.append(gen_value(rng, n_))
            return {"op": "event", "cs": c_, "vals": vals, "parent": parent}
        prog = [ev()]
        if rng.random() < 0.5:
            prog.append({"op": "enter", "cs": cb.span_cs(), "vals": [], "parent": None})
            cb.callsites[prog[-1]["cs"]]  # (an outer span that stays healthy)
            prog[-1]["vals"] = [gen_value(rng, n_) for n_ in cb.callsites[prog[-1]["cs"]]["fields"]]
        depth0 = len([p for p in prog if p["op"] == "enter"])
        prog += [{"op": "enter", "cs": sc, "vals": [gen_value(rng, names[0]), {"none": 1}, {"none": 1}], "parent": None}, ev(),
                 {"op": "record", "f": names[1], "v": {"panic": rng.choice(["", "par", "Partial { x: "])}}, ev(), ev(-1), ev(depth0),
                 {"op": "enter", "cs": ch, "vals": [gen_value(rng, n_) for n_ in cb.callsites[ch]["fields"]], "parent": None}, ev(), {"op": "exit"},
                 {"op": "record", "f": names[2], "v": {"i": 5}}, ev(), {"op": "exit"}, ev()]
        prog += [{"op": "exit"}] * depth0 + [ev()]
        w = gen_wexp(rng, rng.choice([0, 1, 2]), 2)
        cases.append({"id": 0, "kind": "poison", "format": fmt, "opts": o, "nsinks": 2, "sink_kinds": ["rec", "rec"], "writer": w,
                      "callsites": cb.callsites, "threads": [prog], "global": False})
    return cases


def add_sink_kinds(rng, c):
    """closure-backed and Mutex-backed leaves.  A Mutex leaf: at most once in the expression (a second lock of the same
    Mutex inside one Tee would deadlock -- user error), no direct ops (they use a second copy of the writer)."""
    ns = c["nsinks"]
    kinds = ["rec"] * ns
    occ = {}

    def walk(w):
        if w["k"] == "sink":
            occ[w["i"]] = occ.get(w["i"], 0) + 1
        for k in ("w", "a", "b"):
            if k in w:
                walk(w[k])
    walk(c["writer"])
    has_direct = any(op["op"] == "direct" for th in c["threads"] for op in th)
    for i in range(ns):
        r = rng.random()
        if r < 0.15:
            kinds[i] = "fn"
        elif r < 0.55 and occ.get(i, 0) == 1 and not has_direct:
            kinds[i] = "mutex:%d" % rng.choice([0, 0, 1, 3, 7, 16])
    c["sink_kinds"] = kinds
    return c


def gen_testwriter_twins(rng):
    """the real TestWriter as one sink (it prints to stdout): the same case is run twice, once with a recording sink in
    its place; what TestWriter printed must be, line for line, what the recording twin was handed"""
    c = gen_case(rng, 0, rng.choice(["content", "route", "conc"]))
    c["opts"].update({"tid": False, "ansi": False})
    if c["opts"].get("timer") and "close" in c["opts"].get("span_events", []):
        c["opts"]["timer"] = False
    for th in c["threads"]:
        th[:] = [op for op in th if op["op"] != "direct"]
    if not wexp_stats(c["writer"]).get("sink0") or rng.random() < 0.3:
        c["writer"] = {"k": "tee", "a": {"k": "sink", "i": 0}, "b": c["writer"]}
    c["kind"] = "testwriter-rec"
    c["sink_kinds"] = ["rec"] * c["nsinks"]
    twin = copy.deepcopy(c)
    twin["kind"] = "testwriter"
    twin["sink_kinds"][0] = "test"
    return c, twin


# ------------------------------------------------------------------------------------------------
# Coq terms

def B(s):
    return '(B "%s")' % s.replace('"', '""')


def cb_(b):
    return "true" if b else "false"


def coq_pred(p):
    k = p["p"]
    if k in ("true", "false", "is_span", "is_event"):
        return {"true": "PTrue", "false": "PFalse", "is_span": "PIsSpan", "is_event": "PIsEvent"}[k]
    if k == "target_eq":
        return "(PTargetEq %s)" % B(p["v"])
    if k == "target_prefix":
        return "(PTargetPrefix %s)" % B(p["v"])
    if k == "name_eq":
        return "(PNameEq %s)" % B(p["v"])
    if k == "level_is":
        return "(PLevelIs %d)" % p["l"]
    return "(PNot %s)" % coq_pred(p["q"])


def coq_wexp(w):
    k = w["k"]
    if k == "sink":
        return "(WSink %d)" % w["i"]
    if k == "box":
        return "(WBox %s)" % coq_wexp(w["w"])
    if k == "max":
        return "(WMax %d %s)" % (w["l"], coq_wexp(w["w"]))
    if k == "min":
        return "(WMin %d %s)" % (w["l"], coq_wexp(w["w"]))
    if k == "filter":
        return "(WFilter %s %s)" % (coq_pred(w["p"]), coq_wexp(w["w"]))
    if k == "tee":
        return "(WTee %s %s)" % (coq_wexp(w["a"]), coq_wexp(w["b"]))
    return "(WOrElse %s %s)" % (coq_wexp(w["a"]), coq_wexp(w["b"]))


def coq_emeta(cs, time_fail=None):
    return "(EMeta %d %s %s %s %s %s %s)" % (cs["level"], B(cs["target"]), B(cs["name"]),
                                           "(Some %s)" % B(cs["file"]) if cs["file"] is not None else "None",
                                           "(Some %s)" % B(str(cs["line"])) if cs["line"] is not None else "None", cb_(cs["kind"] == "span"),
                                           "None" if time_fail is None else "(Some %s)" % B(time_fail))


def coq_meta(m):
    return "(Meta %d %s %s %s)" % (m["level"], B(m["target"]), B(m["name"]), cb_(m["span"]))


def coq_scope(scope):
    return "[" + "; ".join("Span %s [%s] %s" % (B(sp["name"]), "; ".join("[" + "; ".join("(%s, %s)" % (B(n), B(v)) for n, v in g) + "]" for g in sp["groups"]), B(sp["target"]) + " " + cb_(sp.get("poisoned")))
                           for sp in scope) + "]"


def coq_emission(case, cs_idx, vals, scope, ctx_scope=None, root=False, t=0, tidx=None):
    ctx_scope = scope if ctx_scope is None else ctx_scope
    cs = case["callsites"][cs_idx]
    tidx = tidx if tidx is not None else [0]
    time_fail = timer_fault(case, t, tidx[0])
    tidx[0] += 1
    parts = []
    tail = "FNil"
    items = []
    for name, v in zip(cs["fields"], vals):
        if "panic" in v:
            items.append(("panic", name, v["panic"]))
            break
        if "err" in v:
            items.append(("err", name, v["err"]))
            break
        if "nested" in v:
            n = v["nested"]
            items.append(("nested", name, coq_emission(case, n["cs"], n["vals"], ctx_scope, None, False, t, tidx), v.get("text", "")))
            continue
        r = render_value(name, v)
        if r is None:
            continue
        items.append(("ok", name, r))
    term = "FNil"
    for it in reversed(items):
        if it[0] == "ok":
            term = "(FOk %s %s %s)" % (B(it[1]), B(it[2]), term)
        elif it[0] == "nested":
            term = "(FNested %s %s %s %s)" % (B(it[1]), it[2], B(it[3]), term)
        elif it[0] == "panic":
            term = "(FPanic %s %s)" % (B(it[1]), B(it[2]))
        else:
            term = "(FErr %s %s)" % (B(it[1]), B(it[2]))
    if case["format"] == "pretty" and root:      # which spans Pretty walks for an explicit root is read from the source
        return "(Em %s (pscope true %s %s) %s)" % (coq_emeta(cs, time_fail), coq_scope(scope), coq_scope(ctx_scope), term)
    return "(Em %s %s %s)" % (coq_emeta(cs, time_fail), coq_scope(scope), term)


def coq_script(sc):
    out = []
    for r in sc:
        if isinstance(r, dict):
            out.append("RsAccept %d" % r["ok"])
        else:
            out.append({"int": "RsInterrupted", "err": "RsFail", "panic": "RsPanic"}[r])
    return "[" + "; ".join(out) + "]"


def coq_plan(scripts):
    return "[" + "; ".join(coq_script(x) for x in (scripts or [])) + "]"


def coq_plans(case, emissions):
    """the fault plans of a segment's emissions, in completion order (trailing healthy ones dropped)"""
    pl = [case.get("plans", {}).get(plan_key(e)) for e in emissions]
    while pl and not pl[-1]:
        pl.pop()
    return "[" + "; ".join(coq_plan(x) for x in pl) + "]"


COQ_METHOD = {"write_all": "MWriteAll", "write_fmt": "MWriteAll", "write": "MWrite", "write_vectored": "MWrite", "flush": "MFlush"}


def segments(items):
    """split a thread's items at the direct ops: [('ems', [Em..]) | ('direct', tuple)]"""
    segs = [("ems", [])]
    for it in items:
        if isinstance(it, tuple):
            segs.append(("direct", it))
            segs.append(("ems", []))
        else:
            segs[-1][1].append(it)
    return segs


def model_ops(case, t):
    """the thread's program as model ops (scopes resolved here: C06's subject is a parameter of this model),
    split at `direct` ops: [('ops', [op terms]) | ('direct', text)]"""
    segs = [("ops", [])]
    stack = []
    prog = case["threads"][t]
    LK = {"new": "LNew", "enter": "LEnter", "exit": "LExit", "close": "LClose"}
    se_on = set(case["opts"].get("span_events", []))
    tidx = [0]

    def scope_of(parent):
        if parent is None:
            return ([snap(x) for x in stack[-1]["chain"]] + [snap(stack[-1])]) if stack else [], (stack[-1]["chain"] + [stack[-1]]) if stack else []
        if parent < 0 or parent >= len(stack):
            return [], []
        p = stack[parent]
        return [snap(x) for x in p["chain"]] + [snap(p)], p["chain"] + [p]

    rel = bool(case.get("reloadable"))       # model ops are [rop]s: span ids, RNew / RClose / RReconf
    nid = [0]

    def span_op(kind, sp):
        cs = case["callsites"][sp["cs"]]
        sc = [snap(x) for x in sp["chain"]] + [snap(sp)]
        tf = None
        if kind in se_on:        # only a configured lifecycle point reaches a formatter (and asks the timer)
            tf = timer_fault(case, t, tidx[0])
            tidx[0] += 1
        if rel:
            if kind == "new":
                sp["id"] = nid[0]
                nid[0] += 1
            segs[-1][1].append({"new": "RNew %d %%s %%s" % sp["id"], "close": "RClose %d %%s %%s" % sp["id"]}.get(kind, "ROp (OpSpan %s %%s %%s)" % LK[kind])
                               % (coq_emeta(cs, tf), coq_scope(sc)))
            return
        segs[-1][1].append("OpSpan %s %s %s" % (LK[kind], coq_emeta(cs, tf), coq_scope(sc)))

    for op in prog:
        o = op["op"]
        if o == "enter":
            cs = case["callsites"][op["cs"]]
            _, chain = scope_of(op.get("parent"))
            g0 = [(n, render_value(n, v)) for n, v in zip(cs["fields"], op["vals"]) if render_value(n, v) is not None]
            sp = {"cs": op["cs"], "name": cs["name"], "target": cs["target"], "groups": [g0], "chain": chain}
            span_op("new", sp)
            span_op("enter", sp)
            stack.append(sp)
        elif o == "exit":
            if stack:
                sp = stack.pop()
                span_op("exit", sp)
                span_op("close", sp)
        elif o == "record":
            if stack:
                record_op(case, stack[-1], op, [], t, 0)
        elif o == "race":
            if stack:
                sp = stack[-1]
                for side in ("a", "b"):
                    if op[side]["f"] in case["callsites"][sp["cs"]]["fields"]:
                        sp["groups"].append([(op[side]["f"], op[side]["v"])])
        elif o == "event":
            sc, _ = scope_of(op.get("parent"))
            par = op.get("parent")
            root = par is not None and (par < 0 or par >= len(stack))
            segs[-1][1].append(("ROp (OpEvent %s)" if rel else "OpEvent %s") % coq_emission(case, op["cs"], op["vals"], sc, scope_of(None)[0], root, t, tidx))
        elif o == "reconf":
            se_on = set(op["se"])
            segs[-1][1].append("RReconf (SpanCfg %s %s %s %s)" % tuple(cb_(k in se_on) for k in ("new", "enter", "exit", "close")))
        elif o == "direct":
            segs.append(("direct", op["text"]))
            segs.append(("ops", []))
    while stack:
        sp = stack.pop()
        span_op("exit", sp)
        span_op("close", sp)
    return segs


def opaque_event(e):
    nested = "[" + "; ".join(opaque_event(n) for n in e.nested) + "]"
    if e.status == "ok":
        out = "(OOk [%d])" % (2 * e.uid + 1)
    elif e.status in ("panic", "poisoned"):
        out = "(OPanic [%d])" % (2 * e.uid)
    else:
        out = "(OErr [%d] [%d])" % (2 * e.uid, 2 * e.uid + 1)
    return "(Ev %s %s %s)" % (coq_meta(e.meta), nested, out)


def py_hash(seq):
    h = 5381
    for x in seq:
        h = ((h << 5) + h + x + 1) & 1152921504606846975
    return h


def enc_meta(m):
    return py_hash(list(m["target"].encode()) + [0] + list(m["name"].encode()))


# ------------------------------------------------------------------------------------------------

def load_corpus():
    d = os.path.join(vlib.VERIF, "corpus", "C13")
    cases = []
    if os.path.isdir(d):
        for f in sorted(os.listdir(d)):
            if f.endswith(".json"):
                for line in open(os.path.join(d, f)):
                    if line.strip():
                        c = json.loads(line)
                        c.setdefault("kind", "corpus")
                        c["corpus_file"] = f
                        cases.append(c)
    return cases


def parse_harness_output(out, obs):
    """harness lines start with '@@C13 '; whatever else a case printed to stdout (TestWriter leaves) is its 'stdout'"""
    parts = out.split("\n@@C13 ")
    pending = parts[0]
    for piece in parts[1:]:
        line, _, rest = piece.partition("\n")
        try:
            d = json.loads(line)
        except ValueError:
            pending = rest
            continue
        d["stdout"] = pending
        obs[d["id"]] = d
        pending = rest


def run_harness(ctx, rep, path, cases):
    """returns {id: observation}"""
    obs = {}
    batch = [c for c in cases if not c.get("global")]
    if batch:
        fn = os.path.join(ctx.work, "cases.jsonl")
        with open(fn, "w") as f:
            for c in batch:
                f.write(json.dumps({k: v for k, v in c.items() if k != "plans" and not k.startswith("_")}) + "\n")
        rc, out = run_bin(path, [fn], timeout=1200)
        if rc != 0:
            rep.tie("run:h_fmt", False, "rc=%d %s" % (rc, vlib.last_error(out)))
        parse_harness_output(out, obs)
    for c in cases:
        if c.get("global"):     # the global default can be set once per process
            rc, out = run_bin(path, [], input=json.dumps({k: v for k, v in c.items() if k != "plans" and not k.startswith("_")}) + "\n", timeout=120)
            parse_harness_output(out, obs)
    return obs


def normalise_calls(case, calls):
    """one thread's calls with the chunked writes of a Mutex leaf merged into the single whole write they are (the oracle
    checks the chunking itself: successive suffixes, nobody else's bytes in between)"""
    res = []
    pending = {}
    for c in calls:
        if c["k"] == "write" and c.get("mutex"):
            s_ = c["s"]
            if s_ not in pending:
                pending[s_] = c["hex"]
            if c["r"] == "ok":
                d = dict(c)
                d["hex"] = pending.pop(s_)
                res.append(d)
            continue
        res.append(c)
    return res


def normalise_model(case, mv):
    """what the leaf kinds hide from the log: a TestWriter leaf logs nothing, a Mutex leaf has no factory call, a
    closure leaf's factory is asked without metadata (the default make_writer_for)"""
    res = []
    for x in mv:
        k = sink_kind(case, x[0])
        if k == "test":
            continue
        if k.startswith("mutex") and x[1] in (0, 1):
            continue
        if k == "fn" and x[1] == 1:
            x = (x[0], 0, 0, 0)
        res.append(tuple(x))
    return res


def encode_observed(case, calls):
    """the implementation's calls of one thread in the model's encoding (full/compact: masked bytes hashed)"""
    res = []
    for c in normalise_calls(case, calls):
        if c["k"] == "make":
            if c["meta"] is None:
                res.append((c["s"], 0, 0, 0))
            else:
                m = c["meta"]
                res.append((c["s"], 1, 2 * m["level"] + (1 if m["span"] else 0), enc_meta(m)))
        elif c["k"] == "write":
            b = bytes.fromhex(c["hex"])
            txt = b.decode("utf-8", "surrogateescape")     # a partially accepted record may be re-offered from the middle of a character
            txt = mask(txt)
            txt = ERRLINE_RE.sub(lambda m: m.group(1) + "?\n", txt)
            bb = txt.encode("utf-8", "surrogateescape")
            res.append((c["s"], 2 + RCODE[c.get("r", "ok")], len(bb), py_hash(bb)))
        else:
            res.append((c["s"], 3, RCODE[c.get("r", "ok")], 0))
    return res


# ------------------------------------------------------------------------------------------------
# oracle on one thread's call log

def check_thread(rep, c, case_min, t, items, calls, f9_counter, observed_caught=(), f132=None):
    """The implementation's calls on the recording sinks, thread t, against the property.  Returns the (thread, op)
    pairs whose processing must have unwound into the harness's catch_unwind."""
    pos = 0
    aborts = []
    unwinds = []
    f132 = f132 if f132 is not None else [False]
    f133 = [False]
    lie = c["opts"].get("lie")

    def viol(what, e, **extra):
        d = {"case": case_min, "thread": t}
        if e is not None and not isinstance(e, tuple):
            d["emission"] = {"op": e.op, "kind": e.kind, "marker": e.marker}
        elif e is not None:
            d["direct_op"] = e[3]
        d.update(extra)
        rep.violation(what, d)

    for e in completion_order(items):
        is_direct = isinstance(e, tuple)
        if not is_direct:
            rep.count("emission:" + e.kind + ("" if e.status == "ok" else "-" + e.status) + ("" if e.top else "-nested"))
        if not is_direct and e.time_fail is not None:
            rep.count("timer-failed-at-emission")
            if c["format"] == "json" and JSON_TIMER_BAILS[0] and not f133[0]:
                f133[0] = True
                rep.violation("the JSON formatter drops the record of an event when the configured timer returns Err (the text formatters "
                              "print <unknown time> and keep the record)", {"case": case_min, "thread": t, "op": e.op, "marker": e.marker}, finding="F133")
        D = routed(c, e)
        if D is None:
            if e.status == "panic":
                if e.top:
                    aborts.append(e)
                    unwinds.append([t, e.op])
            elif e.status == "poisoned":
                # an innocent event inside a span on which a record call unwound: it reaches the layer and (std locks) its
                # format_event unwinds on the first extensions() of the poisoned span: nothing is written, the emitting call panics
                if [t, e.op] in observed_caught:
                    unwinds.append([t, e.op])
                    if not f132[0]:
                        f132[0] = True
                        rep.violation("an event that reaches the layer inside span(s) %s, on which an earlier `record` call unwound (its value's Debug impl panicked, the caller "
                                      "caught it), is not written: the emitting call panics (poisoned extensions lock)" % [sp["name"] for sp in e.scope if sp.get("poisoned")],
                                      {"case": case_min, "thread": t, "op": e.op, "marker": e.marker}, finding="F132")
                # (when the emitting call did NOT panic the record must be there: the calls that follow are then checked against
                #  the next emission and the mismatch is reported there / by the correspondence; the source says the locks poison)
            elif e.top:
                aborts = []               # the non-unwinding path clears
            continue
        method = e[2] if is_direct else "write_all"
        scripts = (c.get("plans") or {}).get(plan_key(e)) or [[] for _ in D]
        if any(scripts):
            rep.count("write-with-faults")
        want_meta = None if is_direct else e.meta
        # ---- one factory call per denoted sink, with this event's metadata
        mk = [sk for sk in D if logs_make(c, sk)]
        seg = calls[pos:pos + len(mk)]
        shape = [(x["k"], x["s"]) for x in seg]
        if shape != [("make", sk) for sk in mk]:
            viol("one factory call and one write per routed record: factory calls are %s, the documented routing selects sinks %s%s"
                 % (shape, D, "" if len(mk) == len(D) else " (factories observable on %s)" % mk), e)
            return unwinds
        for x in seg:
            wm = want_meta if sink_kind(c, x["s"]) == "rec" else None
            if x["meta"] != wm:
                viol("make_writer_for received %s, the event's metadata is %s" % (x["meta"], wm), e)
                return unwinds
        pos += len(mk)
        inst = iter([x["w"] for x in seg])
        # ---- then the write on EVERY denoted sink, in order, whichever of them fail
        record = e[1].encode() if is_direct else None
        unwound = False
        for j, sk in enumerate(D):
            kind = sink_kind(c, sk)
            if kind == "test":
                continue
            if kind.startswith("mutex"):
                first = True
                while True:
                    x = calls[pos] if pos < len(calls) else None
                    if x is None or x["s"] != sk or x["k"] != ("flush" if method == "flush" else "write"):
                        viol("sink %d (Mutex leaf) is denoted for this record (documented routing %s) but %s: next call is %s"
                             % (sk, D, "it was never offered it" if first else "it accepted a part and was not re-offered the rest", None if x is None else (x["k"], x["s"])), e)
                        return unwinds
                    pos += 1
                    if method == "flush":
                        break
                    b = bytes.fromhex(x["hex"])
                    if record is None:
                        record = b
                    if first and b != record:
                        viol("sink %d was not offered the whole record first" % sk, e, write=b.decode("utf-8", "replace")[:300])
                        return unwinds
                    if not first and b != rest:
                        viol("sink %d accepted a part of the record and was not re-offered exactly the rest" % sk, e)
                        return unwinds
                    first = False
                    if x["r"] != "part" or method != "write_all" and method != "write_fmt":
                        break
                    chunk = int(kind.split(":")[1])
                    rest = b[chunk:]
                continue
            wid = next(inst)
            sc = scripts[j] if j < len(scripts) else []
            x = calls[pos] if pos < len(calls) else None
            if record is None:
                if x is None or x["k"] != "write" or x["s"] != sk:
                    viol("sink %d (position %d of the documented routing %s, fault plan %s) was never offered the record: next call is %s"
                         % (sk, j, D, scripts, None if x is None else (x["k"], x["s"])), e)
                    return unwinds
                record = bytes.fromhex(x["hex"])
            exp, res = sim_calls(sc, method, len(record))
            for off, tag in exp:
                x = calls[pos] if pos < len(calls) else None
                want_k = "flush" if method == "flush" else "write"
                if x is None or x["k"] != want_k or x["s"] != sk:
                    viol("sink %d (position %d of the documented routing %s, fault plan %s) %s: next call is %s"
                         % (sk, j, D, scripts, ("was never flushed" if method == "flush" else "was never offered the record") if off == 0 or off is None
                            else "accepted a part and was not re-offered the rest", None if x is None else (x["k"], x["s"])), e)
                    return unwinds
                if x["w"] != wid:
                    viol("the record was not written to the writer the factory returned for it (sink %d)" % sk, e)
                    return unwinds
                if method != "flush":
                    b = bytes.fromhex(x["hex"])
                    if b != record[off:]:
                        viol("sink %d was offered %r, expected %s of the record" % (sk, b.decode("utf-8", "replace")[:200], "the whole" if off == 0 else "exactly the unaccepted rest (offset %d)" % off), e)
                        return unwinds
                if x["r"] != tag:
                    rep.tie("harness:scripted-response", False, "case %s thread %d: sink answered %s, the plan says %s" % (c["id"], t, x["r"], tag), {"case": case_min})
                    return unwinds
                pos += 1
            if res == "unwind":
                unwound = True
                break
        if unwound:
            if is_direct:
                unwinds.append([t, e[3]])
            elif e.top:
                unwinds.append([t, e.op])
                aborts = []
        # ---- and what was handed over is exactly one whole record of this event
        if is_direct or record is None:
            continue
        tx = record.decode("utf-8", "replace")
        if e.status == "err":
            if not (tx.startswith("Unable to format the following event. Name: %s;" % e.meta["name"]) and tx.endswith("\n") and tx.count("\n") == 1):
                viol("format error with log_internal_errors: format-error line is %r" % tx[:120], e)
            if e.top:
                aborts = []
            continue
        mt = mask(tx)
        why = check_record(c, e, mt)
        if why:
            is_f9 = classify_f9(c, e, mt, aborts)
            if is_f9:
                f9_counter[0] += 1
            rep.violation("a write is not exactly one whole record of its event: " + why,
                          {"case": case_min, "thread": t, "op": e.op, "marker": e.marker, "write": tx[:400],
                           "preceding_aborted_events": [{"op": a.op, "marker": a.marker} for a in aborts]},
                          finding="F9" if is_f9 else None)
        elif c["format"] == "pretty" and e.kind == "event" and e.top and e.explicit and not e.scope and e.ctx_scope:
            # an explicit ROOT emitted while spans are entered: which spans does the record claim it is in?
            named = [l[len("    in "):] for l in mt.split("\n") if l.startswith("    in ")]
            if named:
                cur = [(sp["target"] + "::" if c["opts"].get("target") else "") + sp["name"] for sp in reversed(e.ctx_scope)]
                is_f131 = len(named) == len(cur) and all(n == k or n.startswith(k + " with ") for n, k in zip(named, cur))
                rep.violation("a Pretty record names span(s) %s for an event that is an explicit root (in no span)%s"
                              % (named[:4], ": the thread's current spans" if is_f131 else ""),
                              {"case": case_min, "thread": t, "op": e.op, "marker": e.marker, "write": tx[:400]},
                              finding="F131" if is_f131 else None)
        if e.top and not unwound:
            aborts = []           # a completed top-level record: the buffer was cleared after it
    if pos != len(calls):
        extra = [(x["k"], x["s"]) for x in calls[pos:pos + 6]]
        viol("one factory call and one write per routed record: %d extra call(s) on the sinks: %s" % (len(calls) - pos, extra), None)
    return unwinds


def check_mutex_exclusion(rep, c, case_min, log):
    """a Mutex leaf's guard is the writer: the pieces of one record (a sink accepting a part at a time) are contiguous
    in that sink's global order whatever the other threads do"""
    by_sink = {}
    for x in log:
        if x.get("mutex") and x["k"] == "write":
            by_sink.setdefault(x["s"], []).append(x)
    for sk, xs in by_sink.items():
        owner = None
        for x in xs:
            if owner is not None and x["t"] != owner:
                rep.violation("records of two threads interleave inside a Mutex-guarded writer (sink %d): thread %d wrote while thread %d's record was incomplete" % (sk, x["t"], owner),
                              {"case": case_min, "sink": sk})
                return
            owner = x["t"] if x["r"] == "part" else None


def run(ctx):
    rep = Report(ctx)
    rep.rule = ("cases = formatter {full,compact,pretty,json} x options (target, level, thread id/name, file/line, ansi, fake timer, "
                "log_internal_errors, span events: random subsets + a sweep of all 16 subsets x timer on/off) x writer expressions of depth <= 4 "
                "over 1-4 sinks (max/min level, predicates, tee, or_else, BoxMakeWriter; Rust-typeable only; leaves: recording MakeWriter, "
                "closure Fn()->W, Mutex<W> accepting a few bytes per write, the real TestWriter) x programs of span enter/exit/record and "
                "events (explicit/root/contextual parents, 0-6 typed fields) on 1-8 threads x histories with a Debug impl that panics / "
                "returns Err / emits a nested event at a random field x sink fault plans (a writer instance's write returns Err / Interrupted / "
                "Ok(0) / accepts a part / panics: random subsets of a record's sinks, and EVERY subset for 9 tee shapes); plus make_writer() "
                "without metadata followed by write_all / write / write_vectored / write_fmt / flush. non-trivial = writer expression with >= 1 tee "
                "and >= 1 or_else, or >= 2 threads, or a history with an aborted format, or a write with a fault plan; distinct = case id")
    rep.trusted_base = [
        "Coq 8.16.1 kernel + vm_compute", "translators/fmtbuf.py + rsparse.py (shape recognition of on_event, impl_tee!, Tee/EitherWriter/MutexGuardWriter io::Write; fails closed via gen_unrecognised = [])",
        "harness h_fmt.rs (recording MakeWriter sinks with scripted faults, dynamic callsites; every combinator and the fmt layer are the real code)",
        "Python oracle: denote / span bookkeeping / token layout per documented format / std's write_all loop",
        "std: default io::Write::write_all / write_fmt / write_vectored on the recording sinks, Box<dyn Write> forwarding"]
    rep.assumptions = [
        "atomicity of a single write call is the sink's property (the recording sinks serialise through a mutex); a sink that accepts only a part "
        "sees ONE write_all = the whole record offered first, then exactly the unaccepted suffixes (std's loop)",
        "the event's scope (C06) and the Debug text of field values are inputs of the record model",
        "ANSI escapes, durations of time.busy/time.idle, ThreadId numbers and the pointer-bearing tail of the 'Unable to format' line are masked",
        "thread names have one width (FmtThreadName pads to the longest name seen by the process)",
        "field values contain no raw newline in Display/raw-Debug position (the property's exclusion); pretty: containment only; JSON content beyond level/fields is C14",
        "what on_event reports on stderr for a failed write (log_internal_errors) is not observed; panicking sinks are scripted for event records and direct calls only"]
    # ---- leg B1: translator
    text, unrec = fmtbuf_tr.main(ctx.repo, None)
    gen_if_changed(os.path.join(vlib.COQ, "gen", "Gen_fmtbuf.v"), text)
    rep.tie("translator:Gen_fmtbuf", not unrec, "; ".join(unrec[:4]), unrec[:1] or None)
    policy = re.search(r"clear_policy : policy := (\w+)\.", text).group(1)
    tee_both = re.search(r"tee_runs_both : bool := (\w+)\.", text).group(1)
    JSON_TIMER_BAILS[0] = re.search(r"json_timer_bails : bool := (\w+)\.", text).group(1) == "true"
    CLOSE_GATED[0] = re.search(r"close_timing_gated : bool := (\w+)\.", text).group(1) == "true"
    rep.extra["close_timing_gated_in_tree"] = CLOSE_GATED[0]
    rep.extra["timer_fallback_in_tree"] = re.search(r"timer_fallback : bool := (\w+)\.", text).group(1)
    rep.extra["clear_policy_in_tree"] = policy
    rep.extra["tee_runs_both_in_tree"] = tee_both
    ctx.log("buffer clearing policy in the tree: %s; impl_tee! runs both writers: %s" % (policy, tee_both))
    # ---- leg A
    rep.proof = coq_prove(ctx, "C13", ["theories/Properties/C13.vo", "theories/Fmt/RecordEval.vo"])
    # ---- implementation
    ok, paths, log = cargo_build(ctx, "fmt", ["h_fmt"], release=ctx.thorough())
    if not ok:
        rep.tie("build:h_fmt", False, vlib.last_error(log))
        return rep
    # ---- cases
    rng = ctx.rng
    cases = []
    twins = []
    if ctx.replay:
        r = json.load(open(ctx.replay))
        c = r.get("case", r)
        c = c.get("case", c) if "threads" not in c else c
        c.setdefault("id", 1)
        c.setdefault("kind", "replay")
        cases = [c]
        outer = r.get("case", r)
        if isinstance(outer, dict) and "twin_case" in outer:      # a TestWriter case is judged against its recording twin
            tw = outer["twin_case"]
            tw.setdefault("kind", "testwriter-rec")
            cases = [tw, c]
            twins.append((tw, c))
    else:
        cases = load_corpus()
        scale = 4 if ctx.thorough() else 1
        plan = [("route", 70), ("content", 60), ("abn", 80), ("conc", 32), ("weird", 24)]
        for kind, n in plan:
            for _ in range(n * scale):
                c = gen_case(rng, 0, kind)
                if kind != "weird" and rng.random() < (0.6 if kind == "conc" else 0.35):
                    add_sink_kinds(rng, c)
                    if kind == "conc" and rng.random() < 0.6:
                        assign_faults(rng, c, 0.3)
                cases.append(c)
        for _ in range(80 * scale):
            cases.append(gen_fault_case(rng, 0))
        for _ in range(scale):
            cases += gen_teefault_cases(rng)
        cases += gen_lifecycle_cases(rng)
        cases += gen_reconf_cases(rng, 16 * scale)
        cases += gen_race_cases(rng, 6 * scale)
        cases += gen_timerfault_cases(rng, 16 * scale)
        poison = gen_poison_cases(rng, 8 * scale)
        cases += poison
        for pc in poison[:4 * scale]:          # the same histories on the build whose locks do not poison (parking_lot feature)
            tw = copy.deepcopy(pc)
            tw["kind"] = "poison-pl"
            tw["pl"] = True
            cases.append(tw)
        for _ in range(6 * scale):
            a, b = gen_testwriter_twins(rng)
            cases += [a, b]
            twins.append((a, b))
        for _ in range(8 * scale):
            cases.append(gen_global_case(rng, 0))
    for i, c in enumerate(cases):
        c["id"] = i + 1
        c.setdefault("global", False)
    obs = run_harness(ctx, rep, paths["h_fmt"], [c for c in cases if not c.get("pl")])
    pl_cases = [c for c in cases if c.get("pl")]
    if pl_cases:        # the build with tracing-subscriber's parking_lot feature: its span-extension locks do not poison
        ok2, paths2, log2 = cargo_build(ctx, "fmt", ["h_fmt_pl"], release=ctx.thorough(), features=["pl"])
        if not ok2:
            rep.tie("build:h_fmt_pl", False, vlib.last_error(log2))
        else:
            obs.update(run_harness(ctx, rep, paths2["h_fmt_pl"], pl_cases))
    ctx.log("harness ran %d cases (%d on the parking_lot build)" % (len(cases), len(pl_cases)))

    # ---- expectations (python bookkeeping), oracle
    per_case = {}
    f9_counter = [0]
    CASE_KEYS = ("format", "opts", "nsinks", "sink_kinds", "writer", "callsites", "threads", "faults", "plans", "timer_faults", "global", "pl", "reloadable")
    for c in cases:
        cid = c["id"]
        o = obs.get(cid)
        rep.count("format:" + c["format"])
        rep.count("kind:" + c["kind"])
        rep.count("threads:%d" % len(c["threads"]))
        st = wexp_stats(c["writer"])
        rep.count("wexp-depth:%d" % st["depth"])
        for k in ("max", "min", "filter", "tee", "orelse", "box"):
            if st.get(k):
                rep.count("wexp:" + k, st[k])
        for i in range(c["nsinks"]):
            if sink_kind(c, i) != "rec":
                rep.count("leaf:" + sink_kind(c, i).split(":")[0])
        rep.count("span-events:{%s}%s" % (",".join(c["opts"].get("span_events", [])), "+timer" if c["opts"].get("timer") else ""))
        for k in ("ansi", "timer", "tid", "tname", "file", "line", "lie"):
            if c["opts"].get(k):
                rep.count("opt:" + k)
        for sc_ in (c.get("plans") or {}).values():
            for x in sc_:
                for r_ in x:
                    rep.count("fault:" + ("accept" if isinstance(r_, dict) and r_["ok"] else "zero" if isinstance(r_, dict) else r_))
        if o is None or "fatal" in o:
            rep.tie("harness:case-%d" % cid, False, "no observation / fatal: %s" % ((o or {}).get("fatal", "missing")), {"case": c})
            continue
        rep.evaluations += 1
        exp_threads = case_items(c)
        per_case[cid] = exp_threads
        case_min = {k: c[k] for k in CASE_KEYS if k in c}
        if o.get("thread_panics"):
            rep.violation("a thread died inside the fmt layer (uncaught panic outside a field's Debug impl)", {"case": case_min, "threads": o["thread_panics"]})
            continue
        by_thread = {}
        for call in o["log"]:
            by_thread.setdefault(call["t"], []).append(call)
        want_caught = [list(x) for x in c.get("_record_unwinds", [])]
        f132 = [False]
        for t, items in enumerate(exp_threads):
            want_caught += check_thread(rep, c, case_min, t, items, by_thread.get(t, []), f9_counter, o.get("caught", []), f132)
        check_mutex_exclusion(rep, c, case_min, o["log"])
        for ov, to in o.get("races", []):
            rep.count("record-race:" + ("overlapped" if ov else "second-call-blocked" if to else "no-gate"))
        if sorted(map(str, o.get("caught", []))) != sorted(map(str, want_caught)):
            rep.tie("harness:caught-panics", False, "case %d: caught %s, expected %s" % (cid, sorted(o.get("caught", [])), sorted(want_caught)), {"case": case_min})
        aborted_any = any((not isinstance(e, tuple)) and e.top and e.status == "panic" for items in exp_threads for e in items)
        nontriv = (st.get("tee", 0) >= 1 and st.get("orelse", 0) >= 1) or len(c["threads"]) >= 2 or aborted_any or bool(c.get("plans"))
        if nontriv:
            rep.nontrivial.add(cid)
        if aborted_any:
            rep.count("history-with-aborted-format")
    rep.extra["f9_shaped_violations"] = f9_counter[0]

    # ---- the real TestWriter against its recording twin
    for a, b in twins:
        oa, ob = obs.get(a["id"]), obs.get(b["id"])
        if not oa or not ob or "log" not in oa or "log" not in ob:
            continue
        want_records = [bytes.fromhex(x["hex"]).decode("utf-8", "replace") for x in oa["log"] if x["k"] == "write" and x["s"] == 0]
        got_text = ob.get("stdout", "")
        rep.count("testwriter-records", len(want_records))
        if a["format"] == "pretty":      # multi-line records: the same lines overall
            want = sorted("".join(want_records).split("\n"))
            okk = sorted(got_text.split("\n")) == want
        else:                            # one line per record: the same records, each whole
            want = sorted(want_records)
            pieces = got_text.split("\n")       # a record may be the bare newline (no level, no target, no field)
            okk = pieces[-1] == "" and sorted(l + "\n" for l in pieces[:-1]) == want
        if not okk:
            rep.violation("TestWriter did not print exactly the records routed to it (one whole record per print)",
                          {"case": {k: b[k] for k in CASE_KEYS if k in b}, "twin_case": {k: a[k] for k in CASE_KEYS if k in a},
                           "printed": got_text[:600], "recording_twin_received": want_records[:8]})

    # ---- model evaluation + correspondence
    requires = ("From Coq Require Import String.\nFrom TV Require Import Fmt.RecordEval.\nLocal Open Scope N_scope.\nLocal Open Scope string_scope.\nLocal Open Scope list_scope.\n"
                "Definition B := str.\n")
    terms = []
    per_case_model = {}
    for c in cases:
        cid = c["id"]
        if cid not in per_case or obs.get(cid) is None:
            continue
        o = obs[cid]
        W = coq_wexp(c["writer"])
        opts = c["opts"]
        lie = cb_(opts.get("lie"))
        if c.get("reloadable") and CLOSE_GATED[0] and c["format"] not in BYTE_FORMATS:
            # JSON (opaque chunks): the model side follows the on_close shape read from the source; the oracle above never does
            per_case_model[cid] = case_items(c, follow_gated=True)
        for t in range(len(c["threads"])):
            segs = segments(per_case_model.get(cid, per_case[cid])[t])
            parts = []
            if c["format"] in BYTE_FORMATS:
                th = "(Thr %s %s)" % (B("wk%02d" % t), B(o["tids_plain" if c["format"] == "pretty" else "tids"][t]))
                O = "(Opts %s %s %s %s %s %s %s)" % tuple(cb_(opts.get(k)) for k in ("timer", "level", "tname", "tid", "target", "file", "line"))
                SC = "(SpanCfg %s %s %s %s)" % tuple(cb_(k in opts.get("span_events", [])) for k in ("new", "enter", "exit", "close"))
                mops = model_ops(c, t)
                assert len(mops) == len(segs), "segment bookkeeping"
                for (kind, payload), (_, sp) in zip(mops, segs):
                    if kind == "ops":
                        if payload:
                            if c.get("reloadable"):
                                if c["format"] == "pretty":
                                    parts.append("eval_pretty_r %s %s %s %s %s [%s]" % (lie, O, SC, W, th, "; ".join(payload)))
                                else:
                                    parts.append("eval_thread_r %s %s %s %s %s %s [%s]" % (lie, "Full" if c["format"] == "full" else "Compact", O, SC, W, th, "; ".join(payload)))
                            elif c.get("pl"):
                                if c["format"] == "pretty":
                                    parts.append("eval_pretty_pl %s %s %s %s %s [%s]" % (lie, O, SC, W, th, "; ".join(payload)))
                                else:
                                    parts.append("eval_thread_pl %s %s %s %s %s %s [%s]" % (lie, "Full" if c["format"] == "full" else "Compact", O, SC, W, th, "; ".join(payload)))
                            elif c["format"] == "pretty":
                                parts.append("eval_pretty_f %s %s %s %s %s [%s] %s" % (lie, O, SC, W, th, "; ".join(payload), coq_plans(c, completion_order(sp))))
                            else:
                                parts.append("eval_thread_f %s %s %s %s %s %s [%s] %s" % (lie, "Full" if c["format"] == "full" else "Compact", O, SC, W, th, "; ".join(payload),
                                                                                      coq_plans(c, completion_order(sp))))
                    else:
                        parts.append("eval_direct_f %s %s %s %s" % (W, COQ_METHOD[sp[2]], B(sp[1]), coq_plan((c.get("plans") or {}).get(plan_key(sp)))))
            else:
                for kind, sp in segs:
                    if kind == "ems":
                        if sp:
                            parts.append("eval_opaque_f %s %s [%s] %s" % (lie, W, "; ".join(opaque_event(it) for it in sp), coq_plans(c, completion_order(sp))))
                    else:
                        parts.append("eval_direct_f %s %s %s %s" % (W, COQ_METHOD[sp[2]], B(sp[1]), coq_plan((c.get("plans") or {}).get(plan_key(sp)))))
            term = " ++ ".join("(%s)" % p_ for p_ in parts) if parts else "(@nil (N*N*N*N))"
            terms.append(((cid, t), term))
    ctx.log("oracle done; evaluating the model on %d thread programs" % len(terms))
    model = None
    try:
        model = coq_eval(ctx, requires, terms, tag="c13cases")
        ctx.log("model evaluated")
    except Exception as ex:
        rep.tie("model-eval", False, str(ex)[:400])
    if model is not None:
        disagree = []
        ncmp = 0
        for c in cases:
            cid = c["id"]
            if cid not in per_case or obs.get(cid) is None:
                continue
            o = obs[cid]
            by_thread = {}
            for call in o["log"]:
                by_thread.setdefault(call["t"], []).append(call)
            for t in range(len(c["threads"])):
                mv = normalise_model(c, [tuple(x) for x in model[(cid, t)]])
                calls = by_thread.get(t, [])
                if c["format"] in BYTE_FORMATS:
                    iv = encode_observed(c, calls)
                else:
                    iv = opaque_observed(c, per_case_model.get(cid, per_case[cid])[t], calls)
                ncmp += 1
                if mv != iv:
                    k = next((i for i, (a, b) in enumerate(zip(mv, iv)) if a != b), min(len(mv), len(iv)))
                    disagree.append({"case_id": cid, "thread": t, "format": c["format"], "first_diff_index": k,
                                     "model": mv[k:k + 2], "impl": iv[k:k + 2],
                                     "case": {kk: c[kk] for kk in CASE_KEYS if kk in c}})
        rep.tie("correspondence:per-thread sink call logs under fault plans (bytes hashed for full/compact, chunk structure for pretty/json)",
                not disagree, "%d of %d thread logs disagree" % (len(disagree), ncmp), disagree[:1] or None)
        rep.traces_validated = ncmp
        if disagree:
            ctx.log("first disagreement: %s" % json.dumps({k: v for k, v in disagree[0].items() if k != "case"}, default=str)[:1500])
    # routing table correspondence on the complete level x kind domain for every generated expression is inside the logs above;
    # additionally compare route/denote/asked of the model with Python's denote on all metadata classes
    try:
        route_terms = []
        metas = [{"level": l, "target": tg, "name": nm, "span": sp} for l in range(1, 6) for tg in ("app", "http::access_log") for nm in ("outer", "event e0") for sp in (False, True)]
        ws = [c["writer"] for c in cases][:400]
        for i in range(0, len(ws), 40):
            chunk = ws[i:i + 40]
            route_terms.append((i, "map (fun w => (eval_route w [%s], route0 w, denote0 w)) [%s]" % ("; ".join(coq_meta(m) for m in metas), "; ".join(coq_wexp(w) for w in chunk))))
        rres = coq_eval(ctx, requires, route_terms, tag="c13route")
        bad = None
        n = 0
        for i in range(0, len(ws), 40):
            for w, (rows, r0, d0) in zip(ws[i:i + 40], rres[i]):
                for m, (r, d, a) in zip(metas, rows):
                    n += 1
                    if not (r == d == a == denote(w, m)) and bad is None:
                        bad = {"writer": w, "meta": m, "model_route": r, "model_denote": d, "model_asked": a, "python_denote": denote(w, m)}
                if not (r0 == d0 == denote(w, None)) and bad is None:
                    bad = {"writer": w, "meta": None, "model_route0": r0, "model_denote0": d0, "python_denote0": denote(w, None)}
        rep.tie("correspondence:model route/denote/asked == driver's denote (%d expression x metadata points)" % n, bad is None, "" if bad is None else "disagreement", bad)
    except Exception as ex:
        rep.tie("model-eval:route", False, str(ex)[:300])

    rep.samples = []
    for c in cases[:400]:
        if len(rep.samples) >= 6:
            break
        o = obs.get(c["id"])
        if o and o.get("log") and (c["kind"] in ("corpus", "abn", "conc")):
            w = next((x for x in o["log"] if x["k"] == "write"), None)
            if w:
                rep.samples.append({"format": c["format"], "writer": c["writer"], "threads": len(c["threads"]), "first_write": bytes.fromhex(w["hex"]).decode("utf-8", "replace")[:160]})
    return rep


def chunk_key(chunks):
    return (len(chunks), py_hash(list(chunks)))


def opaque_observed(case, items, calls):
    """pretty/json: every observed call in the model's encoding, a write being mapped to the chunk structure the
    model uses (2k+1 = whole record of emission k, 2k = what aborted emission k left behind) via the markers"""
    order = completion_order(items)
    written = []          # one entry per expected write call on an observable sink: the emission / direct op it serves
    aborts_before = {}
    aborts = []
    for e in order:
        D = routed(case, e)
        if D is None:
            if e.status == "panic":
                if e.top:
                    aborts.append(e)
            elif e.top:
                aborts = []
            continue
        is_direct = isinstance(e, tuple)
        if not is_direct:
            aborts_before[e.uid] = list(aborts)
        scripts = (case.get("plans") or {}).get(plan_key(e)) or [[] for _ in D]
        method = e[2] if is_direct else "write_all"
        n = len(e[1].encode()) if is_direct else 10 ** 9
        for j, sk in enumerate(D):
            if sink_kind(case, sk) == "test":
                continue
            sc = [] if sink_kind(case, sk).startswith("mutex") else (scripts[j] if j < len(scripts) else [])
            exp, res = sim_calls(sc, method, n)
            if method != "flush":
                written += [e] * len(exp)
            if res == "unwind":
                break
        if not is_direct and e.top:
            aborts = []
    res = []
    wi = 0
    for c in normalise_calls(case, calls):
        if c["k"] == "make":
            if c["meta"] is None:
                res.append((c["s"], 0, 0, 0))
            else:
                m = c["meta"]
                res.append((c["s"], 1, 2 * m["level"] + (1 if m["span"] else 0), enc_meta(m)))
        elif c["k"] == "write":
            raw = bytes.fromhex(c["hex"])
            txt = mask(raw.decode("utf-8", "replace"))
            e = written[wi] if wi < len(written) else None
            wi += 1
            key = (-1, -1)
            if e is None:
                pass
            elif isinstance(e, tuple):
                key = (len(raw), py_hash(raw))
            elif e.status == "err":
                if txt.startswith("Unable to format the following event."):
                    key = chunk_key((2 * e.uid + 1,))
            elif check_record(case, e, txt) is None:
                key = chunk_key((2 * e.uid + 1,))
            elif classify_f9(case, e, txt, aborts_before.get(e.uid, [])):
                key = chunk_key(tuple(2 * a.uid for a in aborts_before[e.uid]) + (2 * e.uid + 1,))
            res.append((c["s"], 2 + RCODE[c.get("r", "ok")]) + key)
        else:
            res.append((c["s"], 3, RCODE[c.get("r", "ok")], 0))
    return res
