"""C10 — which arm of a span/event macro does a corpus template enter through?

`macro_rules!` arm selection itself is rustc's (trusted, see notes/C10.md); this module only answers the coverage
question "is every arm of `event!`, `span!` and the ten level shorthands entered by at least one compiled corpus
template?".  Arm patterns are read from the source (translators/values.py `macro_arms`), turned into a sequence of
abstract matchers, and matched, first arm first, against an abstract token sequence derived from the generator's
description of the template.  Anything it cannot classify is reported (fail closed), never skipped."""
import os
import re
import sys

sys.path.insert(0, os.path.join(os.path.dirname(os.path.dirname(os.path.dirname(os.path.abspath(__file__)))), "translators"))
import values as values_tr  # noqa: E402

MACROS = ["event", "error", "warn", "info", "debug", "trace", "span", "error_span", "warn_span", "info_span", "debug_span", "trace_span"]

ELEMS = [
    (re.compile(r"name:\$name:expr,"), lambda m: ("PFX", "name")),
    (re.compile(r"target:\$target:expr,"), lambda m: ("PFX", "target")),
    (re.compile(r"parent:\$parent:expr,"), lambda m: ("PFX", "parent")),
    (re.compile(r"\$(?:lvl|name):expr"), lambda m: ("EXPR",)),
    (re.compile(r"\{\$\(\$(?:field|fields):tt\)([*+])\}"), lambda m: ("BRACE", m.group(1) == "+")),
    (re.compile(r"\$\(\$k:ident\)\.\+"), lambda m: ("PATH",)),
    (re.compile(r"\$\(\$(?:field|fields|arg|args|rest):tt\)([*+])"), lambda m: ("REST", m.group(1) == "+")),
    (re.compile(r"[?%=,]"), lambda m: ("LIT", m.group(0))),
]


def pattern_elems(wp):
    """whitespace-free arm pattern -> [matcher] or None if some part is not one of the known matcher shapes"""
    out, i = [], 0
    while i < len(wp):
        for rx, mk in ELEMS:
            m = rx.match(wp, i)
            if m:
                out.append(mk(m))
                i = m.end()
                break
        else:
            return None
    if any(e[0] == "REST" for e in out[:-1]):
        return None
    return out


def item_tokens(it):
    sg = [("LIT", it["sigil"])] if it["sigil"] else []
    if it["form"] == "kv":
        key = {"lit": ("STR",), "const": ("BRACE", True)}.get(it["nk"], ("PATH",))
        return [key, ("LIT", "=")] + sg + [("EXPR",)]
    return sg + [("PATH",)]


def tpl_tokens(t):
    """abstract token sequence of the macro invocation the template compiles to (see c10_corpus.rust_of)"""
    toks = []
    if t.kind == "event" and t.name is not None:
        toks.append(("PFX", "name"))
    if t.target is not None:
        toks.append(("PFX", "target"))
    if t.parent is not None:
        toks.append(("PFX", "parent"))
    if t.macro in ("event", "span"):
        toks += [("EXPR",), ("LIT", ",")]
    fmt = []
    if t.fmt is not None:
        fmt = [("STR",)]
        for a in t.fmt["args"]:
            if not a["cap"]:
                fmt += [("LIT", ",")] + ([("PATH",), ("LIT", "=")] if a.get("named") else []) + [("EXPR",)]
    parts = [item_tokens(it) for it in t.items]
    if t.kind == "event" and t.brace:
        toks.append(("BRACE", bool(parts)))
        if fmt:
            toks += [("LIT", ",")] + fmt
        return toks
    if t.kind == "span":
        parts = [[("STR",)]] + parts
    if fmt:
        parts.append(fmt)
    for i, p in enumerate(parts):
        if i:
            toks.append(("LIT", ","))
        toks += p
    if t.trailing:
        toks.append(("LIT", ","))
    return toks


def matches(elems, toks):
    i = 0
    for e in elems:
        if e[0] == "REST":
            return (len(toks) - i) > 0 if e[1] else True
        if i >= len(toks):
            return False
        tk = toks[i]
        if e[0] == "PFX" or e[0] == "LIT":
            ok = tk == e
        elif e[0] == "EXPR":
            ok = tk[0] in ("EXPR", "STR", "PATH")
        elif e[0] == "BRACE":
            ok = tk[0] == "BRACE" and (tk[1] or not e[1])
        elif e[0] == "PATH":
            ok = tk[0] == "PATH"
        else:
            ok = False
        if not ok:
            return False
        i += 1
    return i == len(toks)


def read_arms(repo):
    """{macro: [(whitespace-free pattern, matchers or None)]} for the twelve span/event macros"""
    mr = values_tr.load(repo, "tracing/src/macros.rs")
    out = {}
    for name in MACROS:
        d = values_tr.macro_arms(mr, name)
        arms = d[0][1] if d and len(d) == 1 and d[0][1] else []
        out[name] = [(values_tr.ws(p), pattern_elems(values_tr.ws(p))) for p, _ in arms]
    return out


def prefix_group(elems):
    return ",".join(e[1] for e in elems if e[0] == "PFX") or "-"


def dead(macro_arms_list, k):
    """An arm no compiling invocation can enter through: (a) `?k = ..` / `%k = ..` — a sigil before a `key =` is not a field
    form, whatever matches is rejected downstream by valueset!/fieldset!; (b) a pattern identical to an earlier arm."""
    wp, elems = macro_arms_list[k]
    if any(wp == macro_arms_list[j][0] for j in range(k)):
        return "duplicate of an earlier arm"
    if elems:
        for i in range(len(elems) - 2):
            if elems[i] in (("LIT", "?"), ("LIT", "%")) and elems[i + 1] == ("PATH",) and elems[i + 2] == ("LIT", "="):
                return "sigil before `key =` (not a field form)"
    return None


def coverage(repo, tpls):
    """(unreached live arms [(macro, prefix group, pattern)], problems [str], stats dict)"""
    arms = read_arms(repo)
    hits = {m: [0] * len(a) for m, a in arms.items()}
    problems = []
    for m, a in arms.items():
        if not a:
            problems.append("%s!: no arms read" % m)
        for wp, el in a:
            if el is None:
                problems.append("%s! arm `%s`: pattern not classifiable" % (m, wp[:70]))
    for t in tpls:
        if t.macro not in arms:
            continue
        toks = tpl_tokens(t)
        for k, (wp, el) in enumerate(arms[t.macro]):
            if el is not None and matches(el, toks):
                hits[t.macro][k] += 1
                break
        else:
            problems.append("template %d (%s!) enters through no arm: %s" % (t.id, t.macro, toks[:8]))
    missing, ndead, nlive = [], 0, 0
    for m, a in arms.items():
        for k, (wp, el) in enumerate(a):
            if dead(a, k):
                ndead += 1
                if hits[m][k]:
                    problems.append("%s! arm `%s` is classified dead (%s) but %d templates enter through it" % (m, wp[:60], dead(a, k), hits[m][k]))
                continue
            nlive += 1
            if not hits[m][k]:
                missing.append((m + "!", prefix_group(el or []), wp))
    return missing, problems, {"arms": sum(len(a) for a in arms.values()), "live": nlive, "dead": ndead}
