"""C01 — Caches never change what a collector's own filter decides.

Leg A: coq/theories/Properties/C01.v (inductive invariant over ALL histories; Dispatch/Proofs_C01.v) + the theorems that
       tie the hand-written model to the shapes translators/dispatch_shape.py reads off the source on every run
       (level_enabled!, the guards of event!/span!/enabled!, the interest byte, Interest::and, callsite.rs; Proofs_Shape.v).
Leg B: translator (every run) + correspondence — seeded histories over <=4 real OS threads, <=6 collectors, a 64-entry pool
       of real static callsites, ONE PROCESS PER HISTORY; per op: who received event/new_span, probe results, get_default
       identity, LevelFilter::current() — implementation vs Dispatch/Model.v (`src_run_case` under vm_compute), on TWO
       builds of the same harness: the default one and one with tracing's `max_level_info` (STATIC_MAX_LEVEL = INFO).
Leg C: oracle on the implementation only: every emission followed by a `getdefault t cs` query is judged against the
       *current collector's own* register_callsite/enabled answers (asked of the real object in the harness);
       every delivery, queried or not, must be accepted by the receiving collector's own filter."""
import os

import vlib
from vlib import Report, coq_prove
import props.dispatch_c0102 as D


# ------------------------------------------------------------------------------------------------
# generator

def gen_cols(rng, n, focus_tgts, focus_lvls, malformed):
    cols = []
    for _ in range(n):
        # thresholds around the levels that will actually be emitted, so that collectors disagree
        thr = min(5, max(0, rng.choice(focus_lvls) + rng.choice([-1, 0, 0, 0, 1, 2]))) if rng.random() < 0.8 else rng.randint(0, 5)
        tg = sorted(set([t for t in range(4) if rng.random() < 0.5] + ([rng.choice(focus_tgts)] if rng.random() < 0.85 else [])))
        dyn = rng.choice([0, 0, 0, 1, 2, 2])
        r = rng.random()
        if r < 0.45:
            hint = 0
        elif r < 0.75:
            hint = thr + 1                      # exact
        else:
            hint = rng.randint(thr, 5) + 1      # sound, looser
        if malformed and rng.random() < 0.5 and thr > 0:
            hint = rng.randint(0, thr - 1) + 1  # a lying hint (below the threshold)
        cols.append((thr, tg, dyn, hint))
    return cols


def gen_case(rng, pool, malformed=False):
    nthreads = rng.choice([1, 2, 2, 3, 4])
    ncols = rng.randint(1, 6)
    nops = rng.randint(5, 40)
    # a few focus callsites so that caches are hit repeatedly
    focus = rng.sample(range(len(pool)), rng.randint(2, 5))
    if rng.random() < 0.5:  # two distinct callsites with identical metadata
        focus += [28, 60]
    focus_tgts = sorted({pool[i]["tgt"] for i in focus})
    focus_lvls = sorted({pool[i]["lvl"] for i in focus})
    cols = gen_cols(rng, ncols, focus_tgts, focus_lvls, malformed)
    # `Dispatch::from_static` collectors (zero-sized unit structs in one static: same data address, different collectors):
    # marked by target index 100 in the col line; a static collector's handle is never dropped (its registrar always upgrades)
    statics = set()
    if rng.random() < 0.35:
        statics = {c for c in range(ncols) if rng.random() < 0.6}
        cols = [(thr, tg + [100], dyn, hint) if c in statics else (thr, tg, dyn, hint) for c, (thr, tg, dyn, hint) in enumerate(cols)]
    ops = []
    created = 0
    handle = set()
    depth = [0] * nthreads
    gset = False
    last_emit = None
    while len(ops) < nops:
        r = rng.random()
        t = rng.randrange(nthreads)
        if created == 0 and r < 0.7:
            r = 0.0
        elif created > 0 and handle and not gset and not any(depth) and r < 0.6:
            r = 0.2 if rng.random() < 0.7 else 0.37   # install somebody early: most emissions should have a current collector
        if 0.40 <= r < 0.78 and depth[t] == 0 and not gset and any(depth) and rng.random() < 0.7:
            t = rng.choice([u for u in range(nthreads) if depth[u] > 0])
        if r < 0.10 and created < ncols:
            ops.append(("new",))
            handle.add(created)
            created += 1
        elif r < 0.16 and handle - statics:
            c = rng.choice(sorted(handle - statics))
            ops.append(("drop", c))
            handle.discard(c)
        elif r < 0.28 and (handle or rng.random() < 0.1):
            d = rng.choice(sorted(handle)) + 1 if handle and rng.random() < 0.93 else 0
            ops.append(("open", t, d))
            depth[t] += 1
        elif r < 0.36 and depth[t] > 0:
            k = 0 if rng.random() < 0.85 else rng.randrange(depth[t])
            ops.append(("close", t, k))
            depth[t] -= 1
        elif r < 0.40 and handle and (not gset or rng.random() < 0.3):
            ops.append(("setglobal", t, rng.choice(sorted(handle))))
            gset = True
        elif r < 0.78:
            cs = rng.choice(focus) if rng.random() < 0.9 else rng.randrange(len(pool))
            kind = "probe" if pool[cs]["kind"] == "hint" else "emit"
            ops.append((kind, t, cs))
            if rng.random() < 0.85:
                ops.append(("getdefault", t, cs))
        elif r < 0.84:
            ops.append(("rebuild",))
        elif r < 0.92 and created:
            ops.append(("flip", rng.randrange(created)))
        elif r < 0.94:
            ops.append(("getcurrent", t))
        elif malformed:
            # ops on dead / non-existent ids, closes without a scope
            m = rng.randrange(5)
            if m == 0:
                c = rng.randrange(ncols + 1)
                if c not in statics:
                    ops.append(("drop", c))
            elif m == 1:
                ops.append(("open", t, rng.randrange(ncols + 1) + 1))
                if ops[-1][2] - 1 in handle:
                    depth[t] += 1
            elif m == 2:
                ops.append(("close", t, depth[t] + rng.randrange(2)))
            elif m == 3:
                ops.append(("setglobal", t, rng.randrange(ncols + 1)))
                if ops[-1][2] in handle:
                    gset = True
            else:
                ops.append(("flip", ncols + rng.randrange(2)))
    return {"cols": cols, "ops": ops}


# ------------------------------------------------------------------------------------------------
# oracle (implementation observations only)

def oracle(pool, smax, case, recs):
    """smax: the compile-time cap the oracle holds the implementation to = what the build's feature names CONFIGURE when they
    configure anything (dispatch_c0102.configured_cap), else the level the build reports."""
    """Returns (violations [(what, op_index)], judged, stats)."""
    cols, ops = case["cols"], case["ops"]
    vio = []
    judged = 0
    flags = {}
    created = 0
    all_wf = True
    for i, (o, r) in enumerate(zip(ops, recs)):
        k = o[0]
        if k == "new":
            c = r.get("c")
            if c is not None and c < len(cols):
                flags[c] = cols[c][2] != 1
                all_wf = all_wf and D.hint_sound(cols[c])
            created += 1
        elif k == "flip" and not r.get("bad") and o[1] in flags:
            flags[o[1]] = not flags[o[1]]
        if k in ("emit", "probe"):
            p = pool[o[2]]
            dels = r["del"]
            if len(dels) > 1:
                vio.append(("one emission delivered %d times" % len(dels), i))
            for d in dels:
                c = d[0]
                if [D.KIND_NUM[p["kind"]], p["lvl"], p["tgt"]] != d[1:]:
                    vio.append(("delivery carries foreign metadata %s for callsite %s" % (d, p), i))
                # clause "never cause one it would reject": the receiver's own filter (its configuration + flag now)
                col = cols[c]
                acc = D.py_static_ok(col, p) and (col[2] == 0 or flags.get(c, False))
                if not acc:
                    vio.append(("collector %d received %s although its own filter rejects it" % (c, p), i))
            if k == "probe" and dels:
                vio.append(("enabled! produced a delivery", i))
            # the full iff needs the identity of the thread's current collector: the query that follows
            nxt = ops[i + 1] if i + 1 < len(ops) else None
            if all_wf and nxt and nxt[0] == "getdefault" and nxt[1] == o[1] and nxt[2] == o[2]:
                q = recs[i + 1]
                cur = q["d"]
                if cur > 0 and "own" in q:
                    reg, en = q["own"]
                    own_acc = reg == 2 or (reg == 1 and en == 1)
                    acc = own_acc and p["lvl"] <= smax
                    want = [cur - 1] if acc else []
                    if own_acc and not acc and k == "emit" and [d[0] for d in dels] == [cur - 1]:
                        vio.append(("emission at %s on thread %d was delivered to collector %d although the callsite's level is above the "
                                    "CONFIGURED compile-time cap (%d): the callsite should have been compiled out" % (p, o[1], cur - 1, smax), i))
                        judged += 1
                        continue
                elif cur == 0:
                    acc, want = False, []
                else:
                    continue
                judged += 1
                if k == "emit":
                    got = [d[0] for d in dels]
                    if got != want:
                        vio.append(("emission at %s on thread %d: delivered to %s, but the current collector (%s) %s it "
                                    "(own register_callsite/enabled = %s)" % (p, o[1], got, cur - 1 if cur else "none",
                                                                              "accepts" if acc else "rejects", q.get("own")), i))
                else:
                    if r.get("r") != int(acc):
                        vio.append(("enabled! at %s on thread %d = %s, but the current collector (%s) says %s" %
                                    (p, o[1], r.get("r"), cur - 1 if cur else "none", int(acc)), i))
    return vio, judged, all_wf


def nontrivial(pool, case):
    """drop/rebuild/new between two emissions at the same callsite, or two created collectors that answer
    register_callsite differently for an emitted callsite."""
    ops, cols = case["ops"], case["cols"]
    last = {}
    created = 0
    churn_at = []
    for i, o in enumerate(ops):
        if o[0] in ("drop", "rebuild", "new", "close"):
            churn_at.append(i)
        if o[0] == "new":
            created += 1
        if o[0] in ("emit", "probe"):
            cs = o[2]
            if cs in last and any(last[cs] < j < i for j in churn_at):
                return True
            last[cs] = i
            regs = {D.py_reg(cols[c], pool[cs]) for c in range(min(created, len(cols)))}
            if len(regs) > 1:
                return True
    return False


def registrar_dies(case):
    """Does some collector lose its last strong reference (user handle, every scope / guard prior, the global default) while a
    later op re-evaluates interests (emit of any callsite / Dispatch::new / rebuild)?  Bookkeeping for the histogram only."""
    handle, glob, created = set(), None, 0
    stacks = {}
    dead_seen = False
    for o in case["ops"]:
        k = o[0]
        if k in ("emit", "probe", "new", "rebuild") and dead_seen:
            return True
        if k == "new":
            handle.add(created)
            created += 1
        elif k == "drop":
            handle.discard(o[1])
        elif k == "open" and (o[2] == 0 or o[2] - 1 in handle):
            stacks.setdefault(o[1], []).append(o[2])
        elif k == "close":
            st = stacks.get(o[1], [])
            if o[2] < len(st):
                del st[len(st) - 1 - o[2]]
        elif k == "setglobal" and o[2] in handle and glob is None:
            glob = o[2]
        held = set(handle) | ({glob} if glob is not None else set()) | {d - 1 for st in stacks.values() for d in st if d > 0}
        if any(c not in held for c in range(created)):
            dead_seen = True
    return False


# ------------------------------------------------------------------------------------------------

def run(ctx):
    rep = Report(ctx)
    rep.rule = ("seeded histories (5-40 ops, 1-4 real threads, 1-6 collectors with level threshold x target set x static/dynamic "
                "x optional hint, created with Dispatch::new or (zero-sized, address-sharing) Dispatch::from_static, 64 real static callsites "
                "(span!/event!/enabled!) incl. two with identical metadata, Dispatch::none scopes), "
                "one process per history, on the default build and on a `max_level_info` build. "
                "non-trivial = a drop / close / rebuild / Dispatch::new lies between two emissions at the same callsite, or two "
                "created collectors answer register_callsite differently for an emitted callsite; distinct = distinct op list + filters (+ build)")
    rep.trusted_base = ["Coq 8.16.1 kernel + vm_compute", "harness/dispatch h_dispatch.rs (recording collectors, one OS thread per model thread, one process per history)",
                        "translators/dispatch_shape.py + rsparse.py (shape recognition; fails closed through gen_dispatch_unrecognised = [] and the C01_source_* theorems)",
                        "driver/props/c01.py generator + oracle", "std: Arc/Weak liveness, thread_local!, atomics under sequential consistency (modelled)"]
    # ---- translator (every run): the model's dispatch.rs variant and the guard shapes are read off the source
    d, g = D.translate(ctx, rep)
    fx = D.model_fx(d)
    rep.assumptions = ["every API call is atomic (interleavings inside a call are C04's subject)",
                       "collector callbacks do not emit (no re-entrancy; can_enter is not modelled)",
                       "filters are the property's self-consistent filters: register_callsite never => enabled false, always => enabled true, "
                       "hint (if any) bounds every callsite not answered never (Model.wf_collector)",
                       "span handles are dropped inside the emitting op (a live Span would keep its collector alive)",
                       "STATIC_MAX_LEVEL is a parameter of the model (read from the build; level_filters.rs's feature table is read by the translator); "
                       "a callsite above the compile-time cap is compiled out by documented design and the theorem says so explicitly",
                       "Dispatch::from_static collectors are modelled as collectors whose handle is never dropped (C01_static_collector_stays_live); "
                       "registering the same static collector twice, and no-std paths, are not modelled",
                       "dispatch.rs variant read off the source on this run: " + ("repaired (fix aa353f7)" if d["fx"] else "NOT the repaired shape")]
    # ---- leg A
    rep.proof = coq_prove(ctx, "C01", ["theories/Properties/C01.vo"])
    D.check_source_summary(ctx, rep, d, g)
    # ---- implementation: default build, the capped build, two builds without debug assertions (thorough adds a plain release build)
    BUILD_OF_TAG = {"max_level_info": {"capped": True}, "nodebugassert__max_level_info__release_max_level_trace": {"variant": "rel_trace"},
                    "nodebugassert__max_level_info": {"variant": "rel_info"}, "release": {"release": True},
                    "max_level_info__max_level_debug": {"variant": "info_debug"},
                    "nodebugassert__release_max_level_info__release_max_level_debug": {"variant": "rel_info_debug"}}
    replay_tag = "debug"
    if ctx.replay:
        import json
        j = json.load(open(ctx.replay))
        replay_tag = (j.get("case", j) or {}).get("build", "debug")
    binpath, info = D.build(ctx, rep, **BUILD_OF_TAG.get(replay_tag, {}))
    if binpath is None:
        return rep
    pool = info["pool"]
    if len(pool) != 64:
        rep.tie("pool", False, "expected 64 pool entries, harness reports %d" % len(pool))
        return rep
    cases = {}
    if ctx.replay:
        cases["replay"] = D.load_replay(ctx.replay)
    else:
        cases.update(D.load_corpus("C01"))
        n = 6000 if not ctx.thorough() else 30000
        for i in range(n):
            malformed = (i % 7 == 6)
            cases[("m%d" if malformed else "g%d") % i] = gen_case(ctx.rng, pool, malformed)
    good = explore(ctx, rep, fx, replay_tag if ctx.replay else "debug", binpath, info, cases, g)
    if not ctx.replay:
        builds = [("max_level_info", {"capped": True}, 2000 if not ctx.thorough() else 8000),
                  # builds WITHOUT debug assertions (cargo --release): the release_max_level_* family applies
                  ("nodebugassert__max_level_info__release_max_level_trace", {"variant": "rel_trace"}, 700 if not ctx.thorough() else 4000),
                  ("nodebugassert__max_level_info", {"variant": "rel_info"}, 300 if not ctx.thorough() else 2000),
                  # two features of ONE family (cargo feature unification): the most restrictive one is the configured cap
                  ("max_level_info__max_level_debug", {"variant": "info_debug"}, 400 if not ctx.thorough() else 2000),
                  ("nodebugassert__release_max_level_info__release_max_level_debug", {"variant": "rel_info_debug"}, 300 if not ctx.thorough() else 2000)]
        if ctx.thorough():
            builds.append(("release", {"release": True}, 4000))
        for tag, kw, n in builds:
            b2, info2 = D.build(ctx, rep, **kw)
            if b2 is None:
                continue
            extra = dict(("%s:%s" % (tag, k), v) for k, v in D.load_corpus("C01").items())
            for i in range(n):
                extra["%s:%s%d" % (tag, "m" if i % 7 == 6 else "g", i)] = gen_case(ctx.rng, pool, i % 7 == 6)
            explore(ctx, rep, fx, tag, b2, info2, extra, g)
    rep.samples = [{"history": D.case_text(c).splitlines()} for c in list(good.values())[:2]] + [{"pool_entries": len(pool), "static_max": info["static_max"]}]
    return rep


def explore(ctx, rep, fx, tag, binpath, info, cases, g):
    """Run `cases` on one build of the harness: oracle on the implementation, then the model on the same cases and the diff."""
    pool, smax = info["pool"], info["static_max"]
    want = D.static_max_from_table(g, info["features"], info["release"])
    rep.tie("static_max:%s" % tag, smax == want, "the build reports STATIC_MAX_LEVEL = %d, level_filters.rs's table (as read) says %d for features %s"
            % (smax, want, info["features"]), None if smax == want else {"reported": smax, "table": g["static"]})
    rep.count("build:%s static_max=%d" % (tag, smax), len(cases))
    # the cap the ORACLE holds the implementation to: what the feature names configure for this profile, when they configure anything
    conf_cap = D.configured_cap(info["features"], info["release"])
    cap = smax if conf_cap is None else conf_cap
    rep.tie("static_cap:%s" % tag, cap == smax, "STATIC_MAX_LEVEL = %d; the selected features %s configure %s for a build %s debug assertions"
            % (smax, info["features"], "nothing" if conf_cap is None else conf_cap, "without" if info["release"] else "with"),
            None if cap == smax else {"reported": smax, "configured": conf_cap, "features": info["features"], "release": info["release"]})
    ctx.log("running %d histories on the implementation" % len(cases))
    impl = D.run_impl(ctx, binpath, cases)
    bad_runs = [cid for cid in cases if cid not in impl or impl[cid]["rc"] != 0 or len(impl[cid]["out"]) != len(cases[cid]["ops"])]
    if bad_runs:
        c = bad_runs[0]
        rep.tie("run:h_dispatch:" + tag, False, "%d histories crashed / hung / truncated" % len(bad_runs),
                {"case": cases[c], "impl": impl.get(c)})
    # ---- oracle
    judged_total = 0
    for cid, case in cases.items():
        if cid in bad_runs:
            continue
        recs = impl[cid]["out"]
        vio, judged, all_wf = oracle(pool, cap, case, recs)
        judged_total += judged
        rep.evaluations += 1
        rep.count("wf" if all_wf else "malformed-filters(oracle restricted to the 'never deliver a rejected one' clause)")
        rep.count("len:%d-%d" % (len(case["ops"]) // 10 * 10, len(case["ops"]) // 10 * 10 + 9))
        for o in case["ops"]:
            rep.count("op:" + o[0])
        if nontrivial(pool, case):
            rep.nontrivial.add(("" if tag == "debug" else tag + "\n") + D.case_text(case))
        nst = sum(1 for col in case["cols"] if 100 in col[1])
        if nst:
            rep.count("histories with Dispatch::from_static collectors (zero-sized, sharing an address)")
            if nst > 1:
                rep.count("histories with two or more from_static collectors")
        if registrar_dies(case):
            rep.count("histories in which a registrar dies (last strong reference gone) before a later emit / Dispatch::new / rebuild")
        for o, r in zip(case["ops"], recs):
            if r["k"] == "emit":
                rep.count("emit:%s:%s" % (pool[o[2]]["kind"], "delivered" if r["del"] else "not-delivered"))
                if pool[o[2]]["lvl"] > smax:
                    rep.count("emit:above the compile-time cap")
                elif info["release"] and pool[o[2]]["lvl"] > 3:
                    rep.count("emit:DEBUG/TRACE callsite in a build without debug assertions (cap %d)" % smax)
            elif r["k"] == "probe":
                rep.count("probe:%s" % ("true" if r.get("r") else "false"))
            elif r["k"] == "open" and o[2] == 0 and not r.get("bad"):
                rep.count("scope:Dispatch::none")
        if vio and len(rep.violations) >= 3:
            if len(rep.violations) < 10:   # enough shrunk replays already: report the rest as found
                rep.violation(vio[0][0], {"cols": case["cols"], "ops": case["ops"], "text": D.case_text(case), "found_in": cid, "build": tag})
        elif vio:
            what, at = vio[0]

            def violates(c2):
                rc, recs2 = D.run_impl_one(binpath, c2)
                return rc == 0 and len(recs2) == len(c2["ops"]) and bool(oracle(pool, cap, c2, recs2)[0])
            small = D.shrink({"cols": case["cols"], "ops": case["ops"][:at + 2]}, violates)
            rc, recs2 = D.run_impl_one(binpath, small)
            v2 = oracle(pool, cap, small, recs2)[0]
            rep.violation(v2[0][0] if v2 else what, {"cols": small["cols"], "ops": small["ops"], "text": D.case_text(small),
                                                      "observed": recs2, "found_in": cid, "build": tag})
    rep.count("emissions judged against the current collector's own answers", judged_total)
    # ---- model + tie
    try:
        good = {cid: c for cid, c in cases.items() if cid not in bad_runs}
        model = D.run_model(ctx, pool, smax, good, fx, what=("run",), tag="cases_" + tag)
        dis = []
        for cid, case in good.items():
            d = D.diff_case(pool, case, impl[cid]["out"], model[cid]["run"])
            if d:
                d["case_id"] = cid
                d["text"] = D.case_text(case)
                dis.append(d)
        rep.tie("correspondence:run_case:" + tag, not dis, "%d of %d histories disagree" % (len(dis), len(good)), dis[:1] or None)
        rep.traces_validated += len(good) - len(dis)
    except Exception as ex:
        rep.tie("model-eval:" + tag, False, str(ex)[:400])
    return {cid: c for cid, c in cases.items() if cid not in bad_runs}
