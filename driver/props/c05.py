"""C05 — A registry span closes exactly once, after its last reference and last child.

Leg A: coq/theories/Properties/C05.v — inductive invariant over ALL histories of the op-level model
       Registry/Model.v (any number of threads / instances / Layered frames), plus the schedule theorems of the
       reference-count micro-step system Registry/Micro.v (every interleaving of fetch_add / fetch_sub / slot clear).
Leg B: correspondence — seeded histories (two real `Registry` instances with 2-3 `Layered` frames each, three real OS
       threads, all parent kinds, clones, raw enter/exit, EnteredSpan guards, Span::current / SpanTrace captures, scoped
       and global defaults incl. foreign / none) executed by harness/registry h_registry.rs and by `Model.run_case`
       under vm_compute; compared op by op (layer callbacks with their lookups, panics, user-side reads).  The model's
       `ORoute` observations (= the OwnDefault hypothesis of the theorems) are cross-checked against the oracle's own
       mis-route detection.
Leg C: oracle — an abstract specification (handles / entries / open children per span; no reference counts, slots or
       stacks) judged against the IMPLEMENTATION's observations.  A failure is attributed to F2 only when every span
       it concerns was touched by a release that `dispatch::get_default` routed to a collector other than its own."""
from vlib import Report
import props.regcommon as R

RULE = ("seeded histories over 2 registry instances x 3 OS threads (8-90 ops, <=12 spans, modes single / two / chaos, 8% with "
        "ill-formed ops), corpus first. non-trivial (C05) = the history closes >=1 span that had a child AND has >=1 out-of-order "
        "exit or a last handle dropped while the span is entered; distinct = distinct case id (distinct op list)")


def run(ctx):
    rep = Report(ctx)
    rep.rule = RULE
    rep.trusted_base = R.TRUSTED
    rep.assumptions = R.ASSUMPTIONS_C05
    return R.run_common(ctx, "C05", rep, ["theories/Properties/C05.vo"])


def replay(ctx, payload):
    rep = Report(ctx)
    rep.rule = "replay of one recorded failing input"
    rep.trusted_base = R.TRUSTED
    rep.assumptions = R.ASSUMPTIONS_C05
    return R.replay_common(ctx, "C05", rep, payload, ["theories/Properties/C05.vo"])
