"""C02 — An emission goes to the thread's scoped default, else to the global default.

Leg A: coq/theories/Properties/C02.v: refinement to "scope stack per thread + write-once global cell" for EVERY nested
       history, stated about `run src_fx` where src_fx is the dispatch.rs variant translators/dispatch_shape.py reads off
       the source on every run (so reverting fix aa353f7 makes the file stop compiling); who receives an emission; thread
       frame (state and observable); unwinding (specification and code state); set_global_default's micro-steps under every
       interleaving and at call granularity; the refutation of the unrepaired variant (F1's replay) kept as a lemma.
Leg B: correspondence, ONE PROCESS PER HISTORY (the global default can be set once per process): real OS threads,
       set_default guards, real panics unwinding through with_default, set_global_default at every position incl. never;
       emissions whose receiving collector's callback PANICS (caught by catch_unwind) and/or emits re-entrantly, on the fast
       and the slow path; implementation vs Dispatch/Model.v + Dispatch/Reentry.v op by op; plus two cross-checks of the Coq side against this file:
       Model.aspec == the Python specification below, and every implementation/spec mismatch lies in Model.F1_class.
Leg C: oracle = the specification (a stack per thread + a write-once cell), computed HERE from the op list, against who
       actually received each emission / what get_default, Dispatch::default-style queries and get_current returned."""
import os
import sys

import vlib
from vlib import Report, coq_prove
import props.dispatch_c0102 as D

ALL_PASS = (5, [0, 1, 2, 3], 0, 0)


# ------------------------------------------------------------------------------------------------
# generator

def gen_case(rng, pool, malformed=False, init=False):
    nthreads = rng.choice([1, 2, 2, 3, 3, 4])
    ncols = rng.randint(2, 5)
    nops = rng.randint(6, 36)
    cols = []
    for _ in range(ncols):
        if rng.random() < 0.8:
            cols.append(ALL_PASS)
        else:
            cols.append((rng.randint(2, 5), sorted(set(rng.sample(range(4), rng.randint(1, 4)) + [0])), rng.choice([0, 0, 2]), 0))
    events = [i for i, p in enumerate(pool) if p["kind"] != "hint" and p["tgt"] == 0 and p["lvl"] <= 3]
    ops = [("new",) for _ in range(rng.randint(1, ncols))]
    created = len(ops)
    handle = set(range(created))
    depth = [0] * nthreads
    gset = False
    # where set_global_default goes: never (25%), early, middle, late; sometimes attempted again
    glob_at = None if rng.random() < 0.25 else rng.randint(created, nops)
    while len(ops) < nops:
        if glob_at is not None and len(ops) >= glob_at and not gset and handle:
            if init and created < ncols and rng.random() < 0.7:
                # the public wrapper: tracing-subscriber's try_init on a fresh collector — must behave exactly like set_global_default
                ops.append(("tryinit", rng.randrange(nthreads)))
                created += 1
            else:
                ops.append(("setglobal", rng.randrange(nthreads), rng.choice(sorted(handle))))
            gset = True
            continue
        r = rng.random()
        t = rng.randrange(nthreads)
        if r < 0.05 and created < ncols:
            ops.append(("new",))
            handle.add(created)
            created += 1
        elif r < 0.08 and handle and len(handle) > 1:
            c = rng.choice(sorted(handle))
            ops.append(("drop", c))
            handle.discard(c)
        elif r < 0.26 and (handle or rng.random() < 0.2):
            d = 0 if (not handle or rng.random() < 0.08) else rng.choice(sorted(handle)) + 1
            ops.append(("open", t, d))
            depth[t] += 1
        elif r < 0.42 and any(depth):
            if depth[t] == 0:
                t = rng.choice([u for u in range(nthreads) if depth[u] > 0])
            k = 0
            if malformed and depth[t] > 1 and rng.random() < 0.5:
                k = rng.randrange(1, depth[t])     # out-of-order guard drop: not "properly nested"
            ops.append(("close", t, k))
            depth[t] -= 1
        elif r < 0.46 and handle and gset:
            if init and created < ncols and rng.random() < 0.5:
                ops.append(("tryinit", t))                             # a second attempt must fail (and its collector dies)
                created += 1
            else:
                ops.append(("setglobal", t, rng.choice(sorted(handle))))   # a second attempt must fail
        elif r < 0.50 and created:
            # an emission whose receiving collector's callback panics (caught) and/or emits re-entrantly — on whatever path the
            # thread is on (fast: no scope anywhere; slow: inside its own scope, or through the global default while another
            # thread holds a scope) — followed, usually, by a plain emission and a lookup on the SAME thread
            k = rng.choice([1, 1, 1, 2, 3])
            if not gset and depth[t] == 0 and any(depth) and rng.random() < 0.85:
                t = rng.choice([u for u in range(nthreads) if depth[u] > 0])   # a thread that has a collector to call back
            ops.append(("emitcb", t, rng.choice(events), k, rng.choice(events)))
            if rng.random() < 0.8:
                ops.append(("emit", t, rng.choice(events)))
            if rng.random() < 0.5:
                ops.append(("getdefault", t, None))
            elif rng.random() < 0.2:
                ops.append(("getcurrent", t))
        elif r < 0.515 and handle and len(ops) > created + 2 and not malformed:
            # a thread exits while a DefaultGuard of its innermost scope is owned by a thread-local that outlives tracing-core's own
            cand = [u for u in range(nthreads) if any(depth[v] for v in range(nthreads) if v != u)]
            if cand and rng.random() < 0.8:
                t = rng.choice(cand)
            ops.append(("exitguard", t, rng.choice(sorted(handle)) + 1))
            depth[t] = 0
            for u in range(nthreads):
                if u != t and depth[u] > 0 and rng.random() < 0.8:
                    ops.append(("emit", u, rng.choice(events)))
        elif r < 0.53 and handle and len(ops) > created + 2 and not malformed:
            # a thread exits; its thread-local destructors open scopes (one of them after tracing-core's own thread-local is gone).
            # Prefer a thread without scopes while ANOTHER thread holds one, then let the others emit.
            cand = [u for u in range(nthreads) if depth[u] == 0 and any(depth[v] for v in range(nthreads) if v != u)]
            if cand and rng.random() < 0.8:
                t = rng.choice(cand)
            ops.append(("exit", t, rng.choice(sorted(handle)) + 1, rng.choice(events)))
            depth[t] = 0
            for u in range(nthreads):
                if u != t and depth[u] > 0 and rng.random() < 0.8:
                    ops.append(("emit", u, rng.choice(events)))
        elif r < 0.70:
            ops.append(("emit", t, rng.choice(events)))
        elif r < 0.86:
            ops.append(("getdefault", t, None))
        elif r < 0.89:
            ops.append(("getcurrent", t))
        elif r < 0.94 and handle:
            ds = [(0 if rng.random() < 0.1 else rng.choice(sorted(handle)) + 1) for _ in range(rng.randint(1, 3))]
            ops.append(("panic", t, ds))
        elif r < 0.96:
            ops.append(("rebuild",))
        elif malformed:
            m = rng.randrange(3)
            if m == 0:
                ops.append(("open", t, rng.randrange(ncols + 1) + 1))
                if ops[-1][2] - 1 in handle:
                    depth[t] += 1
            elif m == 1:
                ops.append(("close", t, depth[t] + rng.randrange(2)))
            else:
                ops.append(("setglobal", t, rng.randrange(ncols + 1)))
                if ops[-1][2] in handle and not gset:
                    gset = True
    return {"cols": cols, "ops": ops}


# ------------------------------------------------------------------------------------------------
# the specification, in Python: a scope stack per thread + a write-once global cell

class Spec:
    def __init__(self, cols):
        self.cols = cols
        self.created = 0
        self.handle = set()
        self.flags = {}
        self.stack = {}
        self.glob = None
        self.nested = True
        # shape of finding F1 (for attribution only): did the thread use the dispatcher before the global default existed?
        self.used_before_global = {}

    def default(self, t):
        st = self.stack.get(t, [])
        if st:
            return st[-1]
        return 0 if self.glob is None else self.glob + 1

    def scopes_live(self):
        return sum(len(s) for s in self.stack.values())

    def valid(self, d):
        return d == 0 or (d - 1) in self.handle

    def note_use(self, t, slow_or_current):
        if slow_or_current and t not in self.used_before_global:
            self.used_before_global[t] = self.glob is None

    def accepts(self, c, p):
        col = self.cols[c] if c < len(self.cols) else None
        if col is None:
            return False
        return D.py_static_ok(col, p) and (col[2] == 0 or self.flags.get(c, False))

    def step(self, pool, o):
        """Returns the expectation for this op: dict with any of d (default handed out), bad, ok, recv (list)."""
        k = o[0]
        if k == "new":
            c = self.created
            self.created += 1
            self.handle.add(c)
            if c < len(self.cols):
                self.flags[c] = self.cols[c][2] != 1
            return {"c": c}
        if k == "drop":
            if o[1] in self.handle:
                self.handle.discard(o[1])
                return {}
            return {"bad": 1}
        if k == "flip":
            if o[1] < self.created:
                self.flags[o[1]] = not self.flags.get(o[1], False)
                return {}
            return {"bad": 1}
        if k == "open":
            if not self.valid(o[2]):
                return {"bad": 1}
            self.note_use(o[1], True)
            self.stack.setdefault(o[1], []).append(o[2])
            return {}
        if k == "close":
            st = self.stack.get(o[1], [])
            if o[2] != 0:
                self.nested = False
            if o[2] >= len(st):
                return {"bad": 1}
            del st[len(st) - 1 - o[2]]
            return {}
        if k == "setglobal":
            if o[2] not in self.handle:
                return {"bad": 1}
            if self.glob is None:
                self.glob = o[2]
                return {"ok": 1}
            return {"ok": 0}
        if k in ("getdefault", "getcurrent"):
            self.note_use(o[1], k == "getcurrent" or self.scopes_live() > 0)
            return {"d": self.default(o[1])}
        if k in ("emit", "probe", "emitcb"):
            d = self.default(o[1])
            p = pool[o[2]]
            self.note_use(o[1], self.scopes_live() > 0)     # over-approximation: the macro may not have asked (attribution only)
            acc = d > 0 and self.accepts(d - 1, p)
            if k == "emit":
                return {"recv": [d - 1] if acc else [], "cur": d}
            if k == "emitcb":
                # the OUTER emission obeys the property like any other; the callback panics iff it ran (= the emission was received)
                # and was told to.  What an emission from INSIDE the callback reaches is not judged here (get_default must not be
                # nested, documented); that the thread is unaffected AFTERWARDS is judged by every later op.
                return {"recv": [d - 1] if acc else [], "cur": d, "outer_only": 1, "panic": int(acc and o[3] in (1, 3))}
            return {"r": int(acc), "cur": d}
        if k == "tryinit":
            c = self.created
            self.created += 1
            if c < len(self.cols):
                self.flags[c] = self.cols[c][2] != 1
            if self.glob is None:
                self.glob = c
                return {"c": c, "ok": 1}
            return {"c": c, "ok": 0}
        if k == "exitguard":
            if not self.valid(o[2]):
                return {"bad": 1}
            self.stack[o[1]] = []       # the thread is gone with all its scopes; nothing else may change for anybody
            return {}
        if k == "exit":
            if not self.valid(o[2]):
                return {"bad": 1}
            # the thread's scopes unwind; each of its two destructors emits inside its own with_default(&d) scope.  The property
            # sends such an emission to d (if d accepts it); the one made after the thread-local is destroyed reaches nobody (every
            # try_with fails) — so: at least one and at most two deliveries, all to d; nothing else is demanded here.  That the
            # OTHER threads are unaffected is judged by every later op.
            self.stack[o[1]] = []
            d = o[2]
            acc = d > 0 and self.accepts(d - 1, pool[o[3]])
            return {"exit_to": d - 1 if acc else None}
        if k == "panic":
            if not all(self.valid(d) for d in o[2]):
                return {"bad": 1}
            self.note_use(o[1], True)
            return {"d": o[2][-1], "unwound": 1}
        return {}

    def f1_shape(self, o):
        """The specific failing shape of F1 at op o (checked BEFORE stepping o): the thread has no live scope of its own, the
        global default is set, the thread used the dispatcher machinery before it was, and the slow path is taken."""
        if o[0] not in ("emit", "probe", "getdefault", "getcurrent", "emitcb"):
            return False
        t = o[1]
        return (not self.stack.get(t) and self.glob is not None and self.used_before_global.get(t) is True
                and (o[0] == "getcurrent" or self.scopes_live() > 0))


def oracle(pool, case, recs):
    """[(what, op_index, is_f1_shape)] and the per-op expected defaults (for cross-checking Coq's aspec)."""
    sp = Spec(case["cols"])
    vio = []
    spec_rows = []
    judged = 0
    for i, (o, r) in enumerate(zip(case["ops"], recs)):
        f1 = sp.f1_shape(o)
        nested_before = sp.nested
        e = sp.step(pool, o)
        spec_rows.append(e)
        if not sp.nested or not nested_before:
            continue            # the property speaks of properly nested scopes only
        k = o[0]
        if "bad" in e:
            if not r.get("bad"):
                vio.append(("op %s accepted although it refers to a dropped handle / no live guard" % (list(o),), i, False))
            continue
        if r.get("bad"):
            vio.append(("op %s refused" % (list(o),), i, False))
            continue
        if "exit_to" in e:
            judged += 1
            got = [d[0] for d in r["del"]]
            want = e["exit_to"]
            if (want is None and got) or (want is not None and (not got or len(got) > 2 or any(g != want for g in got))):
                vio.append(("thread %d exits; its destructors emit inside with_default(collector %s): received by %s" %
                            (o[1], o[2] - 1 if o[2] else "none", got), i, False))
        if "ok" in e:
            judged += 1
            if r.get("ok") != e["ok"]:
                vio.append(("%s returned %s, a write-once cell says %s" % ("SubscriberInitExt::try_init" if k == "tryinit" else "set_global_default",
                                                                              r.get("ok"), e["ok"]), i, False))
        if "d" in e:
            judged += 1
            if r.get("d") != e["d"]:
                lost = f1 and r.get("d") == 0
                vio.append(("%s on thread %d handed out dispatcher %s, specification says %s (0 = none, c+1 = collector c)"
                            % (k, o[1], r.get("d"), e["d"]), i, lost))
            if k == "panic" and r.get("unwound") != 1:
                vio.append(("panic did not unwind", i, False))
        if "recv" in e:
            judged += 1
            got = [d[0] for d in r["del"]]
            if e.get("outer_only"):
                got = got[:1]
                if r.get("panic") != e["panic"]:
                    vio.append(("emission on thread %d whose collector callback %s: the macro call %s" %
                                (o[1], "panics" if o[3] in (1, 3) else "returns", "unwound" if r.get("panic") else "returned normally"), i, False))
            if got != e["recv"]:
                lost = f1 and got == [] and e["cur"] > 0
                vio.append(("emission on thread %d received by %s, specification says %s (thread's default = %s)"
                            % (o[1], got, e["recv"], e["cur"]), i, lost))
        if "r" in e and k == "probe":
            judged += 1
            if r.get("r") != e["r"]:
                lost = f1 and r.get("r") == 0
                vio.append(("enabled! on thread %d = %s, specification says %s" % (o[1], r.get("r"), e["r"]), i, lost))
    return vio, judged, sp.nested, spec_rows


def nontrivial(case):
    seen_close = False
    used = False
    for o in case["ops"]:
        if o[0] in ("close", "panic"):
            seen_close = True
        if o[0] in ("emit", "getdefault", "getcurrent", "probe", "emitcb") and seen_close:
            return True
        if o[0] == "setglobal" and used:
            return True
        if o[0] in ("open", "emit", "getdefault", "getcurrent", "panic", "emitcb", "exit", "exitguard"):
            used = True
        if o[0] in ("exit", "exitguard"):
            seen_close = True
        if o[0] == "emitcb":
            seen_close = True       # an emission / lookup after a callback that panicked or emitted is non-trivial too
    return False


def spec_rows_vs_coq(case, spec_rows, coq_spec):
    """Python specification vs Model.aspec (over the expanded ops)."""
    _, idx = D.expand(case["ops"])
    for i, (o, e, pos) in enumerate(zip(case["ops"], spec_rows, idx)):
        if o[0] == "close" and o[2] != 0:
            return None         # Model.aspec is only meant for properly nested histories (it ignores k)
        if o[0] == "exitguard":
            continue                         # closes / an open / a close: all "any" (or refused no-ops) for the specification
        if o[0] == "tryinit":
            row = coq_spec[pos[1]]
            if row != [1, e["ok"]]:
                return {"op_index": i, "python": e, "coq": row, "want": [1, e["ok"]]}
            continue
        if o[0] == "exit":
            if "bad" in e:
                continue
            row = coq_spec[pos[-3]]          # the emission of the destructor that runs inside an ordinary scope on d
            if row != [0, o[2]]:
                return {"op_index": i, "python": e, "coq": row, "want": [0, o[2]]}
            continue
        if o[0] == "panic":
            if "bad" in e:
                continue
            row = coq_spec[pos[len(o[2])]]
            if row != [0, e["d"]]:
                return {"op_index": i, "python": e, "coq": row}
            continue
        row = coq_spec[pos[0]]
        if "bad" in e:
            want = [2]
        elif "ok" in e:
            want = [1, e["ok"]]
        elif "d" in e:
            want = [0, e["d"]]
        elif "cur" in e:
            want = [0, e["cur"]]
        else:
            want = [3]
        if row != want:
            return {"op_index": i, "python": e, "coq": row, "want": want}
    return None


# ------------------------------------------------------------------------------------------------
# forced schedules of racing set_global_default calls (needs the H3 call sites 70/71/72: hooks/H3_dispatch_global.patch)

SCHED_REQUIRES = ("From Coq Require Import NArith List.\nImport ListNotations.\n"
                  "From TV Require Import Dispatch.Model Dispatch.SetGlobalSched.\nLocal Open Scope N_scope.")


def sched_text(c):
    return "threads %d\nsched %s\n" % (c["threads"], " ".join(map(str, c["sched"])))


def sched_oracle(c, rows):
    """The property's clause on the implementation's observations alone: at most one call ever returns Ok; once every call has
    returned exactly one did; get_global() is the no-op dispatcher until the winner has returned and the winner's dispatcher from
    then on (never a loser's, never a half-written one); an emission goes to exactly that dispatcher."""
    n = c["threads"]
    for i, r in enumerate(rows):
        oks = [u for u in range(n) if r["res"][u] == 1]
        if len(oks) > 1:
            return "set_global_default returned Ok for %d racing calls (threads %s)" % (len(oks), oks), i
        if r["g"] != 0 and (r["g"] - 1 not in oks):
            return "get_global() hands out collector %d although its set_global_default call has not returned Ok (results %s)" % (r["g"] - 1, r["res"]), i
        if oks and r["g"] != oks[0] + 1:
            return "set_global_default of thread %d returned Ok but get_global() hands out %d (0 = none, c+1 = collector c)" % (oks[0], r["g"]), i
        if r["recv"] != ([r["g"] - 1] if r["g"] > 0 else []):
            return "an emission with no scope anywhere was received by %s while the global default is %d" % (r["recv"], r["g"]), i
        if 0 not in r["res"] and len(oks) != 1:
            return "every racing call has returned and %d of them returned Ok" % len(oks), i
    return None


def schedules(ctx, rep, d, only=None):
    hooks = d.get("hooks_setglobal", [])
    if sorted(hooks) != [70, 71, 72]:
        rep.count("set_global_default forced-schedule leg: SKIPPED (no H3 call sites 70/71/72 in set_global_default: hooks/H3_dispatch_global.patch not applied)")
        rep.assumptions.append("schedules of set_global_default's real micro-steps are not forced on this tree (H3 call sites 70/71/72 absent); "
                               "the micro-step model is tied to the source by the translator (C02_global_init_numbers) only")
        return
    ok, paths, log = vlib.cargo_build(ctx, "dispatch", ["h_setglobal"])
    if not ok:
        rep.tie("build:h_setglobal", False, vlib.last_error(log))
        return
    exe = paths["h_setglobal"]
    cases = {}
    if only is not None:
        cases["replay"] = only
    else:
        import itertools
        for sch in itertools.product(range(2), repeat=6):            # two racing calls: EVERY schedule (and, by prefixes, every partial one)
            cases["n2:" + "".join(map(str, sch))] = {"threads": 2, "sched": list(sch)}
        if ctx.thorough():
            for sch in itertools.product(range(3), repeat=7):        # three racing calls: every schedule of 7 turns (5 suffice to finish)
                cases["n3:" + "".join(map(str, sch))] = {"threads": 3, "sched": list(sch)}
        else:
            for i in range(160):
                n = ctx.rng.choice([3, 3, 4])
                cases["r%d" % i] = {"threads": n, "sched": [ctx.rng.randrange(n + (1 if i % 10 == 9 else 0)) for _ in range(ctx.rng.randint(3, 9))]}
    path = os.path.join(ctx.work, "setglobal.cases")
    with open(path, "w") as f:
        for cid, c in cases.items():
            f.write("case %s\n%s" % (cid, sched_text(c)))
    rc, out = vlib.run_bin(exe, ["--batch", path, str(vlib.NCPU)], timeout=1800)
    import json
    impl = {}
    for l in out.splitlines():
        if l.startswith("{"):
            r = json.loads(l)
            impl[r["case"]] = r
    bad = [cid for cid in cases if cid not in impl or impl[cid]["rc"] != 0 or len(impl[cid]["out"]) != len(cases[cid]["sched"]) + 1]
    if bad:
        rep.tie("run:h_setglobal", False, "%d schedules crashed / hung / truncated" % len(bad), {"case": cases[bad[0]], "impl": impl.get(bad[0])})
    good = [cid for cid in cases if cid not in bad]
    nviol = 0
    for cid in good:
        c = cases[cid]
        rows = impl[cid]["out"][1:]
        rep.evaluations += 1
        rep.count("forced schedules of %d racing set_global_default calls" % c["threads"])
        if any(r["res"].count(0) == 0 for r in rows):
            rep.count("forced schedules in which every racing call returned")
        rep.nontrivial.add("setglobal " + sched_text(c))
        v = sched_oracle(c, rows)
        if v and nviol < 3:
            nviol += 1
            what, at = v
            small = {"threads": c["threads"], "sched": c["sched"][:at + 1]}
            rep.violation(what, {"threads": small["threads"], "sched": small["sched"], "text": sched_text(small), "observed": rows[:at + 1], "found_in": cid})
    try:
        ids = good
        terms = []
        # turns of a thread that does not exist (malformed stream) are no-ops for the implementation: the model gets the schedule without them
        valid = {c: [t for t in cases[c]["sched"] if t < cases[c]["threads"]] for c in ids}
        for i in range(0, len(ids), 200):
            part = ids[i:i + 200]
            terms.append(("s%d" % i, "[" + "; ".join("sg_case %d [%s]" % (cases[c]["threads"], "; ".join(map(str, valid[c]))) for c in part) + "]"))
        res = vlib.coq_eval(ctx, SCHED_REQUIRES, terms, tag="setglobal", shards=min(vlib.NCPU, max(1, len(terms))))
        dis = []
        for i in range(0, len(ids), 200):
            for cid, mrows in zip(ids[i:i + 200], res["s%d" % i]):
                rows = impl[cid]["out"][1:]
                n = cases[cid]["threads"]
                prev = [impl[cid]["out"][0]["g0"]] + [0] * n
                k2 = 0
                for k, r in enumerate(rows):
                    t = cases[cid]["sched"][k]
                    if t < n:
                        m = mrows[k2]
                        k2 += 1
                        got = [r["g"], r["pc"]] + r["res"]
                        want = list(m)
                        prev = [m[0]] + list(m[2:])
                    else:
                        got = [r["g"]] + r["res"]
                        want = prev
                    if got != want:
                        dis.append({"case_id": cid, "case": cases[cid], "turn": k, "impl": got, "model": want})
                        break
        rep.tie("correspondence:set_global_default micro-steps under forced schedules (Model.sg_step)", not dis,
                "%d of %d schedules disagree" % (len(dis), len(ids)), dis[:1] or None)
        rep.traces_validated += len(ids) - len(dis)
    except Exception as ex:
        rep.tie("model-eval:setglobal", False, str(ex)[:400])


def run(ctx):
    rep = Report(ctx)
    # ---- translator (every run): the model's dispatch.rs variant is read off the source, never from a state file
    d, g = D.translate(ctx, rep, guard_too=False)
    fx = D.model_fx(d)
    rep.rule = ("seeded histories (6-36 ops, 1-4 real threads, 2-5 collectors, set_global_default at every position incl. never and "
                "repeated, nested scopes incl. Dispatch::none scopes, real panics unwinding through with_default), one process per "
                "history. non-trivial = an emission/query after a guard drop or unwinding, or a set_global_default after the first "
                "scoped use / emission; distinct = distinct op list + filters")
    rep.trusted_base = ["Coq 8.16.1 kernel + vm_compute", "harness/dispatch h_dispatch.rs (one OS thread per model thread, one process per history)",
                        "translators/dispatch_shape.py + rsparse.py (shape recognition of dispatch.rs; fails closed through C02_source_recognised)",
                        "driver/props/c02.py generator + the Python specification (cross-checked against Model.aspec on every case)",
                        "std: thread_local!, Arc, atomics under sequential consistency, drop order / unwinding (modelled)"]
    rep.assumptions = ["every API call is atomic except set_global_default, whose three micro-steps are modelled separately (C02_set_global_once); "
                       "sequential consistency; schedules of the real micro-steps are not forced (no H3 call sites in dispatch.rs yet)",
                       "properly nested = guards dropped innermost-first on the thread that created them (DefaultGuard is Send; "
                       "dropping it elsewhere or out of order is outside the property, the tie still covers out-of-order drops)",
                       "collector callbacks do not emit (can_enter / re-entrancy not modelled); try_with failure during thread teardown not modelled",
                       "dispatch.rs variant read off the source on this run: " + {True: "repaired (fix aa353f7): the thread-local is never populated from the global default",
                                                                                   False: "the shape from before fix aa353f7 (finding F1): C02_spec is false for it and does not compile",
                                                                                   None: "UNRECOGNISED mixture (fail closed)"}[d["fx"]]]
    # ---- leg A
    rep.proof = coq_prove(ctx, "C02", ["theories/Properties/C02.vo"])
    D.check_source_summary(ctx, rep, d, g)
    # ---- implementation
    binpath, info = D.build(ctx, rep)
    if binpath is None:
        return rep
    pool, smax = info["pool"], info["static_max"]
    cases = {}
    if ctx.replay:
        import json
        j = json.load(open(ctx.replay))
        c = j.get("case", j)
        if "sched" in c:
            schedules(ctx, rep, d, only={"threads": c["threads"], "sched": c["sched"]})
            return rep
        cases["replay"] = D.load_replay(ctx.replay)
    else:
        schedules(ctx, rep, d)
        cases.update(D.load_corpus("C02"))
        n = 6000 if not ctx.thorough() else 25000
        for i in range(n):
            malformed = (i % 8 == 7)
            cases[("m%d" if malformed else "g%d") % i] = gen_case(ctx.rng, pool, malformed)
    good = explore(ctx, rep, fx, "debug", binpath, pool, smax, cases)
    if not ctx.replay or any(o[0] == "tryinit" for c in cases.values() for o in c["ops"]):
        # the public wrapper of set_global_default (tracing-subscriber's SubscriberInitExt::try_init): its own build of the harness
        sys.path.insert(0, os.path.join(vlib.VERIF, "translators"))
        import dispatch_shape
        ti = dispatch_shape.read_try_init(ctx.repo)
        rep.tie("translator:tracing-subscriber/src/util.rs:try_init", not ti, "; ".join(ti), ti[:1] or None)
        b3, info3 = D.build(ctx, rep, variant="init")
        if b3 is not None:
            if ctx.replay:
                extra = cases
            else:
                extra = {"init:%s%d" % ("m" if i % 8 == 7 else "g", i): gen_case(ctx.rng, pool, i % 8 == 7, init=True) for i in range(1200 if not ctx.thorough() else 5000)}
            explore(ctx, rep, fx, "init", b3, info3["pool"], info3["static_max"], extra)
    if ctx.thorough() and not ctx.replay:
        b2, info2 = D.build(ctx, rep, release=True)
        if b2 is not None:
            extra = {"release:%s%d" % ("m" if i % 8 == 7 else "g", i): gen_case(ctx.rng, pool, i % 8 == 7) for i in range(5000)}
            explore(ctx, rep, fx, "release", b2, info2["pool"], info2["static_max"], extra)
    some = list(good.values())[:2]
    rep.samples = [{"history": D.case_text(c).splitlines()} for c in some] + [{"dispatch_rs_variant_read_off_source": d["fx"]}]
    return rep


def explore(ctx, rep, fx, tag, binpath, pool, smax, cases):
    """One build of the harness on `cases`: oracle on the implementation, then the model / Coq specification / F1 monitor on the same cases."""
    ctx.log("running %d histories on the implementation" % len(cases))
    impl = D.run_impl(ctx, binpath, cases)
    bad_runs = [cid for cid in cases if cid not in impl or impl[cid]["rc"] != 0 or len(impl[cid]["out"]) != len(cases[cid]["ops"])]
    if bad_runs:
        c = bad_runs[0]
        rep.tie("run:h_dispatch:" + tag, False, "%d histories crashed / hung / truncated" % len(bad_runs), {"case": cases[c], "impl": impl.get(c)})
    good = {cid: c for cid, c in cases.items() if cid not in bad_runs}
    # ---- oracle
    first_mismatch = {}
    spec_py = {}
    judged_total = 0
    n_f1 = 0
    for cid, case in good.items():
        recs = impl[cid]["out"]
        vio, judged, nested, rows = oracle(pool, case, recs)
        spec_py[cid] = rows
        judged_total += judged
        rep.evaluations += 1
        rep.count("nested" if nested else "out-of-order guard drops (tie only)")
        rep.count("len:%d-%d" % (len(case["ops"]) // 10 * 10, len(case["ops"]) // 10 * 10 + 9))
        gpos = [i for i, o in enumerate(case["ops"]) if o[0] == "setglobal"]
        rep.count("global:never" if not gpos else "global:first-third" if gpos[0] * 3 < len(case["ops"]) else
                  "global:middle" if gpos[0] * 3 < 2 * len(case["ops"]) else "global:last-third")
        for o, r in zip(case["ops"], recs):
            rep.count("op:" + o[0])
            if o[0] == "emitcb":
                rep.count("emitcb:%s:%s" % ({1: "panic", 2: "reentrant", 3: "reentrant+panic"}[o[3]], "callback ran" if r["del"] else "not received"))
        if nontrivial(case):
            rep.nontrivial.add(D.case_text(case))
        if not vio:
            continue
        first_mismatch[cid] = vio[0][1]
        what, at, is_f1 = vio[0]
        if is_f1 and not fx:
            n_f1 += 1
            if (n_f1 <= 1 and tag == "debug") or cid.startswith("corpus:"):
                rep.violation(what, {"cols": case["cols"], "ops": case["ops"][:at + 1], "text": D.case_text({"cols": case["cols"], "ops": case["ops"][:at + 1]}),
                                     "found_in": cid}, finding="F1")
            continue
        if len(rep.violations) >= 12:
            continue

        def violates(c2):
            rc, recs2 = D.run_impl_one(binpath, c2)
            if rc != 0 or len(recs2) != len(c2["ops"]):
                return False
            v2 = oracle(pool, c2, recs2)[0]
            return any((not f) or fx for (_, _, f) in v2[:1])
        small = {"cols": case["cols"], "ops": case["ops"][:at + 1]}
        if sum(1 for v in rep.violations if v["finding"] is None) < 3:
            small = D.shrink(small, violates)
        rc, recs2 = D.run_impl_one(binpath, small)
        v2 = oracle(pool, small, recs2)[0]
        rep.violation(v2[0][0] if v2 else what, {"cols": small["cols"], "ops": small["ops"], "text": D.case_text(small),
                                                  "observed": recs2, "found_in": cid, "build": tag})
    rep.count("observations judged against the specification", judged_total)
    rep.count("histories hitting known finding F1", n_f1)
    # ---- model: tie + cross-checks
    try:
        model = D.run_model(ctx, pool, smax, good, fx, what=("run", "spec", "f1"), tag="cases_" + tag, x=True)
        dis, spec_dis, class_dis = [], [], []
        for cid, case in good.items():
            d = D.diff_case(pool, case, impl[cid]["out"], model[cid]["run"])
            if d:
                d.update(case_id=cid, text=D.case_text(case))
                dis.append(d)
            sd = spec_rows_vs_coq(case, spec_py[cid], model[cid]["spec"])
            if sd:
                sd.update(case_id=cid, text=D.case_text(case))
                spec_dis.append(sd)
            if not fx and cid in first_mismatch and all(o[0] != "close" or o[2] == 0 for o in case["ops"]):
                # C02_spec on the nose: a mismatch with the specification in a nested history must lie in Model.F1_class
                _, idx = D.expand(case["ops"])
                upto = idx[first_mismatch[cid]][-1]
                if 1 not in model[cid]["f1"][:upto + 1]:
                    class_dis.append({"case_id": cid, "first_mismatch_op": first_mismatch[cid], "text": D.case_text(case)})
        rep.tie("correspondence:run_case:" + tag, not dis, "%d of %d histories disagree" % (len(dis), len(good)), dis[:1] or None)
        rep.tie("spec:python==Model.aspec:" + tag, not spec_dis, "%d disagreements" % len(spec_dis), spec_dis[:1] or None)
        if not fx:
            rep.tie("class:mismatches-lie-in-Model.F1_class:" + tag, not class_dis, "%d nested histories deviate from the specification outside F1_class" % len(class_dis),
                    class_dis[:1] or None)
        rep.traces_validated += len(good) - len(dis)
    except Exception as ex:
        rep.tie("model-eval:" + tag, False, str(ex)[:400])
    return good
