"""C07 — Per-layer filters are isolated: a layer sees exactly what its own filters accept.

Leg A: theorems of coq/theories/Properties/C07.v over the executable model Stack/Model.v (bitmap, pending
       interest, Filtered / Layered / Registry / Context lookups, macro guard + callsite interest cache).
Leg B: correspondence: random stacks (built at run time from boxed layers / boxed filters over the real
       Registry) x random histories through the real event! / span! / enabled! macros, one process per case;
       every observation (deliveries with lookup_current / scope / parent seen inside the callback, every
       evaluation of a per-layer filter, every call reaching the outermost collector) is compared with
       `run_case` of the model evaluated by vm_compute on the same case.
Leg C: oracle, independent of the model: for each (layer, emission) the layer's log vs the global filters and
       the layer's OWN filters evaluated directly on the metadata (and on the layer's own view of the current
       span for context-dependent closures); span follow-ups and lookups vs the spans the layer accepted.
       A miss is attributed to the known finding F3 only in F3's exact shape (see `Oracle.dispatch`)."""
import json
import os
from concurrent.futures import ThreadPoolExecutor

import sys

import vlib
from vlib import Report, coq_prove, cargo_build, run_bin, coq_eval, gen_if_changed

sys.path.insert(0, os.path.join(vlib.VERIF, "translators"))
import stack_flags as stack_tr  # noqa: E402

NT = 3          # targets app / other / db
NCS = 15        # callsites per kind


def meta_of(cs):
    return {"cs": cs, "level": 1 + (cs % 15) // 3, "target": cs % 3, "kind": cs // 15}


# ------------------------------------------------------------------------------------------------
# filters: direct evaluation (the specification side) and printers

def f_eval(f, m, cur):
    """cur: callsite ids of the entered spans the filter's own Context shows it (innermost first)"""
    cur = cur or []
    t = f["t"]
    if t == "env":
        # EnvFilter: a span directive target[s]=L enables, while a span it matches is entered (and was accepted by this layer),
        # everything up to L; the matching spans themselves are enabled; otherwise the static directives decide
        dy = f["dy"]
        if dy and max(l for _, l in dy) >= m["level"]:
            if m["kind"] == 1 and any(t0 == m["target"] for t0, _ in dy):
                return True
            if any(l >= m["level"] for c in cur for t0, l in dy if t0 == c % 3):
                return True
        for tid, l in f["st"]:
            if tid == m["target"]:
                return m["level"] <= l
        return f["d"] is not None and m["level"] <= f["d"]
    if t == "level":
        return m["level"] <= f["l"]
    if t == "targets":
        for tid, l in f["tbl"]:
            if tid == m["target"]:
                return m["level"] <= l
        return f["d"] is not None and m["level"] <= f["d"]
    if t == "fn":
        return m["cs"] in f["cs"]
    if t == "dyn":
        code = 0 if not cur else cur[0] + 1
        return code in f["allow"] or m["cs"] in f["cs"]
    if t == "all":
        return True
    if t == "and":
        return f_eval(f["a"], m, cur) and f_eval(f["b"], m, cur)
    if t == "or":
        return f_eval(f["a"], m, cur) or f_eval(f["b"], m, cur)
    if t == "not":
        return not f_eval(f["a"], m, cur)
    if t == "box":
        return f_eval(f["a"], m, cur)
    raise ValueError(t)


def coq_nl(xs):
    return "[" + "; ".join(str(x) for x in xs) + "]"


def coq_filter(f):
    t = f["t"]
    if t == "level":
        return "(FLevel %d)" % f["l"]
    if t == "targets":
        return "(FTargets [%s] %s)" % ("; ".join("(%d, %d)" % (a, b) for a, b in f["tbl"]),
                                       "None" if f["d"] is None else "(Some %d)" % f["d"])
    if t == "fn":
        return "(FFn (in_set %s))" % coq_nl(f["cs"])
    if t == "dyn":
        return "(FDyn (dyn_tbl %s %s))" % (coq_nl(f["allow"]), coq_nl(f["cs"]))
    if t == "env":
        return "(FEnv [%s] %s [%s])" % ("; ".join("(%d, %d)" % (a, b) for a, b in f["st"]), "None" if f["d"] is None else "(Some %d)" % f["d"],
                                        "; ".join("(%d, %d)" % (a, b) for a, b in f["dy"]))
    if t == "all":
        return "FAll"
    if t == "and":
        return "(FAnd %s %s)" % (coq_filter(f["a"]), coq_filter(f["b"]))
    if t == "or":
        return "(FOr %s %s)" % (coq_filter(f["a"]), coq_filter(f["b"]))
    if t == "not":
        return "(FNot %s)" % coq_filter(f["a"])
    if t == "box":
        return coq_filter(f["a"])
    raise ValueError(t)


def coq_layer(l):
    t = l["t"]
    if t == "rec":
        return "(Rec %d %s)" % (l["n"], "(in_set %s)" % coq_nl(l["veto"]) if l["veto"] else "nov")
    if t == "glob":
        return "(Glob %s)" % coq_filter(l["f"])
    if t == "filt":
        return "(Filt 0 %s %s)" % (coq_layer(l["l"]), coq_filter(l["f"]))
    if t == "pair":
        return "(Pair %s %s)" % (coq_layer(l["o"]), coq_layer(l["i"]))
    if t == "opt":
        return "(LOpt None)" if l["l"] is None else "(LOpt (Some %s))" % coq_layer(l["l"])
    if t == "vec":
        return "(LVec [%s])" % "; ".join(coq_layer(x) for x in l["ls"])
    if t == "box":
        return coq_layer(l["l"])
    raise ValueError(t)


def coq_coll(stack):
    s = "Registry"
    for l in stack:  # innermost first
        s = "(With %s %s)" % (coq_layer(l), s)
    return s


OPC = {"E": "OEvent", "S": "OSpan", "N": "OEnter", "X": "OExit", "R": "ORecord", "D": "ODrop", "P": "OProbe"}


def coq_ops(ops):
    return "[" + "; ".join("%s %d" % (OPC[c], a) for c, a in ops) + "]"


def assign_tags(stack):
    """FilterId order = on_subscribe order: inner With first; Layered outer then inner; Filtered itself first."""
    n = [0]

    def go(l):
        t = l["t"]
        if t == "filt":
            l["k"] = n[0]
            n[0] += 1
            go(l["l"])
        elif t == "pair":
            go(l["o"])
            go(l["i"])
        elif t == "opt":
            if l["l"] is not None:
                go(l["l"])
        elif t == "vec":
            for x in l["ls"]:
                go(x)
        elif t == "box":
            go(l["l"])
    for l in stack:
        go(l)
    return n[0]


# ------------------------------------------------------------------------------------------------
# case generation

def gen_filter(rng, depth, ev_cs, span_cs, allow_dyn=True):
    r = rng.random()
    if depth <= 0 or r < 0.55:
        k = rng.random()
        if k < 0.25:
            return {"t": "level", "l": rng.choice([0, 1, 2, 3, 3, 4, 5])}
        if k < 0.55:
            tids = rng.sample(range(NT), rng.randint(1, NT))
            return {"t": "targets", "tbl": [[t, rng.choice([1, 2, 3, 4, 5, 5])] for t in tids],
                    "d": rng.choice([None, None, None, 2, 4])}
        if k < 0.75:
            allcs = ev_cs + span_cs + [c + 30 for c in ev_cs]
            return {"t": "fn", "cs": sorted(set(rng.sample(range(45), rng.randint(0, 20)) + rng.sample(allcs, rng.randint(0, len(allcs)))))}
        if k < 0.93 and allow_dyn:
            codes = [0] + [c + 1 for c in span_cs]
            return {"t": "dyn", "allow": sorted(set(rng.sample(codes, rng.randint(0, len(codes))))),
                    "cs": sorted(set(rng.sample(ev_cs + span_cs, rng.randint(0, 2))))}
        return {"t": "all"}
    if r < 0.70:
        return {"t": "and", "a": gen_filter(rng, depth - 1, ev_cs, span_cs, allow_dyn), "b": gen_filter(rng, depth - 1, ev_cs, span_cs, allow_dyn)}
    if r < 0.85:
        return {"t": "or", "a": gen_filter(rng, depth - 1, ev_cs, span_cs, allow_dyn), "b": gen_filter(rng, depth - 1, ev_cs, span_cs, allow_dyn)}
    if r < 0.95:
        return {"t": "not", "a": gen_filter(rng, depth - 1, ev_cs, span_cs, allow_dyn)}
    return {"t": "box", "a": gen_filter(rng, depth - 1, ev_cs, span_cs, allow_dyn)}


def gen_glob(rng, ev_cs, span_cs):
    k = rng.random()
    if k < 0.4:
        return {"t": "level", "l": rng.choice([2, 3, 4, 4, 5])}
    if k < 0.7:
        tids = rng.sample(range(NT), rng.randint(1, NT))
        return {"t": "targets", "tbl": [[t, rng.choice([2, 3, 4, 5, 5])] for t in tids], "d": rng.choice([None, 3, 5])}
    keep = [c for c in range(45) if rng.random() < 0.8]
    return {"t": "fn", "cs": keep}


def gen_env_leaf(rng):
    """an EnvFilter with one or two span directives target[s]=debug|trace (targets distinct) and a few static directives"""
    tids = rng.sample(range(NT), rng.randint(1, 2))
    dy = [[t, rng.choice([4, 5])] for t in tids]
    st = [[t, rng.choice([1, 2, 3])] for t in range(NT) if rng.random() < 0.35]
    return {"t": "env", "st": st, "d": rng.choice([None, None, 1, 2]), "dy": dy}


def gen_env_filter(rng, depth, ev_cs, span_cs):
    """a per-layer filter with a stateful EnvFilter leaf under and / or / not, in both operand orders"""
    env = gen_env_leaf(rng)
    if depth <= 0:
        return env
    r = rng.random()
    other = rng.choice([{"t": "level", "l": rng.choice([1, 2, 3, 3])},
                        {"t": "targets", "tbl": [[t, rng.choice([2, 3, 5])] for t in rng.sample(range(NT), rng.randint(1, NT))], "d": rng.choice([None, 3])},
                        {"t": "fn", "cs": sorted(set(rng.sample(range(45), 12) + span_cs))},
                        {"t": "all"}])
    sub = gen_env_filter(rng, depth - 1, ev_cs, span_cs) if rng.random() < 0.35 else env
    if r < 0.36:
        a, b = (other, sub) if rng.random() < 0.5 else (sub, other)
        return {"t": "or", "a": a, "b": b}
    if r < 0.66:
        a, b = (other, sub) if rng.random() < 0.5 else (sub, other)
        return {"t": "and", "a": a, "b": b}
    if r < 0.76:
        return {"t": "not", "a": {"t": "not", "a": sub}}
    if r < 0.84:
        return {"t": "box", "a": sub}
    return sub


def has_env(x):
    if isinstance(x, dict):
        return x.get("t") == "env" or any(has_env(v) for v in x.values())
    if isinstance(x, list):
        return any(has_env(v) for v in x)
    return False


def gen_agree_filter(rng, t0, ev_cs, span_cs):
    """a static per-layer filter that accepts everything at target t0 (so t0 callsites cache `always`) and
    differs from its siblings elsewhere"""
    others = [t for t in range(NT) if t != t0]
    tbl = [[t0, 5]] + [[t, rng.choice([1, 2, 3, 4, 5])] for t in others if rng.random() < 0.5]
    rng.shuffle(tbl)
    f = {"t": "targets", "tbl": tbl, "d": None}
    r = rng.random()
    if r < 0.2:
        f = {"t": "or", "a": f, "b": gen_filter(rng, 1, ev_cs, span_cs, allow_dyn=False)}
    elif r < 0.3:
        f = {"t": "or", "a": {"t": "level", "l": rng.choice([1, 2, 3])}, "b": f}
    elif r < 0.38:
        f = {"t": "not", "a": {"t": "not", "a": f}}
    elif r < 0.45:
        f = {"t": "and", "a": f, "b": {"t": "all"}}
    return f


class Gen:
    def __init__(self, rng, in_class=True, vetoes=False, agree=None):
        self.rng = rng
        self.names = 0
        self.nf = 0
        self.in_class = in_class
        self.vetoes = vetoes
        self.agree = agree          # target id every per-layer filter accepts entirely, or None

    def layer(self, depth, ev_cs, span_cs, under_filt=False, under_vec=False):
        rng = self.rng
        r = rng.random()
        glob_ok = (not under_filt) or not self.in_class
        if depth <= 0 or r < 0.30:
            self.names += 1
            veto = []
            if self.vetoes and (not under_filt or not self.in_class) and rng.random() < 0.35:
                veto = sorted(rng.sample(ev_cs, rng.randint(1, max(1, len(ev_cs) // 2))))
            return {"t": "rec", "n": self.names, "veto": veto}
        if r < 0.40 and glob_ok:
            if self.agree is not None:
                g = rng.choice([{"t": "level", "l": 5}, {"t": "targets", "tbl": [[self.agree, 5]], "d": rng.choice([3, 4, 5])},
                                {"t": "fn", "cs": sorted(set(range(45)) - set(rng.sample(range(45), 3)) | set(c for c in range(45) if c % 3 == self.agree))}])
                return {"t": "glob", "f": g}
            return {"t": "glob", "f": gen_glob(rng, ev_cs, span_cs)}
        if r < (0.68 if self.agree is None else 0.74) and self.nf < 10:
            self.nf += 1
            f = gen_filter(rng, 2, ev_cs, span_cs) if self.agree is None else gen_agree_filter(rng, self.agree, ev_cs, span_cs)
            return {"t": "filt", "k": 0, "l": self.layer(depth - 1, ev_cs, span_cs, True, under_vec), "f": f}
        if r < 0.82:
            return {"t": "pair", "o": self.layer(depth - 1, ev_cs, span_cs, under_filt, under_vec),
                    "i": self.layer(depth - 1, ev_cs, span_cs, under_filt, under_vec)}
        if r < 0.88:
            return {"t": "opt", "l": None if rng.random() < 0.4 else self.layer(depth - 1, ev_cs, span_cs, under_filt, under_vec)}
        if r < 0.96:
            # (an empty Vec is `no layer at all` since the F14 repair; a global filter inside a Vec is global since the F8 repair)
            return {"t": "vec", "ls": [self.layer(depth - 1, ev_cs, span_cs, under_filt, True) for _ in range(rng.choice([0, 1, 2, 2, 3]))]}
        return {"t": "box", "l": self.layer(depth - 1, ev_cs, span_cs, under_filt, under_vec)}


def gen_ops(rng, n, ev_cs, span_cs, probe_cs, malformed):
    ops = []
    nh = 0
    live = []       # handle numbers believed live
    entered = []
    for _ in range(n):
        r = rng.random()
        if r < 0.36:
            ops.append(["E", rng.choice(ev_cs)])
        elif r < 0.52:
            ops.append(["S", rng.choice(span_cs)])
            live.append(nh)
            nh += 1
        elif r < 0.60 and probe_cs:
            ops.append(["P", rng.choice(probe_cs)])
        elif malformed and rng.random() < 0.35:
            ops.append([rng.choice("NXRD"), rng.randint(0, nh + 1)])
        elif r < 0.72 and live:
            h = rng.choice(live)
            ops.append(["N", h])
            entered.append(h)
        elif r < 0.84 and entered:
            h = entered.pop(rng.randrange(len(entered)) if rng.random() < 0.3 else -1)
            ops.append(["X", h])
        elif r < 0.90 and live:
            ops.append(["R", rng.choice(live)])
        elif live:
            cand = [h for h in live if h not in entered] or live
            h = rng.choice(cand)
            live.remove(h)
            entered[:] = [e for e in entered if e != h]
            ops.append(["D", h])
        else:
            ops.append(["E", rng.choice(ev_cs)])
    return ops


def gen_ops_deep(rng, n, ev_cs, span_cs, lifo=False):
    """histories that nest: most new spans are entered at once, so that scopes are several spans deep when events, records
    and further spans happen (what parent() / scope() / from_root() climbing needs to show a rejected ancestor)"""
    ops, nh, live, entered = [], 0, [], []
    for _ in range(n):
        r = rng.random()
        if r < 0.30 and len(entered) < 6:
            ops.append(["S", rng.choice(span_cs)])
            ops.append(["N", nh])
            live.append(nh)
            entered.append(nh)
            nh += 1
        elif r < 0.58:
            ops.append(["E", rng.choice(ev_cs)])
        elif r < 0.66:
            ops.append(["S", rng.choice(span_cs)])
            live.append(nh)
            nh += 1
        elif r < 0.76 and live:
            ops.append(["R", rng.choice(live)])
        elif r < 0.90 and entered:
            h = entered.pop(-1 if lifo or rng.random() < 0.85 else rng.randrange(len(entered)))
            ops.append(["X", h])
        elif live and (not lifo or any(h not in entered for h in live)):
            # (a handle dropped while its span is entered can never exit it: every later exit of an outer span is out of order)
            cand = [h for h in live if h not in entered] or live
            h = rng.choice(cand)
            live.remove(h)
            entered[:] = [e for e in entered if e != h]
            ops.append(["D", h])
        else:
            ops.append(["E", rng.choice(ev_cs)])
    return ops


def well_nested(ops):
    """is the history well nested per thread: every exit is of the innermost entered span, no span is entered twice, exited
    without being entered, or dropped while entered?  (What an EnvFilter's span directives are specified for - property C11 -
    and what its scope stack, which pops on any exit, needs.)"""
    nh, entered = {}, {}
    for op in ops:
        code, arg = op[0], op[1]
        t = op[2] if len(op) > 2 else 0
        ent = entered.setdefault(t, [])
        if code == "S":
            nh[t] = nh.get(t, 0) + 1
        elif code == "N":
            if arg in ent:
                return False
            if arg < nh.get(t, 0):
                ent.append(arg)
        elif code == "X":
            if not ent or ent[-1] != arg:
                return False
            ent.pop()
        elif code == "D":
            if arg in ent:
                return False
    return True


def gen_case(rng, idx, kind):
    """kind: 'clean' (no probes, no vetoes), 'agree' (clean; static per-layer filters that all accept one target and differ
    elsewhere: cached-`always` callsites hit repeatedly next to emissions the layers disagree on), 'deep' (clean; histories
    that keep several spans entered, span callsites at several levels: deep scopes with rejected ancestors), 'unclean' (probes and
    vetoing plain layers), 'flat' (the F3 shape: a few filtered recorders side by side), 'outside' (global filters or
    vetoing recorders inside a Filtered: correspondence only)"""
    ev_cs = sorted(rng.sample(range(0, 15), rng.randint(2, 5)))
    span_cs = sorted(c + 15 for c in rng.sample(range(0, 15), rng.randint(1, 3)))
    agree = None
    if kind == "deep":
        span_cs = sorted(c + 15 for c in rng.sample(range(0, 15), rng.randint(3, 6)))
    if kind == "agree":
        # every per-layer filter accepts target t0 entirely: t0 callsites cache `always` and are hit repeatedly, while the
        # filters differ on the other targets; the callsite pools contain both
        agree = rng.randrange(NT)
        t_other = rng.choice([t for t in range(NT) if t != agree])
        ev_cs = sorted(set(ev_cs[:3] + [3 * rng.randrange(5) + agree, 3 * rng.randrange(5) + t_other]))
        span_cs = sorted(set(span_cs[:2] + [15 + 3 * rng.randrange(5) + agree]))
    probe_cs = sorted(c + 30 for c in rng.sample(range(0, 15), rng.randint(1, 3))) if kind in ("unclean", "flat", "outside") and rng.random() < 0.85 else []
    g = Gen(rng, in_class=(kind != "outside"), vetoes=(kind in ("unclean", "outside") or (kind == "flat" and rng.random() < 0.5)), agree=agree)
    if kind == "flat":
        stack = []
        for _ in range(rng.randint(2, 4)):
            g.names += 1
            veto = sorted(rng.sample(ev_cs, 1)) if g.vetoes and rng.random() < 0.3 else []
            if rng.random() < 0.75:
                # simple target/level filters so that many callsites cache `always`
                if rng.random() < 0.7:
                    tids = rng.sample(range(NT), rng.randint(1, NT))
                    f = {"t": "targets", "tbl": [[t, 5] for t in tids], "d": None}
                else:
                    f = gen_filter(rng, 1, ev_cs, span_cs, allow_dyn=False)
                stack.append({"t": "filt", "k": 0, "l": {"t": "rec", "n": g.names, "veto": []}, "f": f})
            else:
                stack.append({"t": "rec", "n": g.names, "veto": veto})
    elif kind == "above":
        # per-layer filters ABOVE a global filter that has a plain layer between itself and the Registry: the `Layered` that
        # holds the global filter has no per-layer filter in or below it, yet its veto must still clear the bits set above it.
        # Everything accepts target t0 entirely; the global filter rejects (statically) most of the rest.
        t0 = rng.randrange(NT)
        others = [t for t in range(NT) if t != t0]
        ev_cs = sorted(set([3 * rng.randrange(5) + t0, 3 * rng.randrange(5) + t0] + [3 * rng.randrange(5) + t for t in others]
                           + [3 * rng.randrange(5) + rng.choice(others)]))
        span_cs = sorted(set([15 + 3 * rng.randrange(5) + t0, 15 + 3 * rng.randrange(5) + rng.choice(others)]))
        g.names += 1
        stack = [{"t": "rec", "n": g.names, "veto": []}]
        gtbl = [[t0, 5]] + [[t, rng.choice([1, 2])] for t in others if rng.random() < 0.3]
        stack.append({"t": "glob", "f": {"t": "targets", "tbl": gtbl, "d": None}})
        for _ in range(rng.randint(1, 3)):
            g.names += 1
            ftbl = [[t0, 5]] + [[t, rng.choice([2, 3, 4, 5])] for t in others if rng.random() < 0.5]
            lay = {"t": "filt", "k": 0, "l": {"t": "rec", "n": g.names, "veto": []}, "f": {"t": "targets", "tbl": ftbl, "d": None}}
            r = rng.random()
            if r < 0.2:
                g.names += 1
                lay = {"t": "pair", "o": lay, "i": {"t": "rec", "n": g.names, "veto": []}}
            elif r < 0.35:
                lay = {"t": "vec", "ls": [lay]}
            elif r < 0.45:
                lay = {"t": "opt", "l": lay}
            stack.append(lay)
    elif kind == "env":
        # per-layer filters with a stateful EnvFilter leaf ([s]-span directives at DEBUG / TRACE, span callsites at ERROR..INFO so
        # that the directive is what enables the DEBUG / TRACE events inside); LIFO histories (the filter's scope is a stack)
        span_cs = sorted(set(15 + 3 * rng.randrange(3) + t for t in range(NT)) | {15 + 3 * rng.randrange(3) + rng.randrange(NT)})
        ev_cs = sorted(set(rng.sample(range(0, 15), 3) + [9 + rng.randrange(6), 9 + rng.randrange(6)]))
        stack = []
        for _ in range(rng.randint(1, 3)):
            g.names += 1
            lay = {"t": "filt", "k": 0, "l": {"t": "rec", "n": g.names, "veto": []}, "f": gen_env_filter(rng, 2, ev_cs, span_cs)}
            if rng.random() < 0.15:
                g.names += 1
                lay = {"t": "filt", "k": 0, "l": {"t": "pair", "o": lay, "i": {"t": "rec", "n": g.names, "veto": []}}, "f": gen_filter(rng, 1, ev_cs, span_cs, allow_dyn=False)}
            stack.append(lay)
        if rng.random() < 0.4:
            g.names += 1
            stack.insert(rng.randrange(len(stack) + 1), {"t": "rec", "n": g.names, "veto": []})
    elif kind == "allpsf":
        # nothing but per-layer-filtered layers, static and context-dependent filters mixed, in random order: the callsite
        # interest is the Registry's sum of the filters' answers in registration order and no unfiltered layer lifts a `never`
        stack = []
        for _ in range(rng.randint(2, 4)):
            g.names += 1
            r = rng.random()
            if r < 0.45:
                f = rng.choice([{"t": "level", "l": rng.choice([1, 2, 3, 4])},
                                {"t": "targets", "tbl": [[t, rng.choice([1, 2, 3, 5])] for t in rng.sample(range(NT), rng.randint(1, 2))], "d": None},
                                {"t": "fn", "cs": sorted(rng.sample(range(45), 15))}])
            elif r < 0.8:
                codes = [0] + [c + 1 for c in span_cs]
                f = {"t": "dyn", "allow": sorted(set(rng.sample(codes, rng.randint(1, len(codes))))), "cs": sorted(set(rng.sample(ev_cs + span_cs, rng.randint(0, 3))))}
                if rng.random() < 0.3:
                    f = {"t": "not", "a": f}
            else:
                f = gen_filter(rng, 2, ev_cs, span_cs)
            lay = {"t": "filt", "k": 0, "l": {"t": "rec", "n": g.names, "veto": []}, "f": f}
            r = rng.random()
            if r < 0.12:
                lay = {"t": "vec", "ls": [lay]}
            elif r < 0.2:
                lay = {"t": "opt", "l": lay}
            stack.append(lay)
    elif kind == "agree":
        stack = [g.layer(rng.randint(1, 3), ev_cs, span_cs) for _ in range(rng.randint(2, 5))]
        if g.nf < 2:        # make sure at least two per-layer-filtered recorders sit side by side
            for _ in range(2):
                g.names += 1
                stack[rng.randrange(len(stack))] = {"t": "filt", "k": 0, "l": {"t": "rec", "n": g.names, "veto": []},
                                                    "f": gen_agree_filter(rng, agree, ev_cs, span_cs)}
    else:
        stack = [g.layer(rng.randint(0, 3), ev_cs, span_cs) for _ in range(rng.randint(1, 5))]
    assign_tags(stack)
    n = rng.choice([6, 10, 16, 24, 40]) if kind not in ("agree", "above", "env") else rng.choice([12, 20, 30, 40])
    if kind in ("deep", "env"):
        ops = gen_ops_deep(rng, n, ev_cs, span_cs, lifo=(kind == "env"))
        assert kind != "env" or well_nested(ops)
    else:
        ops = gen_ops(rng, n, ev_cs, span_cs, probe_cs, malformed=(rng.random() < 0.25))
    return {"id": idx, "kind": kind, "stack": stack, "ops": ops}


def gen_many(rng, idx):
    """more per-layer filters than a FilterMap has bits: 63..70 filtered recorders in one or two Vecs (FilterIds in Vec order,
    inner `with` first), every filter static and distinct from its neighbours; filter #0 and filter #64 (where there is one)
    accept different targets, and the history has events and spans at both, so that two filters sharing one bit cannot go unnoticed.
    No probes, no vetoing layers, well-formed span use: the history is clean."""
    nf = rng.choice([63, 64, 65, 65, 65, 66, 67, 68, 70])
    t0, t1 = rng.sample(range(NT), 2)
    t2 = [t for t in range(NT) if t not in (t0, t1)][0]
    filts = []
    for k in range(nf):
        r = rng.random()
        if k % 64 == 0:
            f = {"t": "targets", "tbl": [[t0 if k == 0 else t1, 5]], "d": None}
        elif r < 0.4:
            f = {"t": "targets", "tbl": [[t, rng.choice([1, 2, 3, 4, 5])] for t in rng.sample(range(NT), rng.randint(1, 2))], "d": rng.choice([None, None, 2])}
        elif r < 0.7:
            f = {"t": "level", "l": rng.choice([1, 2, 3, 4, 5])}
        elif r < 0.9:
            f = {"t": "fn", "cs": sorted(rng.sample(range(45), rng.randint(5, 30)))}
        else:
            f = {"t": "not", "a": {"t": "targets", "tbl": [[rng.randrange(NT), rng.choice([2, 3, 4])]], "d": None}}
        filts.append({"t": "filt", "k": 0, "l": {"t": "rec", "n": k + 1, "veto": []}, "f": f})
    cut = rng.choice([nf, nf, rng.randint(1, nf - 1)])
    stack = [{"t": "vec", "ls": filts[:cut]}]
    if cut < nf:
        stack.append({"t": "vec", "ls": filts[cut:]})
    if rng.random() < 0.4:
        stack.insert(rng.randrange(len(stack) + 1), {"t": "rec", "n": nf + 1, "veto": []})
    ev_cs = sorted({3 * rng.randrange(5) + t0, 3 * rng.randrange(5) + t1, 3 * rng.randrange(5) + t0, 3 * rng.randrange(5) + t1, 3 * rng.randrange(5) + t2})
    span_cs = sorted({15 + 3 * rng.randrange(5) + t0, 15 + 3 * rng.randrange(5) + t1})
    ops = [["E", c] for c in ev_cs[:2]] + gen_ops(rng, rng.choice([10, 16, 24]), ev_cs, span_cs, [], malformed=False)
    assign_tags(stack)
    return {"id": "many%d" % idx, "kind": "many", "stack": stack, "ops": ops}


def run_many(ctx, rep, cases, profiles):
    """the >64-filters stream.  Oracle (property text): EITHER building the stack is refused (a panic while the layers are added,
    caught by the harness: there is no stack) - acceptable only when more than 64 per-layer filters were attempted - OR every layer
    receives exactly what its own filters accept (the same Oracle as everywhere else; it knows nothing about FilterIds).
    Tie: accepted / refused per (number of filters, profile) vs Stack/IdBound.v [register_n]."""
    seen = {}      # (profile, n filters) -> accepted?
    for prof in profiles:
        rel = prof == "release"
        ok, paths, log = cargo_build(ctx, "stack", ["h_stack"], release=rel)
        if not ok:
            rep.tie("build:h_stack-" + prof, False, vlib.last_error(log))
            return
        raw = run_impl(paths["h_stack"], cases, vlib.NCPU)
        for case, (rc, out) in zip(cases, raw):
            if rc != 0:
                rep.tie("run:h_stack-many-" + prof, False, "case %s rc=%d %s" % (case["id"], rc, vlib.last_error(out)), {"case": case})
                return
            impl = parse_impl(out)
            rep.evaluations += 1
            nf = len(walk_stack(case["stack"])[2])
            payload = {"case": {"stack": case["stack"], "ops": case["ops"]}, "kind": "many", "profile": prof}
            if impl["build_panic"]:
                rep.count("many:refused-" + prof)
                seen.setdefault((prof, nf), False)
                if nf <= 64:
                    rep.violation("a stack with %d per-layer filters was refused: %s [%s build]" % (nf, impl["build_panic"][:200], prof), payload)
                elif seen[(prof, nf)]:
                    seen[(prof, nf)] = None
                continue
            rep.count("many:accepted-" + prof)
            if seen.setdefault((prof, nf), True) is False:
                seen[(prof, nf)] = None
            if nf > 64:
                rep.count("many:accepted-over-64-" + prof)
            orc = Oracle(case, impl).run()
            for k, v in orc.stats.items():
                rep.count("oracle:" + k, v)
            if orc.stats["disagree"] and any(v >= 2 for v in orc.always_hits.values()):
                rep.nontrivial.add(json.dumps([case["stack"], None, case["ops"]], sort_keys=True))
            if impl["panic"]:
                rep.violation("panic at op %d: %s [%s build, %d per-layer filters]" % (impl["panic"]["op"], impl["panic"]["panic"][:200], prof, nf),
                              dict(payload, panic=impl["panic"]))
            for what, detail, finding in orc.violations:
                rep.violation("%s: %s [%s build, %d per-layer filters on one Registry]" % (what, detail, prof, nf), dict(payload, detail=detail), finding=finding)
        ctx.log("%s: ran %d many-filter cases" % (prof, len(cases)))
    # ---- tie with the model of FilterId::new / register_filter
    keys = sorted(seen)
    if not keys:
        return
    try:
        term = "[" + "; ".join("match register_n %s %d with Some _ => true | None => false end" % ("Release" if p == "release" else "Debug", n) for p, n in keys) + "]"
        res = coq_eval(ctx, "From Coq Require Import NArith List Bool.\nFrom TV Require Import Stack.Model Stack.IdBoundModel.\nImport ListNotations.", [("idb", term)], tag="c07idbound")["idb"]
        bad = [(p, n, seen[(p, n)], m) for (p, n), m in zip(keys, res) if seen[(p, n)] != m]
        rep.tie("correspondence:id-bound", not bad, "%d (profile, filters) points; accepted / refused as [register_n] says" % len(keys),
                [{"profile": p, "filters": n, "impl_accepts": a, "model_accepts": m} for p, n, a, m in bad[:1]] or None)
    except Exception as ex:
        rep.tie("model-eval:id-bound", False, str(ex)[:400])


def gen_two(rng, idx):
    """two stacks on two threads: each thread runs its own history on its own stack, the main thread interleaves them; the
    callsite pool (and so the per-callsite interest cache) is shared"""
    if rng.random() < 0.4:
        # next to a stack that wants everything (`always` for every callsite) the shared cache holds this stack's own interest
        # where that is `always`, and `sometimes` where its own answer is `never`: `enabled` passes that its global filter vetoes
        a = gen_case(rng, idx, rng.choice(["above", "above", "flat", "agree"]))
        b = {"stack": [] if rng.random() < 0.3 else [{"t": "rec", "n": 1, "veto": []}],
             "ops": [["E", rng.randrange(15)] for _ in range(rng.randint(0, 4))]}
    else:
        a = gen_case(rng, idx, rng.choice(["clean", "agree", "agree", "flat", "unclean", "above"]))
        b = gen_case(rng, idx, rng.choice(["clean", "agree", "agree", "clean", "unclean"]))
    ops, ia, ib = [], 0, 0
    while ia < len(a["ops"]) or ib < len(b["ops"]):
        if ib >= len(b["ops"]) or (ia < len(a["ops"]) and rng.random() < 0.5):
            ops.append(a["ops"][ia] + [0])
            ia += 1
        else:
            ops.append(b["ops"][ib] + [1])
            ib += 1
    return {"id": idx, "kind": "two", "stack": a["stack"], "stack2": b["stack"], "ops": ops}


def project(case, impl, t):
    """the single-thread view of thread t of a two-stack case: its stack, its operations, what its own stack logged"""
    idxs = [i for i, op in enumerate(case["ops"]) if op[2] == t]
    sub = {"id": case["id"], "kind": case["kind"], "stack": case["stack"] if t == 0 else case["stack2"],
           "ops": [case["ops"][i][:2] for i in idxs]}
    ops_impl = [impl["ops"][i] for i in idxs if i < len(impl["ops"])]
    pan = None
    if impl["panic"] and impl["panic"]["op"] in idxs:
        pan = dict(impl["panic"], op=idxs.index(impl["panic"]["op"]))
    return sub, {"hint": impl["hint"], "ops": ops_impl, "panic": pan, "build_panic": impl["build_panic"]}, idxs


# ------------------------------------------------------------------------------------------------
# stack structure helpers for the oracle

def walk_stack(stack):
    """-> (recs, globs, filts, in_class).  recs: [{'n', 'veto', 'chain': [k,..] outer..inner}]; filts: {k: {'f', 'parent': k|None}};
    globs: [filter]; in_class False when a global filter or a vetoing recorder sits inside a Filtered
    (outside the class the property is claimed for, see notes/C07.md: Spec.shape)."""
    recs, globs, filts = [], [], {}
    ok = [True]

    def go(l, chain, under_vec):
        t = l["t"]
        if t == "rec":
            recs.append({"n": l["n"], "veto": l["veto"], "chain": list(chain)})
            if chain and l["veto"]:
                ok[0] = False
        elif t == "glob":
            globs.append(l["f"])
            if chain:
                ok[0] = False
        elif t == "filt":
            filts[l["k"]] = {"f": l["f"], "parent": chain[-1] if chain else None}
            go(l["l"], chain + [l["k"]], under_vec)
        elif t == "pair":
            go(l["o"], chain, under_vec)
            go(l["i"], chain, under_vec)
        elif t == "opt":
            if l["l"] is not None:
                go(l["l"], chain, under_vec)
        elif t == "vec":
            for x in l["ls"]:
                go(x, chain, True)
        elif t == "box":
            go(l["l"], chain, under_vec)
    for l in stack:
        go(l, [], False)
    return recs, globs, filts, ok[0]


# ------------------------------------------------------------------------------------------------
# the oracle (implementation observations only; nothing from the Coq model)

def contains_pair(l):
    t = l["t"]
    if t == "pair":
        return True
    if t in ("filt", "box"):
        return contains_pair(l["l"])
    if t == "opt":
        return l["l"] is not None and contains_pair(l["l"])
    if t == "vec":
        return any(contains_pair(x) for x in l["ls"])
    return False


def none_like(l):
    t = l["t"]
    if t == "opt":
        return l["l"] is None or none_like(l["l"])
    if t == "vec":
        return all(none_like(x) for x in l["ls"])
    if t == "pair":
        return none_like(l["o"]) and none_like(l["i"])
    if t == "box":
        return none_like(l["l"])
    return False


def psf_like(l):
    """the marker-downcast rule: does the layer consist only of per-layer-filtered layers?"""
    t = l["t"]
    if t == "filt":
        return True
    if t == "pair":
        return psf_like(l["o"]) and psf_like(l["i"])
    if t == "opt":
        return l["l"] is not None and psf_like(l["l"])
    if t == "vec":
        return bool(l["ls"]) and all(psf_like(x) for x in l["ls"])
    if t == "box":
        return psf_like(l["l"])
    return False


def f83_shape(l):
    """finding F83 (C08): an and_then pair or Vec whose members are none-layers (>= 1) and otherwise only per-layer-filtered
    layers (>= 1), anywhere in the tree"""
    t = l["t"]
    kids = [l["o"], l["i"]] if t == "pair" else l["ls"] if t == "vec" else [l["l"]] if t in ("box", "filt") or (t == "opt" and l["l"] is not None) else []
    if t in ("pair", "vec"):
        nones = [k for k in kids if none_like(k)]
        rest = [k for k in kids if not none_like(k)]
        if nones and rest and all(psf_like(k) for k in rest):
            return True
    return any(f83_shape(k) for k in kids)


class Oracle:
    def __init__(self, case, impl):
        self.case = case
        self.impl = impl
        self.hint = impl["hint"] if impl["hint"] is not None else 5
        self.pair_over_registry = bool(case["stack"]) and contains_pair(case["stack"][0])
        self.f83 = any(f83_shape(l) for l in case["stack"])
        self.recs, self.globs, self.filts, self.in_class = walk_stack(case["stack"])
        self.order = sorted(self.filts)           # parents have smaller tags than children (assign order)
        self.handles = []                         # handle -> span id | None
        self.stack = []                           # bottom..top: [id, dup]
        self.spans = {}                           # id -> {'cs', 'parent', 'acc': {k: bool}}  (alive spans)
        self.taint = {}                           # k -> finding id: an unconsumed enabled pass left k's answer `false` behind
        self.clean = True
        self.full = False                         # F71: the Registry vetoed because all 64 bits were set
        self.violations = []                      # (what, detail, finding)
        self.stats = {"deliveries": 0, "expect_true": 0, "expect_false": 0, "f3": 0, "always_twice": 0, "disagree": 0, "lookups": 0}
        self.always_hits = {}

    # -- views ---------------------------------------------------------------------------------
    def stack_iter(self):
        return [i for i, dup in reversed(self.stack) if not dup]

    def acc_chain(self, sid, chain):
        s = self.spans.get(sid)
        return s is not None and all(s["acc"].get(k, False) for k in chain)

    def chain_of(self, k):
        ch = []
        while k is not None:
            ch.append(k)
            k = self.filts[k]["parent"]
        return ch[::-1]

    def view(self, chain):
        for sid in self.stack_iter():
            if self.acc_chain(sid, chain):
                return sid
        return None

    def view_stack(self, chain):
        """callsites of the entered spans (innermost first) that this chain of per-layer filters accepted"""
        return [self.spans[sid]["cs"] for sid in self.stack_iter() if self.acc_chain(sid, chain)]    # (re-entered duplicates are skipped, as by SpanStack::iter)

    def scope(self, sid, chain):
        out = []
        while sid is not None and sid in self.spans:
            if self.acc_chain(sid, chain):
                out.append(sid)
            sid = self.spans[sid]["parent"]
        return out

    # -- expectation for one emission --------------------------------------------------------------
    def accept_map(self, m):
        """k -> does the chain of per-layer filters down to and including k accept m (each filter sees its own view)"""
        acc = {}
        for k in self.order:
            par = self.filts[k]["parent"]
            if par is not None and not acc[par]:
                acc[k] = False
                continue
            acc[k] = f_eval(self.filts[k]["f"], m, self.view_stack(self.chain_of(k)))
        return acc

    def bad(self, what, detail, finding=None):
        self.violations.append((what, detail, finding))

    def check_views(self, i, rec, d, ref):
        """lookup_current / scope / parent recorded inside the callback vs the spans this layer accepted"""
        ch = rec["chain"]
        self.stats["lookups"] += 1
        want_cur = self.view(ch)
        if d["cur"] != want_cur:
            self.bad("lookup", "op %d: layer %d saw lookup_current()=%s inside %s, its own accepted spans give %s" % (i, rec["n"], d["cur"], d["w"], want_cur))
        want_scope = self.scope(ref, ch) if ref is not None else []
        if d["scope"] != want_scope:
            self.bad("scope", "op %d: layer %d walked scope %s inside %s, its own accepted spans give %s" % (i, rec["n"], d["scope"], d["w"], want_scope))
        want_par = want_scope[1] if len(want_scope) > 1 and want_scope[0] == ref else (None if not want_scope or want_scope[0] == ref else None)
        if ref is not None and self.acc_chain(ref, ch):
            want_par = want_scope[1] if len(want_scope) > 1 else None
        else:
            want_par = None
        if d["par"] != want_par:
            self.bad("parent", "op %d: layer %d saw parent()=%s inside %s, expected %s" % (i, rec["n"], d["par"], d["w"], want_par))
        # climbing on with parent() hop by hop, parent().scope() and the scope from the root: exactly the ancestors this layer's
        # own filters accepted, in order (the SpanRef a hop returns must still carry the layer's FilterId)
        have_ref = ref is not None and self.acc_chain(ref, ch)
        if have_ref and len(want_scope) >= 2:
            # is there a rejected real ancestor above the first accepted parent?  (then a second parent() hop must skip it)
            full, sid = [], ref
            while sid is not None and sid in self.spans:
                full.append(sid)
                sid = self.spans[sid]["parent"]
            above = full[full.index(want_scope[1]) + 1:]
            if any(not self.acc_chain(a, ch) for a in above):
                self.stats["climb_skips"] = self.stats.get("climb_skips", 0) + 1
        want_chain = want_scope[1:] if have_ref else []
        if d.get("pch", []) != want_chain:
            self.bad("parent-chain", "op %d: layer %d climbing with parent() inside %s visited %s, its own accepted ancestors are %s"
                     % (i, rec["n"], d["w"], d.get("pch"), want_chain))
        if d.get("psc", []) != want_chain:
            self.bad("parent-scope", "op %d: layer %d walked parent().scope() = %s inside %s, its own accepted ancestors are %s"
                     % (i, rec["n"], d.get("psc"), d["w"], want_chain))
        if d.get("root", []) != want_scope[::-1]:
            self.bad("from-root", "op %d: layer %d walked scope().from_root() = %s inside %s, its own accepted spans give %s"
                     % (i, rec["n"], d.get("root"), d["w"], want_scope[::-1]))
        # navigating on from the spans the scope yielded must stay inside the layer's own accepted spans
        want_nav = [[want_scope[j + 1] if j + 1 < len(want_scope) else None, want_scope[j:]] for j in range(len(want_scope))]
        if d.get("nav", []) != want_nav:
            self.bad("scope-nav", "op %d: layer %d navigating from the scope elements inside %s got (parent, scope) = %s, its own accepted spans give %s"
                     % (i, rec["n"], d["w"], d.get("nav"), want_nav))

    # -- protocol bookkeeping for the F3 attribution -------------------------------------------------
    def passes(self, obs):
        """split the observations of one op into enabled passes: [(result, [(k, r)..])], and whether a dispatch followed"""
        out, cur = [], []
        dispatched = False
        for o in obs:
            if "fe" in o:
                cur.append((o["fe"], o["r"]))
            elif o.get("call") == "en":
                out.append((o["r"], cur))
                cur = []
            elif o.get("call") in ("ev", "ns"):
                dispatched = True
        return out, dispatched

    def run(self):
        case = self.case
        for i, (code, arg) in enumerate(case["ops"]):
            if i >= len(self.impl["ops"]):
                break
            if self.impl["panic"] and self.impl["panic"]["op"] == i:
                break                               # the operation was cut short by a panic, which is reported on its own
            obs = self.impl["ops"][i]
            deliveries = [o for o in obs if "d" in o]
            self.stats["deliveries"] += len(deliveries)
            if code in ("E", "S"):
                self.emission(i, code, arg, obs, deliveries)
            elif code == "P":
                self.after_passes(obs, consumed=False)
            else:
                self.lifecycle(i, code, arg, obs, deliveries)
        return self

    def registry_veto(self, r, evals):
        """F71's exact shape: the stack has exactly 64 per-layer filters, every one of them answered `false` in this pass,
        and the pass answered `false` although it got past every global filter (all 64 were asked)"""
        return (not r) and len(self.filts) == 64 and len(evals) == 64 and not any(rk for _, rk in evals)

    def after_passes(self, obs, consumed):
        passes, _ = self.passes(obs)
        for n, (r, evals) in enumerate(passes):
            last = n == len(passes) - 1
            if self.registry_veto(r, evals):
                self.full = True                    # nobody clears the all-ones bitmap (the history stays `clean` in the protocol sense)
                self.taint = {k: "F71" for k in self.filts}
                continue
            if not r:
                self.taint = {}                     # a global `false` clears the bitmap
                continue
            if consumed and last:
                for k, _ in evals:
                    self.taint.pop(k, None)         # evaluated and then consumed by its own dispatch
            else:
                self.clean = False
                for k, r_k in evals:
                    if r_k:
                        self.taint.pop(k, None)
                    else:
                        self.taint[k] = "F3"

    def emission(self, i, code, cs, obs, deliveries):
        m = meta_of(cs)
        what = "E" if code == "E" else "S"
        globs_ok = all(f_eval(g, m, self.view_stack([])) for g in self.globs)
        if code == "E":
            globs_ok = globs_ok and not any(cs in r["veto"] for r in self.recs)
        acc = self.accept_map(m)
        passes, dispatched = self.passes(obs)
        had_pass = bool(passes)
        # cross-check of the logged filter evaluations against direct evaluation
        for r, evals in passes:
            for k, r_k in evals:
                if f_eval(self.filts[k]["f"], m, self.view_stack(self.chain_of(k))) != r_k and self.clean and not self.full:
                    self.bad("filter-eval", "op %d: filter #%d answered %s on callsite %d, direct evaluation gives %s" % (i, k, r_k, cs, not r_k))
        sid = None
        if code == "S":
            ns = [o for o in obs if o.get("call") == "ns"]
            sid = ns[0]["id"] if ns else None
            self.handles.append(sid)
            if sid is not None:
                # the span exists; what each layer is *entitled* to think of it is decided below
                self.spans[sid] = {"cs": cs, "parent": None, "acc": dict(acc)}
                cur_real = self.stack_iter()
                self.spans[sid]["parent"] = cur_real[0] if cur_real else None
        got = {}
        for d in deliveries:
            if d["w"] != what:
                self.bad("stray", "op %d: unexpected delivery %s" % (i, d))
                continue
            got.setdefault(d["d"], []).append(d)
        want_set = set()
        for rec in self.recs:
            want = globs_ok and all(acc[k] for k in rec["chain"])
            want_set.add((rec["n"], want))
            have = got.get(rec["n"], [])
            self.stats["expect_true" if want else "expect_false"] += 1
            if len(have) > 1:
                self.bad("duplicate", "op %d: layer %d got the emission %d times" % (i, rec["n"], len(have)))
            if want and not have:
                # F3's exact shape: no enabled pass for this emission (its callsite is cached `always`), the emission was
                # dispatched, and one of this layer's own filters still carries a `false` from an earlier enabled pass
                # that was never followed by its event / new_span, with nothing in between having reached that filter.
                tainted = [k for k in rec["chain"] if self.taint.get(k)]
                reach = tainted and all(not self.taint.get(a) for a in self.chain_of(tainted[0])[:-1])
                if dispatched and not had_pass and tainted and reach:
                    self.stats["f3"] += 1
                    self.bad("miss", "op %d: layer %d (filters %s) missed callsite %d although every global filter and all its own filters accept it; "
                             "filter #%d kept a stale `false` from an enabled pass that had no event" % (i, rec["n"], rec["chain"], cs, tainted[0]),
                             self.taint[tainted[0]])
                    if sid is not None:
                        for k in rec["chain"]:
                            if self.taint.get(k):
                                self.spans[sid]["acc"][k] = False      # the layer never saw the span: follow-ups follow that fate
                elif (passes and self.registry_veto(*passes[-1]) and not dispatched) or \
                        (not dispatched and not had_pass and self.full and len(self.taint) == 64 and set(self.taint.values()) == {"F71"}):
                    # ... or a later emission that the Registry's event_enabled vetoes because that all-ones bitmap is still there
                    self.stats["f71"] = self.stats.get("f71", 0) + 1
                    self.bad("miss", "op %d: layer %d (filters %s) missed callsite %d: all 64 per-layer filters rejected it and the Registry vetoed the "
                             "emission for every layer" % (i, rec["n"], rec["chain"], cs), "F71")
                elif m["level"] > self.hint and not obs and self.f83:
                    # F83's exact shape (a C08 finding seen from here): the macro guard dropped the emission because the hint of a
                    # none-layer + per-layer-filtered subtree capped LevelFilter::current()
                    self.stats["f83"] = self.stats.get("f83", 0) + 1
                    self.bad("miss", "op %d: layer %d (filters %s) missed callsite %d (level %d): the stack's max-level hint is %d (none-layer next to a "
                             "per-layer-filtered layer)" % (i, rec["n"], rec["chain"], cs, m["level"], self.hint), "F83")
                elif m["level"] > self.hint and not obs and self.pair_over_registry:
                    # F81's exact shape: the macro guard dropped the emission (no call reached the collector) because the stack's
                    # max-level hint is below its level, and the layer added directly to the Registry contains an `and_then` pair
                    self.stats["f81"] = self.stats.get("f81", 0) + 1
                    self.bad("miss", "op %d: layer %d (filters %s) missed callsite %d (level %d): the stack's max-level hint is %d" % (
                        i, rec["n"], rec["chain"], cs, m["level"], self.hint), "F81")
                    if sid is not None:
                        pass
                else:
                    self.bad("miss", "op %d: layer %d (filters %s) missed callsite %d although every global filter and all its own filters accept it"
                             % (i, rec["n"], rec["chain"], cs))
            if have and not want:
                self.bad("extra", "op %d: layer %d (filters %s) received callsite %d, rejected by %s" % (
                    i, rec["n"], rec["chain"], cs, "a global filter" if not globs_ok else "its own filters"))
            if have and want:
                ref = self.view(rec["chain"]) if code == "E" else sid
                self.check_views(i, rec, have[0], ref)
        if not globs_ok and sid is not None:
            self.bad("extra", "op %d: span at callsite %d was created although a global filter rejects it" % (i, cs))
        if sid is not None and not globs_ok:
            pass
        # bookkeeping: which filters keep / lose a stale answer
        if dispatched and not had_pass:
            # did_enable of every filter reached by this dispatch consumes its bit
            reached = [k for k in self.order if self.taint.get(k) and all(not self.taint.get(a) for a in self.chain_of(k)[:-1])]
            for k in reached:
                self.taint.pop(k)
        self.after_passes(obs, consumed=dispatched)
        if code == "S" and sid is not None and not globs_ok:
            pass
        # non-triviality bookkeeping
        if dispatched and not had_pass:
            self.always_hits[cs] = self.always_hits.get(cs, 0) + 1
        filt_recs = [(rec["n"], globs_ok and all(acc[k] for k in rec["chain"])) for rec in self.recs if rec["chain"]]
        if len({w for _, w in filt_recs}) == 2:
            self.stats["disagree"] += 1

    def lifecycle(self, i, code, h, obs, deliveries):
        sid = self.handles[h] if h < len(self.handles) else None
        w = {"N": "N", "X": "X", "R": "R", "D": "C"}[code]
        closes = [o["id"] for o in obs if o.get("call") == "close"]
        events = []      # (what, span) notifications the registry performed, in order
        if sid is not None:
            if code == "N":
                dup = any(x == sid for x, _ in self.stack)
                self.stack.append([sid, dup])
                events.append(("N", sid))
            elif code == "X":
                for j in range(len(self.stack) - 1, -1, -1):
                    if self.stack[j][0] == sid:
                        del self.stack[j]
                        break
                events += [("C", c) for c in self._close_order(closes)]
                events.append(("X", sid))
            elif code == "R":
                events.append(("R", sid))
            elif code == "D":
                self.handles[h] = None
                events += [("C", c) for c in self._close_order(closes)]
        got = {}
        for d in deliveries:
            got.setdefault((d["d"], d["w"], d["x"]), []).append(d)
        for (what, s) in events:
            for rec in self.recs:
                want = self.acc_chain(s, rec["chain"])
                have = got.pop((rec["n"], what, s), [])
                if want and not have:
                    self.bad("follow-up-miss", "op %d: layer %d accepted span %d but did not get its %s" % (i, rec["n"], s, what))
                if have and not want:
                    self.bad("follow-up-extra", "op %d: layer %d got %s of span %d, which its filters rejected" % (i, rec["n"], what, s))
                if have and want:
                    if len(have) > 1:
                        self.bad("duplicate", "op %d: layer %d got %s of span %d %d times" % (i, rec["n"], what, s, len(have)))
                    if what != "C":
                        self.check_views(i, rec, have[0], s)
        for key in got:
            self.bad("stray", "op %d: delivery %s without a matching registry notification" % (i, key))
        for c in closes:
            self.spans.pop(c, None)

    def _close_order(self, closes):
        # the spy logs a close after the nested parent closes; the callbacks come child first
        return list(reversed(closes))


# ------------------------------------------------------------------------------------------------
# running the implementation and the model

def parse_impl(out):
    res = {"hint": None, "ops": [], "panic": None, "build_panic": None}
    for line in out.splitlines():
        if not line.startswith("{"):
            continue
        o = json.loads(line)
        if "hint" in o:
            res["hint"] = o["hint"]
        elif "build_panic" in o:
            res["build_panic"] = o["build_panic"]
        elif "panic" in o:
            res["panic"] = o
        elif "op" in o:
            res["ops"].append(o["obs"])
            res.setdefault("other", []).append(o.get("other", []))
    return res


WHATS = {"WEvent": "E", "WNew": "S", "WEnter": "N", "WExit": "X", "WClose": "C", "WRecord": "R"}
INT = {"INever": 0, "ISometimes": 1, "IAlways": 2}


def model_obs_to_json(o):
    tag = o[0] if isinstance(o, tuple) else o
    if tag == "ODeliver":
        _, name, w, cur, scope, par, nav = o
        unopt = lambda x: None if x is None else x[1]
        _, each, chain, pscope, root = nav
        return {"d": name, "w": WHATS[w[0]], "x": w[1], "cur": unopt(cur), "scope": list(scope), "par": unopt(par),
                "nav": [[unopt(p), list(s)] for p, s in each], "pch": list(chain), "psc": list(pscope), "root": list(root)}
    if tag == "OFEval":
        return {"fe": o[1], "r": o[2]}
    if tag == "OResult":
        return {"res": o[1]}
    if tag == "OCall":
        p = o[1]
        k = p[0]
        if k == "PRegister":
            return {"call": "reg", "cs": p[1], "i": INT[p[2]]}
        if k == "PEnabled":
            return {"call": "en", "cs": p[1], "r": p[2]}
        if k == "PEventEnabled":
            return {"call": "ee", "cs": p[1], "r": p[2]}
        if k == "PEvent":
            return {"call": "ev", "cs": p[1]}
        if k == "PNewSpan":
            return {"call": "ns", "cs": p[1], "id": p[2]}
        if k == "PClose":
            return {"call": "close", "id": p[1]}
    raise ValueError("unknown model observation %r" % (o,))


def run_impl(path, cases, workers):
    def one(case):
        payload = {"stack": case["stack"], "ops": case["ops"]}
        if "stack2" in case:
            payload["stack2"] = case["stack2"]
        rc, out = run_bin(path, input=json.dumps(payload), timeout=120)
        return rc, out
    with ThreadPoolExecutor(max_workers=workers) as ex:
        return list(ex.map(one, cases))


def corpus_cases():
    d = os.path.join(vlib.VERIF, "corpus", "C07")
    out = []
    if os.path.isdir(d):
        for f in sorted(os.listdir(d)):
            if f.endswith(".json"):
                c = json.load(open(os.path.join(d, f)))
                c.setdefault("kind", "corpus")
                c["id"] = "corpus/" + f
                assign_tags(c["stack"])
                if "stack2" in c:
                    assign_tags(c["stack2"])
                out.append(c)
    return out


MODEL_ENV = True       # EnvFilter leaves are part of the Coq model (FEnv)
REQUIRES = ("From Coq Require Import NArith List Bool.\nFrom TV Require Import Stack.Model Stack.Model2 Stack.Harness.\n"
            "Import ListNotations.\nLocal Open Scope N_scope.\nUnset Printing Records.")


def run(ctx, only=None, release=None):
    rep = Report(ctx)
    rep.rule = ("a case = (stack, history) or (two stacks, interleaved history); non-trivial = a stack of the case has >= 2 per-layer-filtered recorders that "
                "disagree on >= 1 emission of the history AND >= 1 callsite whose cached interest is `always` is dispatched twice on it; "
                "distinct = distinct case JSON")
    rep.trusted_base = [
        "Coq 8.16.1 kernel + vm_compute", "harness h_stack.rs (recording leaf, logging filter wrapper, transparent spy collector; one process per case)",
        "Python oracle in driver/props/c07.py (direct evaluation of the filters; bookkeeping of the span stack)",
        "driver/props/c07.py printers (case -> JSON for the harness and -> Gallina term for the model)"]
    rep.assumptions = [
        "the global max level (LevelFilter::current(), computed from max_level_hint: C08) is read from the implementation and given to the model as a parameter; "
        "the theorems assume it is sound (HintSound: nothing above it is accepted by anybody)",
        "class of stacks (Spec.shape / WF): every Filtered wraps recording layers only (no global filter, no vetoing layer inside a Filtered: documented use); "
        "at most 63 per-layer filters for the delivery theorems (64 was finding F71; more than 64 attempted filters: the `many` stream on debug and "
        "release-style builds + Stack/IdBound.v: refused, or isolated); reload around a Filtered excluded (documented restriction); anything else - global filters and "
        "vetoing layers anywhere outside a Filtered, also inside Vec; empty Vec / None; any nesting - is inside",
        "user closures are pure; Targets directives use the three pool targets, none a prefix of another (directive matching is C11)",
        "one dispatcher per thread (two-stack cases: two threads, one stack each, operations handed out one at a time by a third thread); "
        "span handles are used only while alive (tracing's Span API guarantees it); span ids are never reused in the model",
        "follow-up theorems (enter / exit / record) are stated for spans still alive in the registry after the operation (reference counting is C05)"]
    # ---- leg B1: translator (which type Layered::new compares with Registry: finding F81 / its repair)
    text, unrec = stack_tr.main(ctx.repo, None)
    gen_if_changed(os.path.join(vlib.COQ, "gen", "Gen_stack.v"), text)
    rep.tie("translator:Gen_stack", not unrec, "; ".join(unrec[:3]), unrec[:1] or None)
    # ---- leg A
    rep.proof = coq_prove(ctx, "C07", ["theories/Properties/C07.vo", "theories/Stack/Harness.vo"])
    # ---- cases
    rng = ctx.rng
    n = 800 if not ctx.thorough() else 5200
    if only is not None:
        cases = only
    else:
        cases = corpus_cases()
        kinds = ["clean"] * 5 + ["agree"] * 7 + ["deep"] * 4 + ["unclean"] * 4 + ["flat"] * 3 + ["outside"] * 2 + ["above"] + ["env"] * 3 + ["allpsf"] * 3
        for i in range(n):
            cases.append(gen_case(rng, i, kinds[i % len(kinds)]))
        for i in range(n // 6):
            cases.append(gen_two(rng, n + i))
    many = [c for c in cases if c["kind"] == "many"]
    cases = [c for c in cases if c["kind"] != "many"]
    if only is None:
        many += [gen_many(rng, i) for i in range(24 if not ctx.thorough() else 150)]
    for c in cases + many:
        rep.count("kind:" + c["kind"])
        rep.count("depth:%d" % len(c["stack"]))
        if "stack2" in c:
            rep.count("depth:%d" % len(c["stack2"]))
        rep.count("ops:%d" % (10 * (len(c["ops"]) // 10)))
        for op in c["ops"]:
            rep.count("op:" + op[0])
    builds = [False] + ([True] if ctx.thorough() else [])
    if release is not None:
        builds = [release]
    if not cases:
        builds = []
    model = None
    for rel in builds:
        prof = "release" if rel else "debug"
        ok, paths, log = cargo_build(ctx, "stack", ["h_stack"], release=rel)
        if not ok:
            rep.tie("build:h_stack-" + prof, False, vlib.last_error(log))
            return rep
        raw = run_impl(paths["h_stack"], cases, vlib.NCPU)
        impls = []
        for case, (rc, out) in zip(cases, raw):
            if rc != 0:
                rep.tie("run:h_stack-" + prof, False, "case %s rc=%d %s" % (case["id"], rc, vlib.last_error(out)), {"case": case})
                return rep
            impls.append(parse_impl(out))
        ctx.log("%s: ran %d cases" % (prof, len(cases)))
        # ---- model on the same cases (needs the implementation's max level)
        if model is None:
            try:
                terms = []
                chunk = 40
                for j in range(0, len(cases), chunk):
                    items = []
                    for case, impl in zip(cases[j:j + chunk], impls[j:j + chunk]):
                        mx = impl["hint"] if impl["hint"] is not None else 5
                        if has_env(case) and not MODEL_ENV:
                            items.append("(@nil (list obs), @nil bool, (0, 0))")
                        elif "stack2" in case:
                            h2 = "[" + "; ".join("(%s, %s %d)" % ("TA" if t == 0 else "TB", OPC[c], a) for c, a, t in case["ops"]) + "]"
                            items.append("run2_case %s %s %d %s" % (coq_coll(case["stack"]), coq_coll(case["stack2"]), mx, h2))
                        else:
                            items.append("(let '(o, b, n) := run_case %s %d %s in (o, b, (n, 0)))" % (coq_coll(case["stack"]), mx, coq_ops(case["ops"])))
                    terms.append(("m%d" % j, "[" + ";\n ".join(items) + "]"))
                res = coq_eval(ctx, REQUIRES, terms, tag="c07cases")
                model = []
                for j in range(0, len(cases), chunk):
                    model += res["m%d" % j]
            except Exception as ex:  # ModelEvalError / parse problem: the tie is broken, the oracle still runs
                rep.tie("model-eval", False, str(ex)[:400])
                model = None
        # ---- correspondence + oracle
        disagree = []
        for ci, (case, impl) in enumerate(zip(cases, impls)):
            rep.evaluations += 1
            if impl["build_panic"]:
                rep.violation("building the stack panicked: %s [%s]" % (impl["build_panic"], prof), {"case": case, "profile": prof})
                continue
            two = "stack2" in case
            if has_env(case) and not well_nested(case["ops"]):
                # an EnvFilter's span directives are specified for well-nested histories only (C11); its scope is a plain stack
                rep.count("outside-class(EnvFilter on a history that is not well nested: not judged)")
                continue
            if two:
                # each thread is judged on its own: its stack, its operations, what its own stack logged
                views = [project(case, impl, t) for t in (0, 1)]
                orcs = [Oracle(sub, im).run() for sub, im, _ in views]
                for oi, other in enumerate(impl.get("other", [])):
                    stray = [o for o in other if o.get("call") != "reg"]
                    if stray:
                        rep.violation("two stacks: an operation of thread %d reached the other thread's stack: %s [%s build]"
                                      % (case["ops"][oi][2], stray[:3], prof), {"case": case, "profile": prof, "op": oi})
            else:
                orcs = [Oracle(case, impl).run()]
            clean_impl = all(o.clean for o in orcs)
            if model is not None and (MODEL_ENV or not has_env(case)):
                outs, bares, bits = model[ci]
                strip = (lambda obs: [o for o in obs if o.get("call") != "reg"]) if two else (lambda obs: obs)
                mops = [strip([model_obs_to_json(o) for o in op]) for op in outs]
                iops = [strip(op) for op in impl["ops"]]
                nimpl = len(iops)
                for oi in range(min(nimpl, len(mops))):
                    if iops[oi] != mops[oi] and not (impl["panic"] and oi == nimpl - 1):
                        disagree.append({"case": case, "op": oi, "impl": iops[oi], "model": mops[oi], "profile": prof})
                        break
                if nimpl != len(mops) and not impl["panic"]:
                    disagree.append({"case": case, "op": "count", "impl": nimpl, "model": len(mops)})
                model_clean = not any(bares)
                if not impl["panic"] and model_clean != clean_impl:
                    disagree.append({"case": case, "op": "clean", "impl": clean_impl, "model": model_clean})
                if model_clean and tuple(bits) != (0, 0) and all(o.in_class and len(o.filts) <= 63 for o in orcs):
                    # C07_bitmap_clean, observed on the model's own run (stacks outside WF are exempt: F71's 64 filters)
                    disagree.append({"case": case, "op": "bits", "model": bits})
                rep.traces_validated += 1
            rep.count("clean" if clean_impl else "unclean-history")
            if impl["panic"]:
                # debug_asserts in FilterState: only ever legitimate after an unconsumed enabled pass (F3's precondition)
                rep.count("panic")
                porc = orcs[case["ops"][impl["panic"]["op"]][2]] if two else orcs[0]
                rep.violation("panic at op %d: %s [%s]" % (impl["panic"]["op"], impl["panic"]["panic"][:200], prof),
                              {"case": case, "profile": prof, "panic": impl["panic"]},
                              finding="F71" if porc.full else ("F3" if not porc.clean else None))
            for t, orc in enumerate(orcs):
                if orc.in_class:
                    for k, v in orc.stats.items():
                        rep.count("oracle:" + k, v)
                    if orc.stats["disagree"] and any(v >= 2 for v in orc.always_hits.values()):
                        rep.nontrivial.add(json.dumps([case["stack"], case.get("stack2"), case["ops"]], sort_keys=True))
                    for what, detail, finding in orc.violations:
                        if two:
                            detail = "thread %d (its operation numbers): %s" % (t, detail)
                        rep.violation("%s: %s [%s build]" % (what, detail, prof),
                                      {"case": {k: case[k] for k in ("stack", "stack2", "ops") if k in case}, "kind": case["kind"],
                                       "profile": prof, "detail": detail}, finding=finding)
                else:
                    rep.count("outside-class(correspondence only)")
        if model is not None:
            rep.tie("correspondence:" + prof, not disagree, "%d disagreements in %d cases" % (len(disagree), len(cases)), disagree[:1] or None)
    # ---- more than 64 per-layer filters: debug AND release-style (debug-assertions / overflow-checks off) builds, every tier
    if many:
        run_many(ctx, rep, many, ["debug", "release"] if release is None else ["release" if release else "debug"])
    rep.exhaustive = False
    rep.samples = [{"stack": c["stack"], "ops": c["ops"][:8]} for c in cases[:3]] + \
                  [{"stack": c["stack"], "stack2": c["stack2"], "ops": c["ops"][:8]} for c in cases if "stack2" in c][:1]
    return rep


def replay(ctx, payload):
    """./check C07 --replay FILE: re-run the one recorded case (same build profile) against the real crates, the model and the oracle"""
    c = payload.get("case") or {}
    if "first_disagreements" in payload:
        try:
            c = payload["first_disagreements"][0][0]
        except (IndexError, KeyError, TypeError):
            c = {}
    prof = c.get("profile", "debug")
    kind = c.get("kind")
    while isinstance(c.get("case"), dict):
        c = c["case"]
        kind = c.get("kind", kind)
    if "stack" not in c or "ops" not in c:
        rep = Report(ctx)
        rep.rule = "replay"
        rep.tie("replay:payload", False, "no recorded case in this file")
        return rep
    case = {"id": "replay", "kind": "many" if kind == "many" else c.get("kind", "replay"), "stack": c["stack"], "ops": c["ops"]}
    assign_tags(case["stack"])
    if "stack2" in c:
        case["stack2"] = c["stack2"]
        assign_tags(case["stack2"])
    rep = run(ctx, only=[case], release=(prof == "release"))
    rep.rule = "replay of one recorded case (%s build)" % prof
    rep.nontrivial.add("replay")
    return rep
