"""C06 — Current span, parent and scope mirror each thread's enter/exit history.

Leg A: coq/theories/Properties/C06.v — over ALL histories of Registry/Model.v: `current` = last of the
       entered-and-not-exited list of the thread (stack.rs verbatim, out-of-order exits), frame rule between threads,
       parent resolution for spans and events, scope = creation-time ancestor chain (recursion on creation rank, no
       fuel), ancestors readable while a descendant / captured trace lives (from C05's reference-count invariant).
Leg B: the same correspondence as C05 (props/regcommon.py): every event op makes layer 1 record lookup_current,
       event_span, event_scope (+ from_root) and, for EVERY span created so far, span(id).scope(), .from_root() and the
       SpanRef::parent chain; user code reads Span::current() and SpanTrace::with_spans.
Leg C: oracle — the abstract specification (per-thread list of entered-not-exited spans, creation-time parent
       forest) judged against the IMPLEMENTATION's observations; the 'current' clause is skipped while a re-entry is on
       the thread's stack (excluded by the property text)."""
from vlib import Report
import props.regcommon as R

RULE = ("the C05 histories (2 registry instances x 3 OS threads, 8-90 ops, <=12 spans). non-trivial (C06) = (>=1 out-of-order "
        "exit AND span depth >= 3) OR the same span entered on two threads at once; distinct = distinct case id (distinct op list)")


def run(ctx):
    rep = Report(ctx)
    rep.rule = RULE
    rep.trusted_base = R.TRUSTED
    rep.assumptions = R.ASSUMPTIONS_C06
    return R.run_common(ctx, "C06", rep, ["theories/Properties/C06.vo"])


def replay(ctx, payload):
    rep = Report(ctx)
    rep.rule = "replay of one recorded failing input"
    rep.trusted_base = R.TRUSTED
    rep.assumptions = R.ASSUMPTIONS_C06
    return R.replay_common(ctx, "C06", rep, payload, ["theories/Properties/C06.vo"])
