"""C10 — deterministic generator of the macro-invocation corpus (no dependence on the seed or the repo).

One description per invocation *template*; from it are derived
  * the Rust source of the template (written into harness/fields/src/gen/ before cargo build),
  * the expected observations for a given data table / round / collector (the oracle, c10.py),
  * the Coq term handed to the model (the correspondence, c10.py).

A template draws its payloads at run time from a data table (`d.u8(j)` = element (round + j) of the
u8 domain), so one compiled invocation is exercised with every boundary value and with seeded random
payloads.  Every value / message-argument expression inside the macro is wrapped in `t(i, ..)`
(support.rs) so evaluations are counted; dotted shorthand paths go through a counting `Deref`."""
import random
import struct

INT_RANGES = {
    "u8": (0, 2 ** 8 - 1), "u16": (0, 2 ** 16 - 1), "u32": (0, 2 ** 32 - 1), "u64": (0, 2 ** 64 - 1), "u128": (0, 2 ** 128 - 1),
    "usize": (0, 2 ** 64 - 1),
    "i8": (-2 ** 7, 2 ** 7 - 1), "i16": (-2 ** 15, 2 ** 15 - 1), "i32": (-2 ** 31, 2 ** 31 - 1), "i64": (-2 ** 63, 2 ** 63 - 1),
    "i128": (-2 ** 127, 2 ** 127 - 1), "isize": (-2 ** 63, 2 ** 63 - 1),
}
INTS = list(INT_RANGES)
# The property's own statement of "the visitor method for its type" (not read from the code).
SPEC_METHOD = {"u8": "u64", "u16": "u64", "u32": "u64", "u64": "u64", "usize": "u64", "i8": "i64", "i16": "i64", "i32": "i64",
               "i64": "i64", "isize": "i64", "u128": "u128", "i128": "i128", "f32": "f64", "f64": "f64", "bool": "bool"}
LEVELS = ["ERROR", "WARN", "INFO", "DEBUG", "TRACE"]
EVENT_MACROS = ["event", "error", "warn", "info", "debug", "trace"]
SPAN_MACROS = ["span", "error_span", "warn_span", "info_span", "debug_span", "trace_span"]
CONSTS = {"CN0": "const.name zero", "CN1": "CN one", "CN2": "r#const", "CN3": "c3"}


def hexs(b):
    return b.hex()


def f32_to_f64_bits(b32):
    x = struct.unpack("<f", struct.pack("<I", b32))[0]
    if x != x:
        return "nan"
    return struct.unpack("<Q", struct.pack("<d", x))[0]


# ------------------------------------------------------------------------------------------------
# value kinds

class Kind:
    def __init__(self, name, dom, expr, method=None, canon=None, sig=False, disp=None, dbg=None, pre=None, sh_ok=True, inner=None,
                 dbg_only=False):
        self.name, self.dom, self.expr, self.method, self.canon = name, dom, expr, method, canon
        self.sig, self.disp, self.dbg, self.pre, self.sh_ok = sig, disp, dbg, pre, sh_ok
        self.dbg_only = dbg_only       # has Debug but no Display: `%` is not applicable
        self.inner = inner or name     # Coq vty description


def _dec(v, *_):
    return str(v)


def _hex_utf8(v, *_):
    return v.encode("utf-8").hex()


KINDS = {}


def _add(k):
    KINDS[k.name] = k


for _p in INTS:
    _add(Kind(_p, _p, "d.%s({j})" % _p, SPEC_METHOD[_p], _dec, sig=True, disp=_dec, dbg=_dec))
    _add(Kind("nz_" + _p, "nz_" + _p, "d.nz_%s({j})" % _p, SPEC_METHOD[_p], _dec, sig=True, disp=_dec, dbg=_dec))
for _p in ("u8", "i16", "u64", "i128", "usize", "isize", "i64", "u128"):
    _add(Kind("wr_" + _p, _p, "std::num::Wrapping(d.%s({j}))" % _p, SPEC_METHOD[_p], _dec))
_add(Kind("wr_nz_u16", "nz_u16", "std::num::Wrapping(d.nz_u16({j}))", "u64", _dec))
_add(Kind("f32", "f32", "d.f32({j})", "f64", lambda v, *_: f32_to_f64_bits(v), sig=True,
          disp=lambda v, refs, i: refs["f32_disp"][i], dbg=lambda v, refs, i: refs["f32_dbg"][i]))
_add(Kind("f64", "f64", "d.f64({j})", "f64", lambda v, *_: ("nan" if ((v >> 52) & 0x7ff) == 0x7ff and (v & ((1 << 52) - 1)) else v), sig=True,
          disp=lambda v, refs, i: refs["f64_disp"][i], dbg=lambda v, refs, i: refs["f64_dbg"][i]))
_add(Kind("bool", "bool", "d.bool({j})", "bool", lambda v, *_: "true" if v else "false", sig=True,
          disp=lambda v, *_: "true" if v else "false", dbg=lambda v, *_: "true" if v else "false"))
_STRSIG = dict(sig=True, disp=lambda v, *_: v, dbg=lambda v, refs, i: refs["str_dbg"][i])
_add(Kind("str", "str", "d.str({j})", "str", _hex_utf8, **_STRSIG))
_add(Kind("string", "str", "d.str({j}).to_string()", "str", _hex_utf8, **_STRSIG))
_add(Kind("box_str", "str", "Box::<str>::from(d.str({j}))", "str", _hex_utf8))
_add(Kind("ref_string", "str", "&b{k}", "str", _hex_utf8, pre="let b{k} = d.str({j}).to_string();"))
_add(Kind("bytes", "bytes", "d.bytes({j})", "bytes", lambda v, *_: v.hex()))
_add(Kind("box_bytes", "bytes", "Box::<[u8]>::from(d.bytes({j}))", "bytes", lambda v, *_: v.hex()))


def _errcanon(v, *_):
    return "|".join(s.encode("utf-8").hex() for s in v)


for _n in ("err", "err_send", "err_sync", "err_send_sync", "box_err"):
    _add(Kind(_n, "err", "d.%s({j})" % _n, "error", _errcanon))
_add(Kind("ref_u32", "u32", "&b{k}", "u64", _dec, pre="let b{k} = d.u32({j});"))
_add(Kind("refref_i8", "i8", "&bb{k}", "i64", _dec, pre="let b{k} = d.i8({j}); let bb{k} = &b{k};"))
_add(Kind("mut_u16", "u16", "&mut m{k}", "u64", _dec, pre="let mut m{k} = d.u16({j});"))
_add(Kind("box_u64", "u64", "Box::new(d.u64({j}))", "u64", _dec))
_add(Kind("box_ref_i128", "i128", "Box::new(&b{k})", "i128", _dec, pre="let b{k} = d.i128({j});"))
_add(Kind("ref_f32", "f32", "&b{k}", "f64", lambda v, *_: f32_to_f64_bits(v), pre="let b{k} = d.f32({j});"))
_add(Kind("ref_bool", "bool", "&b{k}", "bool", lambda v, *_: "true" if v else "false", pre="let b{k} = d.bool({j});"))
_add(Kind("disp_str", "str", "tracing::field::display(d.str({j}))", "debug", lambda v, *_: v.encode().hex()))
_add(Kind("dbg_str", "str", "tracing::field::debug(d.str({j}))", "debug", lambda v, refs, i: refs["str_dbg"][i].encode().hex()))
_add(Kind("disp_dd", "u32", "tracing::field::display(DD(d.u32({j})))", "debug", lambda v, *_: ("D<%d>" % v).encode().hex()))
_add(Kind("dbg_dd", "u32", "tracing::field::debug(DD(d.u32({j})))", "debug", lambda v, *_: ("G<%d>" % v).encode().hex()))
_add(Kind("args", "i32", "format_args!(\"A{{}}Z\", d.i32({j}))", "debug", lambda v, *_: ("A%dZ" % v).encode().hex(), sh_ok=False))
_add(Kind("empty", None, "tracing::field::Empty", None, None))
# not a Value: only through sigils
_add(Kind("dd", "u32", "DD(d.u32({j}))", None, None, sig=True, disp=lambda v, *_: "D<%d>" % v, dbg=lambda v, *_: "G<%d>" % v))

# Option<T> is not a `Value` in this tracing-core and has no Display: only `?opt`
_add(Kind("opt_u8", "u8", "d.opt_u8({j})", None, None, sig=True, dbg=lambda v, *_: ("Some(%d)" % v) if v % 2 == 0 else "None", dbg_only=True))

PLAIN_KINDS = [k for k in KINDS if KINDS[k].method is not None or k == "empty"]
SIGIL_KINDS = ["u8", "i64", "u128", "i128", "usize", "bool", "str", "string", "f64", "f32", "dd", "nz_u8", "nz_i32", "opt_u8"]
FMT_KINDS = ["u8", "i32", "i64", "u128", "bool", "str", "dd", "isize"]


# ------------------------------------------------------------------------------------------------
# template construction

class Tpl:
    def __init__(self, tid, kind, macro, level):
        self.id, self.kind, self.macro, self.level = tid, kind, macro, level
        self.name = None          # `name:` prefix (events) / span name
        self.target = None        # `target:` prefix
        self.parent = None        # None | 'span' (parent: &d.parent) | 'none' (parent: None::<Id>)
        self.brace = False
        self.items = []
        self.fmt = None
        self.trailing = False
        self.post = []            # span follow-up operations
        self.group = ""
        self.fragile = False      # compiles only because of the exact shape of one arm group: kept in a module of its own
        self._slot = 0
        self._tick = 0
        self._var = 0

    # -- allocation helpers
    def slot(self):
        self._slot += 1
        return self._slot - 1

    def tick(self):
        self._tick += 1
        return self._tick - 1

    def var(self):
        self._var += 1
        return self._var - 1

    def nticks(self):
        return self._tick


NAME_POOL = ["a", "b", "c", "foo", "bar", "baz", "qux", "alpha", "beta", "user_id", "x1", "y_2", "fld", "k", "v", "n", "zed", "len", "msg", "id"]
DOT_POOL = ["a.b", "foo.bar.baz", "http.status", "x.y.z.w", "n.m", "r#type.x", "k.r#fn"]
RAW_POOL = ["r#type", "r#fn", "r#match", "r#mod"]
LIT_POOL = ["lit name", "with.dot", "dash-name", "ünï cödé ✓", "q\"uote", "back\\slash", "0lead", "r#lit", " sp ", "a=b"]


def rust_str(s):
    out = []
    for ch in s:
        if ch == '"':
            out.append('\\"')
        elif ch == "\\":
            out.append("\\\\")
        elif ch == "\n":
            out.append("\\n")
        elif ord(ch) < 32:
            out.append("\\u{%x}" % ord(ch))
        else:
            out.append(ch)
    return '"' + "".join(out) + '"'


def mk_item(t, form, nk, sigil, vk, uniq):
    """form: 'kv' | 'sh'.  nk (name kind): path | dotted | raw | lit | const   (sh: path | dotted | raw).
    Returns the item description; names are made unique within the template with `uniq`."""
    k = KINDS[vk]
    if sigil == "%" and k.dbg_only:
        sigil = "?"
    it = {"form": form, "nk": nk, "sigil": sigil, "vk": vk, "slot": None, "tick": None, "var": None}
    if k.dom is not None:
        it["slot"] = t.slot()
    if form == "kv":
        if nk == "path":
            nm = "%s%d" % (NAME_POOL[uniq % len(NAME_POOL)], uniq)
            it["name"], it["src"] = nm, nm
        elif nk == "dotted":
            base = DOT_POOL[uniq % len(DOT_POOL)]
            nm = "%s.u%d" % (base, uniq)
            it["name"], it["src"] = nm, nm
        elif nk == "raw":
            # the same raw identifier may not repeat in one callsite only by our own choice of unique names
            nm = RAW_POOL[uniq % len(RAW_POOL)] if uniq < len(RAW_POOL) else "r#u%d" % uniq
            it["name"], it["src"] = nm, nm
        elif nk == "lit":
            nm = "%s %d" % (LIT_POOL[uniq % len(LIT_POOL)], uniq)
            it["name"], it["src"] = nm, rust_str(nm)
        elif nk == "const":
            cn = "CN%d" % (uniq % 4)
            it["name"], it["src"] = CONSTS[cn], "{ %s }" % cn
        it["tick"] = t.tick()
        it["var"] = t.var()
    else:
        v = t.var()
        it["var"] = v
        if nk == "path":
            it["name"] = it["src"] = "x%d" % v
        elif nk == "raw":
            it["name"] = it["src"] = "r#x%d" % v
        elif nk == "dotted":
            deep = v % 3
            it["name"] = it["src"] = ["h%d.val" % v, "h%d.sub.val" % v, "h%d.r#type" % v][deep]
            it["deep"] = deep
            it["tick"] = t.tick()
    return it


def mk_fmt(t, rng, nargs, ncaps=0, style=0):
    pieces = []
    args = []
    lits = ["msg ", " and ", " → ", " é ", "; ", " / ", "#"]
    pieces.append(("lit", lits[style % len(lits)]))
    for a in range(nargs):
        vk = FMT_KINDS[(style + a) % len(FMT_KINDS)]
        spec = "{}" if (a + style) % 3 else "{:?}"
        # the last explicit argument is sometimes a *named* one: "{nm3:?}", nm3 = expr
        args.append({"vk": vk, "slot": t.slot(), "tick": t.tick(), "var": t.var(), "spec": spec, "cap": False,
                     "named": a == nargs - 1 and style % 3 == 1})
        pieces.append(("arg", len(args) - 1))
        pieces.append(("lit", lits[(style + a + 1) % len(lits)]))
    for c in range(ncaps):
        vk = FMT_KINDS[(style + c + 3) % len(FMT_KINDS)]
        spec = "" if c % 2 == 0 else ":?"
        args.append({"vk": vk, "slot": t.slot(), "tick": None, "var": t.var(), "spec": spec, "cap": True})
        pieces.append(("arg", len(args) - 1))
        pieces.append(("lit", "|"))
    return {"pieces": pieces, "args": args}


# ------------------------------------------------------------------------------------------------
# Rust code generation

def value_expr(t, it, pre):
    k = KINDS[it["vk"]]
    e = k.expr.replace("{j}", str(it["slot"])).replace("{k}", str(it["var"])).replace("{{", "{").replace("}}", "}")
    if k.pre:
        pre.append(k.pre.replace("{j}", str(it["slot"])).replace("{k}", str(it["var"])))
    return e


def item_src(t, it, pre):
    e = value_expr(t, it, pre)
    if it["form"] == "kv":
        return "%s = %st(%d, %s)" % (it["src"], it["sigil"], it["tick"], e)
    v = it["var"]
    if it["nk"] in ("path", "raw"):
        pre.append("let %s = %s;" % (it["src"], e))
    else:
        wrap = ["H1 { val: %s }", "H2 { sub: H1 { val: %s } }", "HR { r#type: %s }"][it["deep"]] % e
        pre.append("let h%d = Cnt::new(%d, %s);" % (v, it["tick"], wrap))
    return it["sigil"] + it["src"]


def fmt_src(t, f, pre):
    s = []
    for p in f["pieces"]:
        if p[0] == "lit":
            s.append(p[1])
        else:
            a = f["args"][p[1]]
            if a["cap"]:
                s.append("{cap%d%s}" % (a["var"], a["spec"]))
            elif a.get("named"):
                s.append("{nm%d%s}" % (a["var"], a["spec"][1:-1]))
            else:
                s.append(a["spec"])
    out = [rust_str("".join(s))]
    for a in f["args"]:
        e = value_expr(t, a, pre)
        if a["cap"]:
            pre.append("let cap%d = %s;" % (a["var"], e))
        elif a.get("named"):
            out.append("nm%d = t(%d, %s)" % (a["var"], a["tick"], e))
        else:
            out.append("t(%d, %s)" % (a["tick"], e))
    return ", ".join(out)


def prefixes_src(t):
    p = []
    if t.kind == "event" and t.name is not None:
        p.append("name: %s" % rust_str(t.name))
    if t.target is not None:
        p.append("target: %s" % rust_str(t.target))
    if t.parent == "span":
        p.append("parent: &d.parent")
    elif t.parent == "none":
        p.append("parent: None::<tracing::Id>")
    return "".join(x + ", " for x in p)


def rust_of(t):
    pre = []
    items = [item_src(t, it, pre) for it in t.items] if t.kind != "enabled" else []
    body = []
    lvl = "tracing::Level::%s, " % t.level if t.macro in ("event", "span", "enabled", "event_enabled", "span_enabled") else ""
    if t.kind == "event":
        if t.brace:
            inner = "{ " + ", ".join(items) + (", " if t.trailing and items else "") + " }"
            rest = inner + (", " + fmt_src(t, t.fmt, pre) if t.fmt else "")
        else:
            parts = list(items)
            if t.fmt:
                parts.append(fmt_src(t, t.fmt, pre))
            rest = ", ".join(parts) + ("," if t.trailing else "")
        call = "tracing::%s!(%s%s%s);" % (t.macro, prefixes_src(t), lvl, rest)
        body = pre + [call, "0"]
    elif t.kind == "span":
        parts = [rust_str(t.name)] + items
        if t.fmt:
            parts.append(fmt_src(t, t.fmt, pre))
        call = "let sp = tracing::%s!(%s%s%s%s);" % (t.macro, prefixes_src(t), lvl, ", ".join(parts), "," if t.trailing else "")
        body = pre + [call]
        for op in t.post:
            body += post_src(t, op)
        body += ["drop(sp);", "0"]
    elif t.kind == "enabled":
        names = [it["src"] for it in t.items]
        tgt = "target: %s, " % rust_str(t.target) if t.target is not None else ""
        call = "let r = tracing::%s!(%s%s%s);" % (t.macro, tgt, lvl.rstrip(", ") if not names else lvl, ", ".join(names))
        body = [call, "r as i32"]
    return "#[inline(never)]\npub fn inv_%d(d: &D) -> i32 {\n    %s\n}\n" % (t.id, "\n    ".join(body))


def post_src(t, op):
    pre = []
    k = op["op"]
    if k == "record":          # sp.record("name", value)
        e = value_expr(t, op, pre)
        return pre + ["sp.record(%s, %s);" % (rust_str(op["name"]), e)]
    if k == "record_field":    # through a Field handle of the same callsite
        e = value_expr(t, op, pre)
        return pre + ["if let Some(f) = sp.field(%s) { sp.record(&f, %s); }" % (rust_str(op["name"]), e)]
    if k == "record_foreign":  # a Field of another callsite, same name / same index
        e = value_expr(t, op, pre)
        return pre + ["if let Some(f) = d.parent.field(\"pf\") { sp.record(&f, %s); }" % e]
    if k == "record_all":      # record_all!(sp, <all fields in declaration order>)
        items = [item_src(t, it, pre) for it in op["items"]]
        return pre + ["tracing::record_all!(sp, %s);" % ", ".join(items)]
    if k == "valueset":        # hand-built ValueSet: Some / None / foreign entries (doc(hidden) FieldSet::value_set)
        lines = list(pre)
        lines.append("if let Some(meta) = sp.metadata() {")
        lines.append("    let fs = meta.fields();")
        ents = []
        for i, en in enumerate(op["entries"]):
            p2 = []
            if en["what"] == "foreign":
                lines.append("    let f%d = d.parent.field(\"pf\").expect(\"parent span enabled\");" % i)
            else:
                lines.append("    let f%d = fs.field(%s).unwrap();" % (i, rust_str(en["name"])))
            if en["what"] == "none":
                ents.append("(&f%d, None)" % i)
            else:
                e = value_expr(t, en, p2)
                lines += ["    " + x for x in p2]
                ents.append("(&f%d, Some(&%s as &dyn tracing::field::Value))" % (i, e))
        lines.append("    sp.record_all(&fs.value_set(&[%s]));" % ", ".join(ents))
        lines.append("}")
        return lines
    raise ValueError(k)


# ------------------------------------------------------------------------------------------------
# the corpus

def build():
    rng = random.Random(0xC10)
    tpls = []

    def new(kind, macro, level=None):
        if level is None:
            level = {"error": "ERROR", "warn": "WARN", "info": "INFO", "debug": "DEBUG", "trace": "TRACE"}.get(macro.replace("_span", ""))
            if level is None:
                level = LEVELS[len(tpls) % 5]
        t = Tpl(len(tpls), kind, macro, level)
        if kind == "span":
            t.name = "span %d" % t.id
        tpls.append(t)
        return t

    def set_prefix(t, mask):
        if t.kind == "event":
            if mask & 1:
                t.name = "evt name %d" % t.id
            if mask & 2:
                t.target = "tgt::t%d" % (t.id % 7)
            if mask & 4:
                t.parent = "span" if t.id % 3 else "none"
        else:
            if mask & 1:
                t.target = "stgt::s%d" % (t.id % 5)
            if mask & 2:
                t.parent = "span" if t.id % 3 else "none"

    def has_prefix(t):
        return (t.kind == "event" and t.name is not None) or t.target is not None or t.parent is not None

    def first_ok(t, it):
        """Level shorthands with a prefix hand anything that does not start with an identifier to the
        format-args arm, and a *dotted* first name is a `local ambiguity` compile error there
        (`$($k:ident).+ $($field:tt)*`), so the first field must start with a plain identifier."""
        if t.kind != "event" or t.macro == "event" or not has_prefix(t):
            return True
        return it["nk"] in ("path", "raw")

    # ---- A: every macro x every prefix combination x 4 field-list shapes
    for mi, m in enumerate(EVENT_MACROS):
        for mask in range(8):
            for v in range(4):
                t = new("event", m)
                t.group = "A"
                set_prefix(t, mask)
                if v == 0:
                    nk = ["path", "dotted", "raw"][(mi + mask) % 3]
                    if nk == "dotted" and m != "event" and mask:
                        nk = "raw"
                    t.items.append(mk_item(t, "kv", nk, "", PLAIN_KINDS[(t.id * 7) % len(PLAIN_KINDS)], 0))
                elif v == 1:
                    t.items.append(mk_item(t, "kv", "path", ["", "?", "%"][mask % 3], SIGIL_KINDS[t.id % len(SIGIL_KINDS)] if mask % 3 else "u16", 0))
                    t.items.append(mk_item(t, "sh", "path", ["?", "%", ""][mi % 3], "str" if mi % 3 != 2 else "i32", 1))
                    t.items.append(mk_item(t, "kv", "lit", "", "bool", 2))
                    t.fmt = mk_fmt(t, rng, 2, ncaps=mask % 2, style=t.id)
                elif v == 2:
                    t.brace = True
                    t.items.append(mk_item(t, "kv", ["const", "lit", "path"][mask % 3], "", "i64", 0))
                    t.items.append(mk_item(t, "sh", "dotted", ["", "%", "?"][mi % 3], "str", 1))
                    t.fmt = mk_fmt(t, rng, 1 + mask % 2, style=t.id)
                    t.trailing = bool(mask & 1)
                else:
                    t.fmt = mk_fmt(t, rng, mask % 3, ncaps=(mask + mi) % 2, style=t.id)
    for mi, m in enumerate(SPAN_MACROS):
        for mask in range(4):
            for v in range(4):
                t = new("span", m)
                t.group = "A"
                set_prefix(t, mask)
                if v == 1:
                    t.items.append(mk_item(t, "kv", ["path", "lit", "const", "dotted"][(mi + mask) % 4], "", PLAIN_KINDS[(t.id * 5) % len(PLAIN_KINDS)], 0))
                    t.trailing = bool(mask & 1)
                elif v == 2:
                    t.items.append(mk_item(t, "kv", "path", "", "empty", 0))
                    t.items.append(mk_item(t, "kv", "dotted", "?", "str", 1))
                    t.items.append(mk_item(t, "kv", "path", "", "empty", 2))
                    t.items.append(mk_item(t, "sh", "path", "", "u64", 3))
                    n0, n2 = t.items[0]["name"], t.items[2]["name"]
                    t.post.append({"op": "record", "name": n0, "vk": "i32", "slot": t.slot(), "tick": None, "var": t.var()})
                    t.post.append({"op": "record", "name": "undeclared_%d" % t.id, "vk": "u8", "slot": t.slot(), "tick": None, "var": t.var()})
                    t.post.append({"op": "record_field", "name": n2, "vk": "str", "slot": t.slot(), "tick": None, "var": t.var()})
                    t.post.append({"op": "record_foreign", "vk": "u8", "slot": t.slot(), "tick": None, "var": t.var()})
                    # near misses of a declared name are undeclared too: other case, trailing space, proper prefix
                    for vn, vk in ((n0.upper(), "u8"), (n0 + " ", "bool"), (n0[:-1], "i64"), (n2.capitalize(), "str")):
                        t.post.append({"op": "record", "name": vn, "vk": vk, "slot": t.slot(), "tick": None, "var": t.var()})
                elif v == 3:
                    t.items.append(mk_item(t, "sh", ["path", "dotted", "raw"][mask % 3], ["?", "%"][mi % 2], SIGIL_KINDS[(t.id * 3) % len(SIGIL_KINDS)], 0))
                    t.items.append(mk_item(t, "kv", "raw", "%", "dd", 1))

    # ---- B: every field form x every value type (plain values: typed routing)
    forms = [("kv", "path"), ("kv", "dotted"), ("kv", "raw"), ("kv", "lit"), ("kv", "const"), ("sh", "path"), ("sh", "dotted")]
    n = 0
    for fi, (form, nk) in enumerate(forms):
        for ki, vk in enumerate(PLAIN_KINDS):
            if form == "sh" and not KINDS[vk].sh_ok:
                continue
            choices = [("event", "info"), ("span", "span")] if fi == 0 else [[("event", EVENT_MACROS[n % 6]), ("span", SPAN_MACROS[n % 6])][(n // 6) % 2]]
            for kind, m in choices:
                t = new(kind, m)
                t.group = "B"
                t.items.append(mk_item(t, form, nk, "", vk, 0))
                if n % 2:
                    # followed by another field: the NON-terminal arm (`.., $($rest)*`) of valueset!/fieldset!, not the terminal one
                    t.items.append(mk_item(t, "kv", "path", "", "u8", 1))
                elif n % 4 == 2:
                    t.trailing = True
                n += 1

    # ---- C: sigils x every form x sigil-capable types
    sforms = [("kv", nk, s) for nk in ("path", "dotted", "raw", "lit", "const") for s in ("?", "%")] + \
             [("sh", nk, s) for nk in ("path", "dotted") for s in ("?", "%")]
    for fi, (form, nk, s) in enumerate(sforms):
        for ki, vk in enumerate(SIGIL_KINDS):
            kind, m = [("event", EVENT_MACROS[n % 6]), ("span", SPAN_MACROS[n % 6])][(n // 6) % 2]
            # each (form, sigil, type) in terminal position and in non-terminal position (followed by a field / a message)
            for follow in (0, 1):
                t = new(kind, m)
                t.group = "C"
                t.items.append(mk_item(t, form, nk, s, vk, 0))
                if follow:
                    if kind == "event" and (fi + ki) % 3 == 0 and first_ok(t, t.items[0]):
                        t.fmt = mk_fmt(t, rng, 1, style=fi + ki)
                    else:
                        t.items.append(mk_item(t, ["kv", "sh"][(fi + ki) % 2], "path", ["", "?"][ki % 2], "i16", 1))
            n += 1

    # ---- D: order / once: multi-field invocations mixing everything
    def random_items(t, count):
        for u in range(count):
            form = "kv" if rng.random() < 0.7 else "sh"
            if form == "kv":
                nk = rng.choice(["path", "path", "dotted", "raw", "lit", "const"])
                if nk == "const" and any(i["nk"] == "const" and i["src"] == "{ CN%d }" % (u % 4) for i in t.items):
                    nk = "path"
            else:
                nk = rng.choice(["path", "dotted", "raw"])
            s = rng.choice(["", "", "", "?", "%"])
            if s:
                vk = rng.choice(SIGIL_KINDS)
            else:
                vk = rng.choice(PLAIN_KINDS)
                if t.kind == "event" and vk == "empty" and rng.random() < 0.5:
                    vk = "u8"
                if form == "sh" and not KINDS[vk].sh_ok:
                    vk = "i16"
            if not t.items and not first_ok(t, {"nk": nk}):
                form, nk = "kv", "path"
            it = mk_item(t, form, nk, s, vk, u)
            t.items.append(it)

    for q in range(130):
        kind = "event" if q % 3 else "span"
        m = (EVENT_MACROS if kind == "event" else SPAN_MACROS)[q % 6]
        t = new(kind, m)
        t.group = "D"
        set_prefix(t, rng.randrange(8 if kind == "event" else 4) if q % 2 else 0)
        random_items(t, rng.randint(2, 10))
        if kind == "event":
            r = rng.random()
            if r < 0.45:
                t.fmt = mk_fmt(t, rng, rng.randint(0, 3), ncaps=rng.randint(0, 1), style=q)
                if rng.random() < 0.35:
                    t.brace = True
            elif r < 0.6:
                t.trailing = True
        else:
            t.trailing = rng.random() < 0.2
            empties = [it for it in t.items if it["vk"] == "empty"]
            for it in empties[:2]:
                t.post.append({"op": "record", "name": it["name"], "vk": rng.choice(["i8", "str", "f64", "u128"]), "slot": t.slot(), "tick": None, "var": t.var()})
    for count, kind, m in ((33, "event", "info"), (64, "event", "event"), (40, "span", "debug_span")):
        t = new(kind, m)
        t.group = "D"
        random_items(t, count)
        if kind == "event":
            t.fmt = mk_fmt(t, rng, 2, style=count)

    # ---- E: enabled! family (field *names* only; no values exist)
    for q, m in enumerate(["enabled", "event_enabled", "span_enabled"] * 5):
        t = new("enabled", m, LEVELS[q % 5])
        t.group = "E"
        if q % 2:
            t.target = "en::t%d" % q
        for u in range(q % 4):
            nk = ["path", "dotted", "path"][u % 3]
            nm = "%s%d" % (NAME_POOL[(q + u) % len(NAME_POOL)], u) if nk == "path" else "%s.e%d" % (DOT_POOL[(q + u) % 5], u)
            t.items.append({"form": "name", "nk": nk, "name": nm, "src": nm, "sigil": "", "vk": "empty", "slot": None, "tick": None, "var": None})

    # ---- F: span follow-up recording: declared / undeclared / foreign / unset
    for q in range(24):
        t = new("span", SPAN_MACROS[q % 6])
        t.group = "F"
        t.items.append(mk_item(t, "kv", "path", "", "empty", 0))
        t.items.append(mk_item(t, "kv", ["lit", "dotted", "path"][q % 3], "", ["u32", "str", "empty"][q % 3], 1))
        t.items.append(mk_item(t, "kv", "path", ["", "?", "%"][q % 3], ["empty", "i64", "str"][q % 3], 2))
        names = [it["name"] for it in t.items]
        mode = q % 4
        if mode == 0:
            ents = [{"what": "some", "name": names[0], "vk": "u8"}, {"what": "none", "name": names[1]}, {"what": "some", "name": names[2], "vk": "str"}]
        elif mode == 1:
            ents = [{"what": "foreign", "name": names[0], "vk": "i32"}, {"what": "some", "name": names[1], "vk": "bool"}, {"what": "none", "name": names[2]}]
        elif mode == 2:
            ents = [{"what": "none", "name": names[0]}, {"what": "none", "name": names[1]}, {"what": "none", "name": names[2]}]
        else:
            ents = [{"what": "some", "name": names[2], "vk": "f32"}, {"what": "some", "name": names[0], "vk": "empty"}, {"what": "foreign", "name": names[1], "vk": "u64"}]
        for en in ents:
            if en["what"] != "none":
                en["slot"] = t.slot() if KINDS[en["vk"]].dom else None
                en["tick"] = None
                en["var"] = t.var()
        t.post.append({"op": "valueset", "entries": ents})
        if q % 2 == 0:
            # record_all! with every declared field in declaration order (its documented use)
            ra = []
            for u, nm in enumerate(names):
                it = {"form": "kv", "nk": t.items[u]["nk"], "name": nm, "src": t.items[u]["src"], "sigil": ["", "%", "?"][(q + u) % 3],
                      "vk": ["u16", "str", "i128"][(q + u) % 3], "slot": t.slot(), "tick": t.tick(), "var": t.var()}
                ra.append(it)
            t.post.append({"op": "record_all", "items": ra})
        t.post.append({"op": "record", "name": "nope %d" % q, "vk": "u8", "slot": t.slot(), "tick": None, "var": t.var()})
        if q % 3 == 0:
            t.post.append({"op": "record", "name": names[0].upper(), "vk": "i16", "slot": t.slot(), "tick": None, "var": t.var()})
            t.post.append({"op": "record", "name": names[2] + ".", "vk": "str", "slot": t.slot(), "tick": None, "var": t.var()})
    # ---- G: every macro x every prefix set x every shorthand form (`foo`, `?foo`, `%foo`, dotted), as FIRST field and in a
    # later position, on values whose Display and Debug differ: the forwarding arms of the level macros look at the first
    # tokens after the prefixes, so which arm is entered depends on (macro, prefix set, form of the first field, what follows).
    # What does not compile in the macros as they are (so cannot be in a compiled corpus):
    #   level macro + a prefix set with name:/target: + a DOTTED first field (`local ambiguity`, see first_ok);
    #   level macro + `parent:` only + a shorthand that is the whole field list (no arm; needs a trailing comma);
    #   event! + braces without message, without name:/target: (the catch-all arm wraps the braces again).
    SH_FORMS = [("path", ""), ("path", "?"), ("path", "%"), ("dotted", ""), ("dotted", "?"), ("dotted", "%")]
    for kind, macros, nmask in (("event", EVENT_MACROS, 8), ("span", SPAN_MACROS, 4)):
        for mi, m in enumerate(macros):
            for mask in range(nmask):
                level_pref = kind == "event" and m != "event" and mask != 0
                parent_only = level_pref and mask == 4
                for fi, (nk, sg) in enumerate(SH_FORMS):
                    vk = ["dd", "str"][(fi + mi + mask) % 2] if sg else ["str", "u64", "bool"][(fi + mi + mask) % 3]
                    first_allowed = not (level_pref and not parent_only and nk == "dotted")
                    # variant 0: the form first, then a k = v field, then the sibling form (path <-> dotted) in a later position
                    t = new(kind, m)
                    t.group = "G"
                    set_prefix(t, mask)
                    # a dotted first shorthand after `parent:` alone compiles only with the long-hand arm group (`k, rest`): if that
                    # group is rewritten in the compact shape of the other groups it becomes a `local ambiguity` error
                    fragile = parent_only and nk == "dotted"
                    t.fragile = fragile
                    if first_allowed:
                        t.items.append(mk_item(t, "sh", nk, sg, vk, 0))
                    t.items.append(mk_item(t, "kv", "path", "", "u8", 1))
                    nk2, sg2 = SH_FORMS[(fi + 3) % 6]
                    t.items.append(mk_item(t, "sh", nk2, sg2, ["str", "dd"][(fi + mi + mask) % 2] if sg2 else "i16", 2))
                    if not first_allowed:
                        t.items.append(mk_item(t, "sh", nk, sg, vk, 3))
                    if kind == "event" and (fi + mask) % 4 == 0:
                        t.fmt = mk_fmt(t, rng, 1, style=fi + mask + mi)
                    # variant 1: the form alone
                    if first_allowed:
                        t = new(kind, m)
                        t.group = "G"
                        set_prefix(t, mask)
                        t.items.append(mk_item(t, "sh", nk, sg, vk, 0))
                        t.fragile = fragile
                        t.trailing = parent_only or (fi + mask) % 5 == 0
                # event!(name:/target: .., LEVEL, { fields }) : the base arms entered directly (braces, no message)
                if kind == "event" and m == "event" and mask & 3:
                    t = new(kind, m)
                    t.group = "G"
                    set_prefix(t, mask)
                    t.brace = True
                    t.items.append(mk_item(t, "kv", "path", "%", "dd", 0))
                    t.items.append(mk_item(t, "sh", "path", "?", "str", 1))
                    t.trailing = bool(mask & 4)
    return tpls


NFILES = 12


def rust_files(tpls):
    """{relative path under harness/fields/src/gen: text}.  Templates marked `fragile` go to gfragile.rs, compiled unless the
    cargo feature `no_fragile` is on: when a change of the macros makes one of those forms a compile error, the driver reports
    that and still checks the rest of the corpus."""
    files = {}
    chunks = [[] for _ in range(NFILES)]
    frag = []
    for t in tpls:
        if t.fragile:
            frag.append(t)
        else:
            chunks[t.id % NFILES].append(t)
    hdr = ("// GENERATED by driver/props/c10_corpus.py — deterministic; do not edit.\n"
           "#![allow(unused_variables, unused_mut, unused_imports, non_snake_case, clippy::all)]\n"
           "use crate::support::*;\n")

    def one(ch):
        body = [hdr]
        for t in ch:
            body.append(rust_of(t))
        body.append("pub const INVS: &[(u32, Inv)] = &[\n%s];\n" % "".join("    (%d, inv_%d),\n" % (t.id, t.id) for t in ch))
        return "\n".join(body)
    for k, ch in enumerate(chunks):
        files["g%d.rs" % k] = one(ch)
    files["gfragile.rs"] = one(frag)
    mod = ["// GENERATED by driver/props/c10_corpus.py — deterministic; do not edit."]
    for k in range(NFILES):
        mod.append("pub mod g%d;" % k)
    mod.append("#[cfg(not(feature = \"no_fragile\"))]\npub mod gfragile;")
    mod.append("pub fn all() -> Vec<(u32, crate::support::Inv)> {\n    let mut v = Vec::new();")
    for k in range(NFILES):
        mod.append("    v.extend_from_slice(g%d::INVS);" % k)
    mod.append("    #[cfg(not(feature = \"no_fragile\"))]\n    v.extend_from_slice(gfragile::INVS);")
    mod.append("    v.sort_by_key(|x| x.0);\n    v\n}")
    files["mod.rs"] = "\n".join(mod) + "\n"
    return files


if __name__ == "__main__":
    import collections
    ts = build()
    print(len(ts), collections.Counter(t.group for t in ts), max(t.nticks() for t in ts))
