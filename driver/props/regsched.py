"""C05, schedule leg: forced interleavings of the registry's reference-count micro-steps against the real code.

Needs the H3 yield points of hooks/H3_registry.patch (51/56 around fetch_add, 52/55 around fetch_sub, 53 before
spans.clear, 54 before the cascade's try_close(parent)); when the tree under check does not have them the harness
reports `yields_seen: false` and the leg is skipped (counted in the histogram).

A scenario = a small forest of spans created on the controller thread, handles distributed over 2-3 worker threads, and a
short program per worker (drop / clone / enter / exit / new child).  harness/registry h_registry_sched enumerates every
interleaving of the workers at yield granularity depth-first (re-execution), up to a bound, then samples.

Three things are done with every run:
  * oracle (implementation only): per span, on_close per layer exactly once iff nothing refers to it when every thread has
    finished, children first, lookup inside on_close succeeds, afterwards the span is gone, no panic;
  * correspondence with `Sim`, a Python rendering of Registry/MicroReal.v plus the control flow of the operations: it is
    driven by the run's sequence of granted threads and must predict every yield point reached, every on_close and the
    final contents of the registry;
  * the micro-op list `Sim` produced is evaluated by Registry/MicroReal.v (`rrun fixed ops`, vm_compute) and the final
    states are compared (ties `Sim` to the Coq model the theorems are about)."""
import json

import vlib
from vlib import run_bin, coq_eval


# ------------------------------------------------------------------------------------------------
# scenarios

def scn_text(sc):
    lines = ["scenario %s %d %d %d %d" % (sc["id"], sc["layers"], sc["threads"], sc["maxruns"], sc["seed"])]
    for s in sc["setup"]:
        lines.append(" ".join(str(x) for x in s))
    for t, h in sc["own"]:
        lines.append("own %d %d" % (t, h))
    for t, op in sc["pre"]:
        lines.append("pre %d %s" % (t, " ".join(str(x) for x in op)))
    for t, prog in enumerate(sc["prog"]):
        for op in prog:
            lines.append("op %d %s" % (t, " ".join(str(x) for x in op)))
    lines.append("end")
    return "\n".join(lines) + "\n"


def fixed_scenarios(maxruns, seed):
    def sc(i, layers, threads, setup, own, prog, pre=()):
        return {"id": i, "layers": layers, "threads": threads, "maxruns": maxruns, "seed": seed, "setup": setup, "own": own,
                "pre": list(pre), "prog": prog}
    return [
        # the two classic races
        sc("last-two-handles", 2, 2, [("new", 1, "r"), ("clone", 1, 2)], [(0, 1), (1, 2)], [[("drop", 1)], [("drop", 2)]]),
        sc("cascade-vs-parent-drop", 2, 2, [("new", 1, "r"), ("new", 2, "e", 1)], [(0, 2), (1, 1)], [[("drop", 2)], [("drop", 1)]]),
        # a second handle of the CHILD is dropped on another thread while the child's closer clears it (deferred clear)
        sc("deferred-clear", 2, 2, [("new", 1, "r"), ("new", 2, "e", 1), ("clone", 2, 3)], [(0, 1), (0, 2), (1, 3)],
           [[("drop", 1), ("drop", 2)], [("drop", 3)]]),
        sc("deferred-clear-grandparent", 1, 2, [("new", 1, "r"), ("new", 2, "e", 1), ("new", 3, "e", 2), ("clone", 3, 4)],
           [(0, 1), (0, 2), (0, 3), (1, 4)], [[("drop", 1), ("drop", 2), ("drop", 3)], [("drop", 4)]]),
        sc("clone-vs-drop", 2, 2, [("new", 1, "r"), ("clone", 1, 2)], [(0, 1), (1, 2)], [[("clone", 1, 3), ("drop", 1)], [("drop", 2)]]),
        sc("enter-exit-vs-drop", 1, 2, [("new", 1, "r"), ("clone", 1, 2), ("clone", 1, 3)], [(0, 1), (1, 2), (0, 3)],
           [[("enter", 1), ("drop", 1), ("exit", 3), ("drop", 3)], [("drop", 2)]]),
        sc("new-child-vs-drop", 1, 2, [("new", 1, "r"), ("clone", 1, 2)], [(0, 1), (1, 2)],
           [[("new", 3, 1), ("drop", 1), ("drop", 3)], [("drop", 2)]]),
        sc("two-children-and-parent", 1, 3, [("new", 1, "r"), ("new", 2, "e", 1), ("new", 3, "e", 1)], [(0, 2), (1, 3), (2, 1)],
           [[("drop", 2)], [("drop", 3)], [("drop", 1)]]),
    ]


def random_scenario(rng, k, maxruns):
    threads = rng.choice([2, 2, 3])
    layers = rng.choice([1, 2])
    setup, own, handles = [], [], {}     # handles: h -> span index
    nspans = rng.randint(1, 4)
    h = 0
    spans_h = []
    for s in range(nspans):
        h += 1
        if s == 0 or rng.random() < 0.3:
            setup.append(("new", h, "r"))
        else:
            setup.append(("new", h, "e", rng.choice(spans_h)))
        handles[h] = s
        spans_h.append(h)
    for _ in range(rng.randint(0, 3)):
        src = rng.choice(list(handles))
        h += 1
        setup.append(("clone", src, h))
        handles[h] = handles[src]
    owner = {}
    for x in handles:
        owner[x] = rng.randrange(threads)
        own.append((owner[x], x))
    prog = [[] for _ in range(threads)]
    mine = {t: [x for x in handles if owner[x] == t] for t in range(threads)}
    entered = {t: [] for t in range(threads)}
    nspan = nspans
    for t in range(threads):
        for _ in range(rng.randint(1, 3)):
            r = rng.random()
            if r < 0.55 and mine[t]:
                x = rng.choice(mine[t])
                if x in entered[t]:
                    continue            # Collect::exit needs the handle: keep it while entered
                prog[t].append(("drop", x))
                mine[t].remove(x)
            elif r < 0.65 and mine[t]:
                x = rng.choice(mine[t])
                h += 1
                prog[t].append(("clone", x, h))
                mine[t].append(h)
            elif r < 0.8 and mine[t]:
                x = rng.choice(mine[t])
                prog[t].append(("enter", x))
                entered[t].append(x)
            elif r < 0.9 and entered[t]:
                x = entered[t].pop()
                prog[t].append(("exit", x))
            elif t == 0 and mine[t] and nspan < 7:      # creation numbers are assigned at op start: one creating thread
                x = rng.choice(mine[t])
                h += 1
                prog[t].append(("new", h, x))
                mine[t].append(h)
                nspan += 1
        # leave no span entered with its handle gone half of the time; otherwise exit what was entered
        for x in list(entered[t]):
            if rng.random() < 0.7:
                prog[t].append(("exit", x))
                entered[t].remove(x)
    return {"id": "rnd%d" % k, "layers": layers, "threads": threads, "maxruns": maxruns, "seed": rng.randrange(1, 1 << 30),
            "setup": setup, "own": own, "pre": [], "prog": prog}


# ------------------------------------------------------------------------------------------------
# Sim: Registry/MicroReal.v + the control flow of the operations, in Python

class Sim:
    def __init__(self, sc, fixed):
        self.sc = sc
        self.fixed = fixed
        self.layers = sc["layers"]
        self.refs, self.parent, self.marked, self.cleared, self.closed = [], [], [], [], []
        self.guards = []            # (t, s)
        self.handles = {}           # h -> span
        self.howner = {}            # h -> thread (0..n-1), controller = -1
        self.stacks = {t: [] for t in range(sc["threads"])}      # thread -> [(span, dup)]
        self.pc = {t: ("idle",) for t in range(sc["threads"])}
        self.ip = {t: 0 for t in range(sc["threads"])}
        self.closes = []            # (span, thread, lookup_ok)
        self.panic = None
        self.mops = []              # MicroReal ops (Coq terms); controller = thread 100
        self.deferred = []          # spans whose clear ran on a guard holder (nested cascade start)
        self.nested_noclear = []    # spans reported closed whose CloseGuard saw a count <> 1 (F51)
        CT = 100
        for s in sc["setup"]:
            if s[0] == "new":
                if s[2] == "r":
                    self._new(CT, None, s[1])
                else:
                    p = self.handles[s[3]]
                    self.mops.append("RClone %d %d" % (CT, p))
                    self.refs[p] += 1
                    self._new(CT, p, s[1])
            else:
                sp = self.handles[s[1]]
                self.mops.append("RClone %d %d" % (CT, sp))
                self.refs[sp] += 1
                self.handles[s[2]] = sp
                self.howner[s[2]] = -1
        for t, h in sc["own"]:
            self.howner[h] = t
            self.mops.append("RSend %d %d %d" % (CT, t, self.handles[h]))

    def _new(self, t, p, h):
        q = len(self.refs)
        self.refs.append(1)
        self.parent.append(p)
        self.marked.append(False)
        self.cleared.append(False)
        self.closed.append(0)
        self.handles[h] = q
        self.howner[h] = -1 if t == 100 else t
        self.mops.append("RNew %d %s" % (t, "None" if p is None else "(Some %d)" % p))
        return q

    def done(self, t):
        return self.pc[t] == ("done",)

    def step(self, t):
        """run thread t until its next yield point; returns the yield id, or -1 when its program is finished"""
        while True:
            pc = self.pc[t]
            k = pc[0]
            if k == "done":
                return -1
            if k == "idle":
                prog = self.sc["prog"][t]
                if self.ip[t] >= len(prog):
                    self.pc[t] = ("done",)
                    return -1
                op = prog[self.ip[t]]
                self.ip[t] += 1
                if op[0] == "drop":
                    s = self.handles.pop(op[1])
                    self.pc[t] = ("at52", s, False, "drop")
                    return 52
                if op[0] == "clone":
                    s = self.handles[op[1]]
                    self.pc[t] = ("at51", s, ("handle", op[2]))
                    return 51
                if op[0] == "enter":
                    s = self.handles[op[1]]
                    dup = any(x == s for x, _ in self.stacks[t])
                    self.stacks[t].append((s, dup))
                    if not dup:
                        self.pc[t] = ("at51", s, ("entry",))
                        return 51
                    continue
                if op[0] == "exit":
                    s = self.handles[op[1]]
                    st = self.stacks[t]
                    idx = None
                    for i in range(len(st) - 1, -1, -1):
                        if st[i][0] == s:
                            idx = i
                            break
                    if idx is None:
                        continue
                    _, dup = st.pop(idx)
                    if not dup:
                        self.pc[t] = ("at52", s, False, "drop")
                        return 52
                    continue
                if op[0] == "new":
                    p = self.handles[op[2]]
                    self.pc[t] = ("at51", p, ("newchild", op[1]))
                    return 51
                raise ValueError(op)
            if k == "at51":
                _, s, then = pc
                if self.marked[s] or self.refs[s] == 0:
                    self.panic = "clone of a closed / absent span %d" % s
                    self.pc[t] = ("done",)
                    return -1
                self.refs[s] += 1
                self.mops.append("RClone %d %d" % (t, s))
                self.pc[t] = ("at56", s, then)
                return 56
            if k == "at56":
                _, s, then = pc
                if then[0] == "handle":
                    self.handles[then[1]] = s
                elif then[0] == "newchild":
                    self._new(t, s, then[1])
                self.pc[t] = ("idle",)
                continue
            if k == "at52":
                _, s, nested, kind = pc
                if self.marked[s] or self.refs[s] == 0:
                    self.panic = "try_close of an absent span %d" % s
                    self.pc[t] = ("done",)
                    return -1
                old = self.refs[s]
                self.refs[s] -= 1
                self.guards.append((t, s))
                self.mops.append("RDrop %d %d" % (t, s) if kind == "drop" else "RRel %d" % t)
                self.pc[t] = ("at55", s, old == 1, nested)
                return 55
            if k == "at55":
                _, s, last, nested = pc
                self.guards.remove((t, s))
                self.mops.append("RRet %d" % t)
                if last:
                    self.closes.append((s, t, not self.marked[s]))
                    self.closed[s] += 1
                    self.mops.append("ROnClose %d" % t)
                    if nested and not self.fixed:
                        self.nested_noclear.append(s)
                        self.mops.append("RClear %d" % t)
                        self.pc[t] = ("idle",)
                        continue
                    self.pc[t] = ("at53", s, nested)
                    return 53
                if self.marked[s] and not self.cleared[s] and not any(g[1] == s for g in self.guards):
                    self.cleared[s] = True
                    self.deferred.append(s)
                    p = self.parent[s]
                    if p is not None:
                        self.pc[t] = ("at54", p, True)
                        return 54
                self.pc[t] = ("idle",)
                continue
            if k == "at53":
                _, s, nested = pc
                self.marked[s] = True
                self.mops.append("RClear %d" % t)
                if any(g[1] == s for g in self.guards):
                    self.pc[t] = ("idle",)
                    continue
                self.cleared[s] = True
                p = self.parent[s]
                if p is not None:
                    self.pc[t] = ("at54", p, nested)
                    return 54
                self.pc[t] = ("idle",)
                continue
            if k == "at54":
                _, p, nested = pc
                self.pc[t] = ("at52", p, nested, "rel")
                return 52
            raise ValueError(pc)


# ------------------------------------------------------------------------------------------------
# oracle on the implementation's observations

def spec_final(sc):
    """what refers to each span once every program has run to completion — from the scenario alone (every op uses only
    handles its own thread owns, and only thread 0 creates spans, so this does not depend on the interleaving).
    returns (parent list, handle count per span, non-duplicate entry count per span)"""
    parent, hs = [], {}
    for s in sc["setup"]:
        if s[0] == "new":
            hs[s[1]] = len(parent)
            parent.append(None if s[2] == "r" else hs[s[3]])
        else:
            hs[s[2]] = hs[s[1]]
    eref = {}
    for t, prog in enumerate(sc["prog"]):
        stack = []
        for op in prog:
            if op[0] == "drop":
                hs.pop(op[1], None)
            elif op[0] == "clone":
                if op[1] in hs:
                    hs[op[2]] = hs[op[1]]
            elif op[0] == "enter":
                if op[1] in hs:
                    stack.append(hs[op[1]])
            elif op[0] == "exit":
                if op[1] in hs and hs[op[1]] in stack:
                    i = len(stack) - 1 - stack[::-1].index(hs[op[1]])
                    del stack[i]
            elif op[0] == "new":
                if op[2] in hs:
                    hs[op[1]] = len(parent)
                    parent.append(hs[op[2]])
        for sp in set(stack):
            eref[sp] = eref.get(sp, 0) + 1
    href = {}
    for h, sp in hs.items():
        href[sp] = href.get(sp, 0) + 1
    return parent, href, eref


def oracle(sc, run, sim):
    """failures as (what, finding).  Uses the implementation's observations and the scenario; the replayed run (`sim`, None
    when the replay disagreed) only to recognise the F51 shape: which span was closed by a cascade nested in another
    try_close of the same thread."""
    fails = []
    nl = sc["layers"]
    parent, href, eref = spec_final(sc)
    n = len(parent)
    kids = {s: [c for c in range(n) if parent[c] == s] for s in range(n)}
    should = {}

    def closed_spec(s):
        if s not in should:
            should[s] = href.get(s, 0) == 0 and eref.get(s, 0) == 0 and all(closed_spec(c) for c in kids[s])
        return should[s]
    for s in range(n):
        closed_spec(s)
    closes = {}
    order = []
    for o in run["obs"]:
        if o["k"] != "close":
            continue
        if not o["ok"]:
            fails.append(("on_close at layer %d could not look the closing span up (raw id %s)" % (o["l"], o.get("raw")), None))
            continue
        closes.setdefault((o["q"], o["l"]), []).append(o)
        if o["l"] == 1:
            order.append(o["q"])
        if o["ext"] != o["q"]:
            fails.append(("layer %d closing span %d read extension %s instead of its own data" % (o["l"], o["q"], o["ext"]), None))
    final = dict((q, f) for q, f in run["final"])
    f51 = set()
    for s in (set(sim.nested_noclear) if sim is not None else ()):
        x = s
        while x is not None:
            f51.add(x)
            x = parent[x]
    for s in range(n):
        fd = "F51" if s in f51 else None
        for l in range(1, nl + 1):
            c = len(closes.get((s, l), []))
            if c > 1:
                fails.append(("span %d reported closed %d times to layer %d" % (s, c, l), None))
            elif c == 1 and not should[s]:
                fails.append(("span %d reported closed to layer %d although handles=%d entered=%d open children=%s" %
                              (s, l, href.get(s, 0), eref.get(s, 0), [c2 for c2 in kids[s] if not should[c2]]), None))
            elif c == 0 and should[s]:
                fails.append(("span %d never reported closed to layer %d although every thread has finished and nothing refers to it "
                              "(its child was reported closed by a cascade that ran inside another thread's try_close: the child's slot was never cleared)"
                              % (s, l) if fd else
                              "span %d never reported closed to layer %d although every thread has finished and nothing refers to it" % (s, l), fd))
        if should[s] and final.get(s) and len(closes.get((s, 1), [])) == 1:
            fails.append(("span %d was reported closed but is still in the registry after every thread has finished%s" %
                          (s, " (its CloseGuard ran nested inside another try_close on the same thread: CLOSE_COUNT never got down to 1)" if fd else ""), fd))
        if not should[s] and final.get(s) is False:
            fails.append(("span %d is gone from the registry although something still refers to it" % s, None))
    pos = {q: i for i, q in enumerate(order)}
    for s in range(n):
        p = parent[s]
        if p is not None and s in pos and p in pos and pos[p] < pos[s]:
            fails.append(("span %d reported closed before its child %d" % (p, s), None))
    for p in run["panics"]:
        fails.append(("panic: %s" % p, None))
    return fails


# ------------------------------------------------------------------------------------------------

def replay(sc, run, fixed):
    """drive Sim with the run's granted threads; returns (sim, first disagreement or None)"""
    sim = Sim(sc, fixed)
    at = {t: 0 for t in range(sc["threads"])}
    # initial gate: every worker parks at yield 0; the first grant runs it to its first real yield
    for k, (ne, t, fr, to) in enumerate(run["steps"]):
        if sim.panic:
            break
        got = sim.step(t)
        if fr != at[t]:
            return sim, {"step": k, "what": "thread %d was parked at %s, Sim says %s" % (t, fr, at[t])}
        if got != to:
            return sim, {"step": k, "what": "thread %d: implementation reached yield %s, Sim predicts %s" % (t, to, got)}
        at[t] = to
    if any(not sim.done(t) for t in range(sc["threads"])) and not sim.panic and not run["panics"]:
        return sim, {"step": len(run["steps"]), "what": "Sim has unfinished threads at the end of the run"}
    ic = [(o["q"], o["t"]) for o in run["obs"] if o["k"] == "close" and o["l"] == 1 and o["ok"]]
    sc_ = [(s, t) for (s, t, ok) in sim.closes]
    if ic != sc_:
        return sim, {"step": -1, "what": "on_close sequence (span, thread): implementation %s, Sim %s" % (ic, sc_)}
    fin = dict((q, f) for q, f in run["final"])
    for s in range(len(sim.refs)):
        if fin.get(s) != (not sim.marked[s]):
            return sim, {"step": -1, "what": "span %d in the registry at the end: implementation %s, Sim %s" % (s, fin.get(s), not sim.marked[s])}
    return sim, None


def run_leg(ctx, rep, binpath, fixed):
    maxruns = 400 if not ctx.thorough() else 4000
    scs = fixed_scenarios(maxruns, ctx.rng.randrange(1, 1 << 30))
    for k in range(12 if not ctx.thorough() else 60):
        scs.append(random_scenario(ctx.rng, k, 150 if not ctx.thorough() else 600))
    text = "".join(scn_text(s) for s in scs)
    rc, out = run_bin(binpath, input=text, timeout=1200)
    runs, summaries = {}, {}
    for line in out.splitlines():
        if not line.startswith("{"):
            continue
        try:
            d = json.loads(line)
        except ValueError:
            continue
        if d.get("summary"):
            summaries[d["scn"]] = d
        else:
            runs.setdefault(d["scn"], []).append(d)
    if rc != 0:
        rep.tie("run:h_registry_sched", False, "rc=%d %s" % (rc, vlib.last_error(out)))
    any_run = [r for rs in runs.values() for r in rs]
    if not any_run:
        rep.tie("run:h_registry_sched", False, "no output")
        return
    if not any(r["yields_seen"] for r in any_run):
        rep.count("sched-leg skipped: the tree has no H3 registry yield points (hooks/H3_registry.patch not applied)")
        return
    by_id = {s["id"]: s for s in scs}
    disagree = []
    coq_items = []
    nruns = 0
    seen_sig = set()
    for sid, rs in runs.items():
        sc = by_id[sid]
        sm = summaries.get(sid, {})
        rep.count("sched:scenarios")
        if sm.get("exhaustive"):
            rep.count("sched:scenarios-exhaustively-enumerated")
        for r in rs:
            nruns += 1
            rep.evaluations += 1
            rep.count("sched:runs")
            sim, dis = replay(sc, r, fixed)
            if dis:
                disagree.append({"scenario": scn_text(sc), "run": r["run"], "steps": r["steps"], **dis})
            else:
                rep.traces_validated += 1
                if len(coq_items) < (150 if not ctx.thorough() else 600) and (r["run"] < 20 or sim.deferred):
                    coq_items.append((sc, r, sim))
            if sim.deferred:
                rep.count("sched:runs-with-a-deferred-clear (slot cleared by the last guard holder)")
            if any(s[2] == 55 for s in r["steps"]):
                rep.nontrivial.add("%s/%d" % (sid, r["run"]))
            for what, finding in oracle(sc, r, None if dis else sim):
                sig = "sched: " + "".join(ch for ch in what if not ch.isdigit())
                if (sig, finding) in seen_sig:
                    continue
                seen_sig.add((sig, finding))
                rep.violation(sig, {"what": what, "scenario": scn_text(sc), "run": r["run"],
                                    "schedule (n_enabled, thread, from_yield, to_yield)": r["steps"],
                                    "replay": "h_registry_sched < scenario; run %d of the depth-first enumeration" % r["run"]}, finding=finding)
    rep.tie("correspondence:micro-schedules(Sim)", not disagree, "%d of %d forced-schedule runs disagree with the Python rendering of MicroReal" % (len(disagree), nruns),
            disagree[:1] or None)
    # ---- the Coq model on the micro-op lists
    if coq_items:
        try:
            terms = []
            for b in range(0, len(coq_items), 50):
                items = []
                for sc, r, sim in coq_items[b:b + 50]:
                    n = len(sim.refs)
                    items.append("obs_of %d (rrun %s [%s])" % (n, "true" if fixed else "false", "; ".join(sim.mops)))
                terms.append(("s%d" % b, "[%s]" % "; ".join(items)))
            prelude = ("Definition obs_of (n : nat) (st : rstate) := (map (fun s => (r_closed st s, r_marked st s, r_cleared st s, r_refs st s)) (seq 0 n), "
                       "r_bad st, rquiescent st).\n")
            res = coq_eval(ctx, "From TV Require Import Registry.Micro Registry.MicroReal.\nFrom Coq Require Import List NArith.\nImport ListNotations.",
                           terms, prelude=prelude, tag="sched")
            bad = []
            for b in range(0, len(coq_items), 50):
                for (sc, r, sim), v in zip(coq_items[b:b + 50], res["s%d" % b]):
                    per, mbad, quiet = v
                    want = [(sim.closed[s], sim.marked[s], sim.cleared[s], sim.refs[s]) for s in range(len(sim.refs))]
                    got = [tuple(x) for x in per]
                    if got != want or mbad or not quiet:
                        bad.append({"scenario": scn_text(sc), "run": r["run"], "coq": [got, mbad, quiet], "sim": want})
            rep.tie("correspondence:MicroReal.v-vs-Sim", not bad, "%d of %d micro-op lists: Registry/MicroReal.v and the Python rendering end in different states" % (len(bad), len(coq_items)),
                    bad[:1] or None)
        except Exception as ex:      # noqa: BLE001
            rep.tie("correspondence:MicroReal.v-vs-Sim", False, str(ex)[:400])


def replay_scenario(ctx, rep, binpath, fixed, text, run_no):
    """re-run one recorded scenario (all its interleavings) and judge the recorded run number (or every run)"""
    rc, out = run_bin(binpath, input=text, timeout=600)
    f = text.split()
    lines = [l for l in text.splitlines() if l.strip()]
    sc = {"id": f[1], "layers": int(f[2]), "threads": int(f[3]), "maxruns": int(f[4]), "seed": int(f[5]), "setup": [], "own": [], "pre": [],
          "prog": [[] for _ in range(int(f[3]))]}

    def conv(ws):
        return tuple(int(x) if x.lstrip("-").isdigit() else x for x in ws)
    for l in lines[1:]:
        w = l.split()
        if w[0] in ("new", "clone"):
            sc["setup"].append(conv(w))
        elif w[0] == "own":
            sc["own"].append((int(w[1]), int(w[2])))
        elif w[0] == "pre":
            sc["pre"].append((int(w[1]), conv(w[2:])))
        elif w[0] == "op":
            sc["prog"][int(w[1])].append(conv(w[2:]))
    seen = False
    for line in out.splitlines():
        if not line.startswith("{"):
            continue
        d = json.loads(line)
        if d.get("summary"):
            continue
        seen = seen or d["yields_seen"]
        if run_no is not None and d["run"] != run_no:
            continue
        rep.evaluations += 1
        sim, dis = replay(sc, d, fixed)
        if dis:
            rep.tie("correspondence:micro-schedules(Sim)", False, dis["what"], {"scenario": text, "run": d["run"], **dis})
        for what, finding in oracle(sc, d, None if dis else sim):
            rep.violation("sched: " + "".join(ch for ch in what if not ch.isdigit()),
                          {"what": what, "scenario": text, "run": d["run"], "schedule (n_enabled, thread, from_yield, to_yield)": d["steps"]}, finding=finding)
    if not seen:
        rep.tie("replay:h_registry_sched", False, "the tree has no H3 registry yield points: the recorded schedule cannot be forced")
