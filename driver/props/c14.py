"""C14 \u2014 JSON output is always one valid JSON object per line and faithful to the data.

Leg A: theorems of coq/theories/Properties/C14.v over Fmt/JsonModel.v (render = serde_json's compact writer, an independent
       strict parser, the type mapping as implemented, BTreeMap span fields, parse-merge-reserialise, event_record for every
       option combination, span-lifecycle records, histories) and Fmt/JsonConc.v (concurrent record calls on one span as a
       micro-step machine over Common/Sched.v).
Leg B: translators/json_fmt.py (every run) -> Gen_json.v: shape facts of json.rs / tracing-serde / fmt_subscriber.rs, the
       switches fx10 / fx141 (+ f142 for this driver), on_record's lock discipline, serde_json's ESCAPE table from the
       dependency's source; correspondence: the real formatter's bytes for every operation of every generated history, on two
       builds (plain / with the default tracing-log feature), are parsed by Python's json (object_pairs_hook keeps order and
       duplicates; not serde_json) and compared as ordered trees with the bytes of the model's `run_ops` on the same history;
       float-free records also byte for byte (this ties `render` to serde_json's compact writer).  Finite floats: numerically
       only (PARTIAL); every float TOKEN the implementation writes is fed to the model's parser (hypothesis float_token).
Leg C: oracle = the property text evaluated on the implementation's bytes with the driver's own bookkeeping of what
       was recorded (never the Coq model): per operation the records due (events, configured lifecycle points), each one line,
       one object, unique keys, event / span fields faithful, span list = scope root->leaf.  Race operations: two threads
       record on one span with Debug impls that force the calls to overlap whenever the implementation lets them; afterwards
       every recorded field must be there.  Violations are attributed to F10 / F141 / F142 / F143 only when they have that
       exact shape (all but F143 are fixed: a re-observation is a VIOLATION)."""
import json
import math
import os
import re
import struct
import sys

import vlib
from vlib import Report, coq_prove, cargo_build, run_bin, coq_eval, gen_if_changed

sys.path.insert(0, os.path.join(vlib.VERIF, "translators"))
import json_fmt as json_tr  # noqa: E402

RESERVED = ["timestamp", "level", "fields", "target", "filename", "line_number", "span", "spans", "threadName", "threadId"]
LEVELS = ["ERROR", "WARN", "INFO", "DEBUG", "TRACE"]
H = lambda s: (s if isinstance(s, bytes) else s.encode("utf-8")).hex()
UH = lambda h: bytes.fromhex(h).decode("utf-8")


# ------------------------------------------------------------------------------------------------
# payload generator

def rand_char(rng):
    k = rng.random()
    if k < 0.40:
        return rng.choice("abcxyzABCXYZ0189 _-.:/=,;{}[]()<>!?#%&*+~^|`'@$")
    if k < 0.48:
        return '"'
    if k < 0.56:
        return "\\"
    if k < 0.64:
        return rng.choice("\n\r\t\b\f")
    if k < 0.70:
        return chr(rng.randrange(0, 32))
    if k < 0.73:
        return "\x7f"
    if k < 0.78:
        return chr(rng.randrange(0x80, 0xA0))
    if k < 0.84:
        return rng.choice("\u2028\u2029")
    if k < 0.92:
        return rng.choice("\u00e9\u20ac\u00df\u0416\u4e2d\u00a0\ufeff\ufffe\uffff\ud7ff\ue000\u200d\u0301\u202e\u05d0")
    return rng.choice(["\U0001F600", "\U00010000", "\U0010FFFF", "\U0001F468\u200d\U0001F469", "\U000E0001"])


JSONISH = ['{"a":1}', "\\u0041", "\\n", '"]', "null", '\\"', "\\\\", "</script>", "'", '","x":"', "\\ud800", "}\n{", "\u0000", "[1,2", "true"]


def rand_string(rng, maxlen=10, allow_nul=True):
    k = rng.random()
    if k < 0.08:
        s = ""
    elif k < 0.18:
        s = rng.choice(JSONISH)
    elif k < 0.22:
        s = "".join(rand_char(rng) for _ in range(rng.randint(30, 90)))
    else:
        s = "".join(rand_char(rng) for _ in range(rng.randint(1, maxlen)))
    if not allow_nul:
        s = s.replace("\x00", "0")
    return s


def needs_escape(s):
    return any(ord(c) < 32 or c in '"\\' for c in s)


IDENTS = ["a", "b", "x", "y", "answer", "foo_bar", "Level", "span2", "msg", "message", "id", "ok", "n", "value", "fieldz"]
DOTTED = ["http.method", "http.status_code", "a.b.c", "user.id", "otel.kind", "log.line", "log.target", "log.x", "log."]
SPECIAL_NAMES = ["log.target", "log.line", "log.module_path", "log.file", "log.x", "log.", "r#type", "r#match", "r#fn", "r#log.y", "logx"]
RAW = ["r#type", "r#match", "r#fn", "r#loop", "r#struct", "r#x", "r#"]
ODD = ["spa ce", "uni\u2028sep", "ast\U0001F600ral", "\u00e9", "semi;colon", "x=y", "{brace}", "", "caf\u00e9.au.lait", "DEL\x7f", "c1\x85", "'single'", "r #", "#r"]
ESC = ['quo"te', "back\\slash", "new\nline", "tab\there", "nul\x00", "cr\rx", '"', "\\", "esc\x1b[0m", "\\u0041"]


def gen_names(rng, n, span, flatten, allow_dup=False, allow_esc=True):
    """n field names for one callsite.  Span fields: none equal to `name` (the span object's own key) after r# stripping;
    flattened event fields: none of the reserved keys (the property's exclusion); never both `r#x` and `x`."""
    out = []
    tries = 0
    while len(out) < n and tries < 200:
        tries += 1
        k = rng.random()
        if k < 0.40:
            nm = rng.choice(IDENTS)
        elif k < 0.52:
            nm = rng.choice(DOTTED)
        elif k < 0.62:
            nm = rng.choice(RAW)
        elif k < 0.74:
            nm = rng.choice(ODD)
        elif k < 0.80 and not flatten:
            nm = rng.choice(RESERVED + ["name"])          # legal when nested under `fields`
        elif k < 0.90:
            nm = rand_string(rng, 6)
        else:
            nm = rng.choice(ESC)
        if needs_escape(nm) and span and (not allow_esc or rng.random() < 0.75):
            continue                                        # keep F141 triggers rare in span field sets
        stripped = nm[2:] if nm.startswith("r#") else nm
        if span and (stripped == "name" or nm == "name"):
            continue
        if flatten and (nm in RESERVED):
            continue
        if nm.startswith("log."):
            pass                                            # tracing-log feature is off in the harness build
        if any((o[2:] if o.startswith("r#") else o) == stripped for o in out):
            if not (allow_dup and nm in out):
                continue
        out.append(nm)
    return out


INT_TYPES = {
    "u8": (0, 2 ** 8 - 1), "u16": (0, 2 ** 16 - 1), "u32": (0, 2 ** 32 - 1), "u64": (0, 2 ** 64 - 1), "usize": (0, 2 ** 64 - 1),
    "i8": (-2 ** 7, 2 ** 7 - 1), "i16": (-2 ** 15, 2 ** 15 - 1), "i32": (-2 ** 31, 2 ** 31 - 1), "i64": (-2 ** 63, 2 ** 63 - 1),
    "isize": (-2 ** 63, 2 ** 63 - 1), "u128": (0, 2 ** 128 - 1), "i128": (-2 ** 127, 2 ** 127 - 1),
}
F64_SPECIAL = [0x7FF8000000000000, 0xFFF8000000000000, 0x7FF0000000000001, 0x7FF0000000000000, 0xFFF0000000000000,
               0x0000000000000000, 0x8000000000000000, 0x0000000000000001, 0x7FEFFFFFFFFFFFFF, 0x0010000000000000,
               0x3FF0000000000000, 0xBFF8000000000000, 0x4340000000000000, 0x4340000000000001, 0x3FB999999999999A,
               0x444B1AE4D6E2EF50, 0x3E7AD7F29ABCAF48, 0x43E0000000000000, 0x41DFFFFFFFC00000, 0x3FD5555555555555]
F32_SPECIAL = [0x7FC00000, 0x7F800000, 0xFF800000, 0x00000000, 0x80000000, 0x3DCCCCCD, 0x7F7FFFFF, 0x00000001, 0x3F800000, 0x4B800000]


def f64_of_bits(b):
    return struct.unpack(">d", struct.pack(">Q", b))[0]


def bits_of_f64(x):
    return struct.unpack(">Q", struct.pack(">d", x))[0]


def gen_value(rng, floats=True):
    k = rng.random()
    if k < 0.24:
        t = rng.choice(list(INT_TYPES))
        lo, hi = INT_TYPES[t]
        r = rng.random()
        if r < 0.45:
            v = rng.choice([lo, hi, 0, 1, hi - 1, lo + 1, min(hi, 2 ** 53), min(hi, 2 ** 53 + 1), max(lo, -1), min(hi, 2 ** 63), min(hi, 2 ** 64 - 1)])
        else:
            v = rng.randint(lo, hi) if rng.random() < 0.5 else rng.randint(max(lo, -1000), min(hi, 1000))
        return {"t": t, "v": str(v)}
    if k < 0.30:
        return {"t": "bool", "v": rng.random() < 0.5}
    if k < 0.50:
        return {"t": "str", "v": H(rand_string(rng))}
    if k < 0.60 and floats:
        r = rng.random()
        if r < 0.45:
            b = rng.choice(F64_SPECIAL)
        elif r < 0.70:
            b = rng.getrandbits(64)
        elif r < 0.85:
            b = bits_of_f64(rng.choice([rng.random(), rng.uniform(-1e6, 1e6), rng.random() * 10 ** rng.randint(-20, 20), round(rng.uniform(0, 1000), 2)]))
        else:
            return {"t": "f32", "v": "%08x" % (rng.choice(F32_SPECIAL) if rng.random() < 0.6 else rng.getrandbits(32))}
        return {"t": "f64", "v": "%016x" % b}
    if k < 0.68:
        n = rng.choice([0, 1, 2, 3, 8])
        return {"t": "bytes", "v": bytes(rng.choice([0, 255, 10, 34, 92, rng.randrange(256)]) for _ in range(n)).hex()}
    if k < 0.78:
        return {"t": "debug", "v": H(rand_string(rng))}
    if k < 0.86:
        return {"t": "display", "v": H(rand_string(rng))}
    if k < 0.93:
        return {"t": "args", "v": H(rand_string(rng))}
    return {"t": "error", "v": [H(rand_string(rng)) for _ in range(rng.randint(1, 3))]}


def gen_vals(rng, names, p_set, floats=True):
    """pairs [field index, value] for a ValueSet; some fields left empty / unset."""
    out = []
    for i in range(len(names)):
        r = rng.random()
        if r < p_set:
            out.append([i, gen_value(rng, floats)])
        elif r < p_set + 0.08:
            out.append([i, {"t": "empty", "v": None}])
        elif r < p_set + 0.14:
            out.append([i, {"t": "unset", "v": None}])
    if len(out) > 1 and rng.random() < 0.2:
        rng.shuffle(out)
    return out[:12]


SEV = ("sev_new", "sev_enter", "sev_exit", "sev_close")


def gen_opts(rng, kind):
    o = {k: rng.random() < 0.5 for k in ("flatten", "cur", "list", "target", "level", "file", "line", "tname", "tid")}
    if kind == "default":
        o.update(flatten=False, cur=True, list=True, target=True, level=True, file=False, line=False, tname=False, tid=False)
    o["ts"] = H(rand_string(rng, 8)) if rng.random() < 0.3 else None
    # with_span_events: none (most cases), a random subset, or all
    r = rng.random()
    for k in SEV:
        o[k] = False if (r < 0.55 or kind == "default") else (True if r > 0.85 else rng.random() < 0.5)
    if kind == "lifecycle":
        for k in SEV:
            o[k] = rng.random() < 0.8
        if rng.random() < 0.6:
            o["ts"] = H(rand_string(rng, 8))
    return o


def gen_case(rng, kind="mixed", floats=True, explicit=True, esc_names=True, dup=False, collide=False):
    opts = gen_opts(rng, kind)
    if collide:
        opts["flatten"] = True
    nspans = rng.choice([0, 1, 1, 2, 2, 3, 4])
    if kind in ("specialnames", "panics"):
        nspans = max(1, nspans)
    callsites = []
    span_cs = []
    for _ in range(nspans):
        names = gen_names(rng, rng.choice([0, 1, 2, 3, 4, 5]), True, False, allow_esc=esc_names)
        if kind == "specialnames":
            # names the span-field visitor treats specially in SOME of its methods: `log.*` (tracing-log's metadata) and raw
            # identifiers; the values below are mostly typed (str / integers / bool / float / bytes), at creation and later
            names = rng.sample(SPECIAL_NAMES, rng.randint(2, 5)) + [n for n in names if not n.startswith(("log.", "r#")) and n not in ("type", "match", "fn")][:2]
        if collide and rng.random() < 0.5:
            names.append("name")
        span_cs.append(len(callsites))
        callsites.append({"kind": "span", "name": H(rand_string(rng, 8)), "target": H(rand_string(rng, 6)), "level": rng.randrange(5),
                          "file": H(rand_string(rng, 8)) if rng.random() < 0.4 else None,
                          "line": rng.choice([0, 7, 2 ** 32 - 1]) if rng.random() < 0.4 else None,
                          "fields": [H(n) for n in names], "_names": names})
    ev_cs = []
    for _ in range(rng.choice([1, 1, 2, 3])):
        names = gen_names(rng, rng.choice([0, 1, 2, 3, 4, 6]), False, opts["flatten"], allow_dup=dup)
        if dup and names:
            names.insert(rng.randrange(len(names) + 1), rng.choice(names))
        if collide:
            names.append(rng.choice(RESERVED))
        ev_cs.append(len(callsites))
        callsites.append({"kind": "event", "name": H("event"), "target": H(rand_string(rng, 8)), "level": rng.randrange(5),
                          "file": H(rand_string(rng, 8)) if rng.random() < 0.6 else None,
                          "line": rng.choice([0, 1, 42, 2 ** 32 - 1]) if rng.random() < 0.6 else None,
                          "fields": [H(n) for n in names], "_names": names})
    ops = []
    created = []          # ids of spans created so far
    alive = []            # ... whose handle has not been dropped
    parent_of = {}
    entered = []
    nrec = {}
    aborted = set()
    nevents = 0
    steps = rng.randint(4, 16)
    p_close = 0.10 if kind == "lifecycle" else 0.04

    def closable():
        # dropping the handle closes the span right away iff nothing else refers to it: not entered, no live child
        return [s for s in alive if s not in entered and not any(parent_of.get(c) == s for c in alive)]

    for step in range(steps + 3):
        r = rng.random()
        if len(created) < nspans and (r < 0.35 or step < 1):
            i = len(created)
            pr = rng.random()
            parent = -2 if pr < 0.55 else (-1 if pr < 0.7 or not alive else rng.choice(alive))
            cs = callsites[span_cs[i]]
            ops.append({"op": "span", "cs": span_cs[i], "id": i, "parent": parent, "vals": gen_vals(rng, cs["_names"], 0.55, floats)})
            created.append(i)
            alive.append(i)
            parent_of[i] = (entered[-1] if entered else None) if parent == -2 else (None if parent == -1 else parent)
        elif r < 0.50 and [s for s in alive if s not in entered]:
            s = rng.choice([s for s in alive if s not in entered])
            ops.append({"op": "enter", "id": s})
            entered.append(s)
        elif r < 0.58 and entered:
            s = entered[-1] if rng.random() < 0.8 else rng.choice(entered)
            ops.append({"op": "exit", "id": s})
            entered.remove(s)
        elif r < 0.58 + p_close and closable():
            s = rng.choice(closable())
            ops.append({"op": "close", "id": s})
            alive.remove(s)
        elif r < 0.78 and [s for s in alive if callsites[span_cs[s]]["_names"] and nrec.get(s, 0) < 5]:
            s = rng.choice([s for s in alive if callsites[span_cs[s]]["_names"] and nrec.get(s, 0) < 5])
            names = callsites[span_cs[s]]["_names"]
            k = rng.randint(1, min(3, len(names)))
            idx = rng.sample(range(len(names)), k)
            vals = [[i, gen_value(rng, floats)] for i in idx]
            if rng.random() < 0.1:
                vals.append([idx[0], gen_value(rng, floats)])     # the same field twice in one record: last wins
            if kind == "panics" and rng.random() < 0.4:
                # this call unwinds: one of its values has a Debug impl that panics (the harness catches it); the values
                # before it have already been visited
                vals[rng.randrange(len(vals))][1] = {"t": "panic", "v": H(rand_string(rng, 6))}
                ops.append({"op": "record", "id": s, "vals": vals, "caught": True})
                aborted.add(s)
            else:
                ops.append({"op": "record", "id": s, "vals": vals})
            nrec[s] = nrec.get(s, 0) + 1
        else:
            ci = rng.choice(ev_cs)
            pr = rng.random()
            parent = -2
            if explicit:
                parent = -2 if pr < 0.6 else (-1 if pr < 0.72 or not alive else rng.choice(alive))
            ops.append({"op": "event", "cs": ci, "parent": parent, "vals": gen_vals(rng, callsites[ci]["_names"], 0.8, floats)})
            nevents += 1
    if nevents == 0 or rng.random() < 0.5:
        ci = rng.choice(ev_cs)
        ops.append({"op": "event", "cs": ci, "parent": -2, "vals": gen_vals(rng, callsites[ci]["_names"], 0.8, floats)})
    if kind == "panics":
        # make sure every span that saw an unwinding record call is used again: a later record (sometimes) and an event in it
        for sp_id in sorted(x for x in alive if callsites[span_cs[x]]["_names"]):
            names = callsites[span_cs[sp_id]]["_names"]
            if sp_id not in aborted:
                vals = [[i, gen_value(rng, floats)] for i in rng.sample(range(len(names)), rng.randint(1, min(2, len(names))))]
                vals[0][1] = {"t": "panic", "v": H(rand_string(rng, 6))}
                ops.append({"op": "record", "id": sp_id, "vals": vals, "caught": True})
            if rng.random() < 0.5:
                ops.append({"op": "event", "cs": rng.choice(ev_cs), "parent": sp_id, "vals": []})
            if rng.random() < 0.7:
                ops.append({"op": "record", "id": sp_id, "vals": [[rng.randrange(len(names)), gen_value(rng, floats)]]})
            ops.append({"op": "event", "cs": rng.choice(ev_cs), "parent": sp_id, "vals": []})
    if kind == "lifecycle" and rng.random() < 0.6:
        # wind down: exit everything, close leaves first
        while entered:
            ops.append({"op": "exit", "id": entered.pop()})
        while closable() and rng.random() < 0.9:
            s = rng.choice(closable())
            ops.append({"op": "close", "id": s})
            alive.remove(s)
    thread = H(rand_string(rng, 8, allow_nul=False)) if rng.random() < 0.5 else None
    for c in callsites:
        del c["_names"]
    case = {"id": 0, "kind": kind, "opts": opts, "thread": thread, "callsites": callsites, "ops": ops}
    if kind == "panics":
        case["only_pl"] = True
    return case


LOG_FIELDS = ["message", "log.target", "log.module_path", "log.file", "log.line"]


def add_log_ops(rng, case, n):
    """`log` build only: records of the `log` crate pushed through tracing-log's LogTracer.  Each gets its own pseudo
    callsite (level / target / file / line of the record; the five fields tracing-log attaches) and is inserted at a
    random place after the first operation; format_event shows the NORMALISED metadata (target / file / line of the record)."""
    case["only_log"] = True
    for _ in range(n):
        cs = {"kind": "event", "name": H("log event"), "target": H(rand_string(rng, 8)), "level": rng.randrange(5),
              "file": H(rand_string(rng, 8)) if rng.random() < 0.6 else None,
              "line": rng.choice([0, 1, 42, 2 ** 32 - 1]) if rng.random() < 0.6 else None,
              "fields": [H(f) for f in LOG_FIELDS]}
        case["callsites"].append(cs)
        op = {"op": "log", "cs": len(case["callsites"]) - 1, "msg": H(rand_string(rng)),
              "module": H(rand_string(rng, 8)) if rng.random() < 0.6 else None}
        case["ops"].insert(rng.randint(0, len(case["ops"])), op)
    return case


RACE_NAMES = ["alpha", "beta", "gamma", "delta", "eps", "zeta", "eta", "theta", 'quo"te', "dotted.name", "uni\u2028", "r#type"]


def gen_race_case(rng, wait_ms):
    """two threads record on one span AT THE SAME TIME (harness op `race`): disjoint field sets, 1-2 calls each, the first
    call of each thread carries a gate value (a Debug impl) that forces the calls to overlap if the implementation lets
    them; afterwards an event inside the span shows what was stored"""
    opts = gen_opts(rng, "race")
    opts.update(cur=True, list=rng.random() < 0.7, flatten=rng.random() < 0.3)
    for k in SEV:
        opts[k] = False
    names = rng.sample(RACE_NAMES, rng.randint(5, 9))
    callsites = [{"kind": "span", "name": H(rand_string(rng, 6)), "target": H("race"), "level": 2, "file": None, "line": None,
                  "fields": [H(n) for n in names]},
                 {"kind": "event", "name": H("event"), "target": H("race"), "level": 2, "file": None, "line": None, "fields": [H("message")]}]
    idx = list(range(len(names)))
    rng.shuffle(idx)
    n_init = rng.randint(0, 2)
    init, rest = idx[:n_init], idx[n_init:]
    cut = rng.randint(1, len(rest) - 1)
    own1, own2 = rest[:cut], rest[cut:]
    # a thread may also overwrite fields given at creation, but the two threads never write the same field
    share = list(init)
    rng.shuffle(share)
    own1 = own1 + share[:len(share) // 2]
    own2 = own2 + share[len(share) // 2:]

    def calls(own, gate):
        out = []
        for ci in range(rng.randint(1, 2)):
            ks = rng.sample(own, rng.randint(1, len(own)))
            vals = [[k, gen_value(rng, True)] for k in ks]
            if ci == 0:
                vals[rng.randrange(len(vals))][1] = {"t": gate, "v": H(rand_string(rng, 6))}
            out.append(vals)
        return out
    ops = [{"op": "span", "cs": 0, "id": 0, "parent": -1, "vals": [[k, gen_value(rng, True)] for k in init]}]
    if rng.random() < 0.5:
        ops.append({"op": "enter", "id": 0})
    if rng.random() < 0.3:
        ops.append({"op": "record", "id": 0, "vals": [[rng.choice(idx), gen_value(rng, True)]]})
    ops.append({"op": "race", "id": 0, "t1": calls(own1, "gate1"), "t2": calls(own2, "gate2"), "wait_ms": wait_ms})
    ops.append({"op": "event", "cs": 1, "parent": 0, "vals": [[0, {"t": "args", "v": H("after the race")}]]})
    if rng.random() < 0.4:
        ops.append({"op": "record", "id": 0, "vals": [[rng.choice(idx), gen_value(rng, True)]]})
        ops.append({"op": "event", "cs": 1, "parent": 0, "vals": [[0, {"t": "args", "v": H("after a later record")}]]})
    return {"id": 0, "kind": "race", "race": True, "opts": opts, "thread": None, "callsites": callsites, "ops": ops}


def ungate(vals):
    return [[i, ({"t": "debug", "v": v["v"]} if v["t"] in ("gate1", "gate2") else v)] for i, v in vals]


def expand_op(case, op):
    """the sequential operations a harness op stands for: a `log` record is the event tracing-log builds; a `race` is its
    record calls (thread 1's, then thread 2's — the threads write disjoint fields, so every serial order stores the same)"""
    if op["op"] == "log":
        return [as_event_op(case, op)]
    if op["op"] == "race":
        return [{"op": "record", "id": op["id"], "vals": ungate(v)} for v in op["t1"] + op["t2"]]
    return [op]


def as_event_op(case, op):
    """the event tracing-log builds for a `log` record (lib.rs dispatch_record): message = the record's arguments, log.target,
    and log.module_path / log.file / log.line when the record has them; contextual parent"""
    if op["op"] != "log":
        return op
    cs = case["callsites"][op["cs"]]
    vals = [[0, {"t": "args", "v": op["msg"]}], [1, {"t": "str", "v": cs["target"]}]]
    if op["module"] is not None:
        vals.append([2, {"t": "str", "v": op["module"]}])
    if cs["file"] is not None:
        vals.append([3, {"t": "str", "v": cs["file"]}])
    if cs["line"] is not None:
        vals.append([4, {"t": "u32", "v": str(cs["line"])}])
    return {"op": "event", "cs": op["cs"], "parent": -2, "vals": vals, "_log": True}


# ------------------------------------------------------------------------------------------------
# corpus (regressions run first)

def _cs(kind, name, fields, target="t", level=2, file=None, line=None):
    return {"kind": kind, "name": H(name), "target": H(target), "level": level, "file": None if file is None else H(file),
            "line": line, "fields": [H(f) for f in fields]}


DEF_OPTS = {"flatten": False, "cur": True, "list": True, "target": True, "level": True, "file": False, "line": False,
            "tname": False, "tid": False, "ts": None}


def builtin_corpus():
    v = lambda t, x: {"t": t, "v": x}
    out = []
    # the witnesses of F10 / F141 / F142 / F143 are files in corpus/C14/ (regression cases since the repairs)
    out.append({"kind": "escapes-everywhere", "opts": dict(DEF_OPTS, file=True, line=True, tname=True, ts=H('t"\n')), "thread": H('th"\n\\'),
                "callsites": [_cs("span", 's"\n\\\u2028\U0001F600', ["k", "uni\u2028"]),
                              _cs("event", "ev", ["message", 'f"\\\n', "\u2029"], target='tg"\n\\\x01', file='src/"x".rs', line=7)],
                "ops": [{"op": "span", "cs": 0, "id": 0, "parent": -1, "vals": [[0, v("str", H('v"\\\n\r\t\b\f\x00\x1f\x7f\u2028\U0001F600'))]]},
                        {"op": "enter", "id": 0},
                        {"op": "record", "id": 0, "vals": [[1, v("debug", H('d"\n'))]]},
                        {"op": "record", "id": 0, "vals": [[0, v("bytes", "000aff22")]]},
                        {"op": "event", "cs": 1, "parent": -2,
                         "vals": [[0, v("args", H('m"\\\n\u2028'))], [1, v("i128", str(-2 ** 127))], [2, v("error", [H('e"1\n'), H("e2")])]]}]})
    # 128-bit integers (small, just above u64::MAX / below i64::MIN, extremes) as span fields at creation, in later records and
    # as event fields, nested and flattened (seeded C14-I: tracing-serde printing them as bare 39-digit numbers)
    wide = [("u128", "1500000000"), ("u128", str(2 ** 64)), ("u128", str(2 ** 128 - 1)), ("i128", "-7"),
            ("i128", str(-2 ** 63 - 1)), ("i128", str(-2 ** 127)), ("i128", str(2 ** 127 - 1)), ("u128", str(2 ** 127 + 1))]
    wn = ["w%d" % i for i in range(len(wide))]
    for fl in (False, True):
        out.append({"kind": "wide-integers" + ("-flattened" if fl else ""), "opts": dict(DEF_OPTS, flatten=fl), "thread": None,
                    "callsites": [_cs("span", "s", wn), _cs("event", "ev", ["message"] + wn)],
                    "ops": [{"op": "span", "cs": 0, "id": 0, "parent": -1, "vals": [[i, v(*wide[i])] for i in range(0, len(wide), 2)]},
                            {"op": "enter", "id": 0},
                            {"op": "event", "cs": 1, "parent": -2, "vals": [[0, v("args", H("first"))]] + [[i + 1, v(*w)] for i, w in enumerate(wide)]},
                            {"op": "record", "id": 0, "vals": [[i, v(*wide[i])] for i in range(1, len(wide), 2)]},
                            {"op": "record", "id": 0, "vals": [[0, v(*wide[2])], [1, v("u64", str(2 ** 64 - 1))]]},
                            {"op": "event", "cs": 1, "parent": -2, "vals": [[0, v("args", H("second"))], [3, v(*wide[7])], [4, v("i64", str(-2 ** 63))]]}]})
    ALL_SEV = dict(DEF_OPTS, sev_new=True, sev_enter=True, sev_exit=True, sev_close=True)
    out.append({"kind": "lifecycle-all-points", "opts": dict(ALL_SEV, ts=H("T")), "thread": None,
                "callsites": [_cs("span", "outer", ["k"], target="tg", level=1, file="f.rs", line=3), _cs("span", 'in"ner', ["later"]),
                              _cs("event", "ev", ["message"])],
                "ops": [{"op": "span", "cs": 0, "id": 0, "parent": -1, "vals": [[0, v("u64", "1")]]}, {"op": "enter", "id": 0},
                        {"op": "span", "cs": 1, "id": 1, "parent": -2, "vals": []},
                        {"op": "record", "id": 1, "vals": [[0, v("str", H('x"\n'))]]},
                        {"op": "enter", "id": 1}, {"op": "event", "cs": 2, "parent": -2, "vals": [[0, v("args", H("inside"))]]},
                        {"op": "exit", "id": 1}, {"op": "close", "id": 1}, {"op": "exit", "id": 0}, {"op": "close", "id": 0},
                        {"op": "event", "cs": 2, "parent": -2, "vals": [[0, v("args", H("after"))]]}]})
    out.append({"kind": "lifecycle-flattened-no-timer", "opts": dict(ALL_SEV, flatten=True, cur=True, list=False), "thread": H("wörker"),
                "callsites": [_cs("span", "s", ["a"]), _cs("event", "ev", ["message"])],
                "ops": [{"op": "span", "cs": 0, "id": 0, "parent": -1, "vals": [[0, v("bool", True)]]}, {"op": "enter", "id": 0},
                        {"op": "exit", "id": 0}, {"op": "close", "id": 0}]})
    out.append({"kind": "log-prefixed-span-fields", "opts": DEF_OPTS, "thread": None,
                "callsites": [_cs("span", "s", ["log.target", "log.line", "r#log.x", "plain"]), _cs("event", "ev", ["message", "log.target"])],
                "ops": [{"op": "span", "cs": 0, "id": 0, "parent": -1,
                         "vals": [[0, v("debug", H("dbg"))], [1, v("u64", "7")], [2, v("display", H("raw"))], [3, v("debug", H("p"))]]},
                        {"op": "enter", "id": 0},
                        {"op": "event", "cs": 1, "parent": -2, "vals": [[0, v("args", H("m"))], [1, v("debug", H("evdbg"))]]},
                        {"op": "record", "id": 0, "vals": [[0, v("str", H("typed now"))], [1, v("display", H("dropped in the log build"))]]},
                        {"op": "event", "cs": 1, "parent": -2, "vals": []}]})
    return out


def load_corpus():
    cases = builtin_corpus()
    d = os.path.join(vlib.VERIF, "corpus", "C14")
    if os.path.isdir(d):
        for f in sorted(os.listdir(d)):
            if f.endswith(".json"):
                r = json.load(open(os.path.join(d, f)))
                c = r.get("case", r)
                c = c.get("case", c) if "ops" not in c else c
                c.setdefault("kind", "corpus:" + f)
                cases.append(c)
    return cases


# ------------------------------------------------------------------------------------------------
# the driver's own bookkeeping of a history (the oracle's expectations; independent of the Coq model)

def names_of(case, cs):
    return [UH(h) for h in case["callsites"][cs]["fields"]]


def carries(v):
    return v["t"] not in ("empty", "unset")


VIA_DEBUG = ("u128", "i128", "debug", "display", "args", "error")


def log_skipped(lg, name, v):
    """the build with tracing-subscriber's `tracing-log` feature drops span fields named `log.*` that arrive through record_debug"""
    return lg and name.startswith("log.") and v["t"] in VIA_DEBUG


class Sim:
    """What was recorded, by the property's reading: per span the last value recorded per field; the scope of an event
    = its explicit parent's ancestor chain, the current span's chain if contextual, nothing if explicitly root.
    Also the two alternative readings used ONLY to attribute a violation to F10 / F141."""

    def __init__(self, case, lg=False):
        self.case = case
        self.lg = lg
        self.spans = {}
        self.stack = []

    def current(self):
        return self.stack[-1] if self.stack else None

    def chain(self, i):
        out = []
        seen = set()
        while i is not None and i in self.spans and i not in seen:
            seen.add(i)
            out.append(i)
            i = self.spans[i]["parent"]
        return out[::-1]

    def apply(self, op):
        k = op["op"]
        if k == "span":
            cs = self.case["callsites"][op["cs"]]
            names = names_of(self.case, op["cs"])
            p = op["parent"]
            parent = self.current() if p == -2 else (None if p == -1 else p)
            sp = {"name": UH(cs["name"]), "cs": op["cs"], "parent": parent, "names": names, "fields": {}, "fields141": {}, "nrec": 0, "esc_drop": False}
            for i, v in op["vals"]:
                if carries(v):
                    sp["fields"][names[i]] = v
                    if not log_skipped(self.lg, names[i], v):
                        sp["fields141"][names[i]] = v
            self.spans[op["id"]] = sp
        elif k == "enter":
            self.stack.append(op["id"])
        elif k == "exit":
            for j in range(len(self.stack) - 1, -1, -1):
                if self.stack[j] == op["id"]:
                    del self.stack[j]
                    break
        elif k == "record" and op.get("caught"):
            # the call unwound (a value's Debug impl panicked): nothing it carried counts as recorded; what the output shows
            # under the names it touched is not judged until a later, completed record writes them
            sp = self.spans[op["id"]]
            sp.setdefault("uncertain", set()).update(sp["names"][i] for i, _ in op["vals"])
        elif k == "record":
            sp = self.spans[op["id"]]
            sp["nrec"] += 1
            for i, v in op["vals"]:
                if carries(v):
                    sp.setdefault("uncertain", set()).discard(sp["names"][i])
            blocked = any(needs_escape(stored_key(n, v)) for n, v in sp["fields141"].items())
            for i, v in op["vals"]:
                if carries(v):
                    sp["fields"][sp["names"][i]] = v
                    if log_skipped(self.lg, sp["names"][i], v):
                        continue
                    if not blocked:
                        sp["fields141"][sp["names"][i]] = v
                    else:
                        sp["esc_drop"] = True
        elif k == "close":
            self.spans.pop(op["id"], None)

    def scope(self, parent):
        if parent == -1:
            return []
        return self.chain(self.current() if parent == -2 else parent)

    def scope_f10(self, parent):
        """(span attributed, list) as the unrepaired code computes them"""
        cur = self.current()
        leaf = parent if parent >= 0 and parent in self.spans else cur
        return leaf, self.chain(cur)


TIMINGS_RE = re.compile(rb'"time\.busy":"[^"\\]*","time\.idle":"[^"\\]*"')
TIMINGS_MASK = b'"time.busy":"<t>","time.idle":"<t>"'
DURATION = re.compile(r"^\d+(\.\d+)?(ns|\u00b5s|ms|s)$")


def lifecycle_op(case, sim, op, point):
    """the event a configured lifecycle point is documented to synthesise: the span's own metadata, the span as parent,
    message = new|enter|exit|close (+ time.busy / time.idle at close when a timer is configured)"""
    sp = sim.spans[op["id"]]
    names = ["message"]
    vals = [[0, {"t": "str", "v": H(point)}]]
    if point == "close" and case["opts"]["ts"] is not None:
        names += ["time.busy", "time.idle"]
        vals += [[1, {"t": "duration", "v": None}], [2, {"t": "duration", "v": None}]]
    return {"op": "event", "cs": sp["cs"], "parent": op["id"], "vals": vals, "_names": names, "_lifecycle": point}


def stored_key(name, v):
    return name[2:] if (name.startswith("r#") and v["t"] in ("u128", "i128", "debug", "display", "args", "error")) else name


def ulps(a, b):
    if a == b:
        return 0
    if math.isnan(a) or math.isnan(b) or math.isinf(a) or math.isinf(b):
        return 1 << 62

    def key(x):
        n = bits_of_f64(x)
        return n if n < (1 << 63) else (1 << 63) - n
    return abs(key(a) - key(b))


def widen(v):
    """the f64 a value of type f64 / f32 is recorded as"""
    if v["t"] == "f64":
        return f64_of_bits(int(v["v"], 16))
    return struct.unpack(">f", struct.pack(">I", int(v["v"], 16)))[0]


def value_matches(v, obs, ulp_tol=0):
    """does the observed JSON value `obs` equal what was recorded, under the documented type mapping?
    returns (ok, float_drift): float_drift = matched only within ulp_tol (never accepted by the oracle itself)."""
    t = v["t"]
    isnum = lambda x: isinstance(x, (int, float)) and not isinstance(x, bool)
    if t in INT_TYPES:
        n = int(v["v"])
        if t in ("u128", "i128"):
            return (obs == str(n)) or (isinstance(obs, int) and not isinstance(obs, bool) and obs == n), False
        return isinstance(obs, int) and not isinstance(obs, bool) and obs == n, False
    if t == "bool":
        return obs is v["v"], False
    if t == "duration":
        return isinstance(obs, str) and bool(DURATION.match(obs)), False
    if t in ("str", "debug", "display", "args"):
        return obs == UH(v["v"]), False
    if t == "error":
        return obs == UH(v["v"][0]), False
    if t == "bytes":
        b = bytes.fromhex(v["v"])
        return obs == list(b) or obs == "[" + " ".join("%02x" % x for x in b) + "]", False
    if t in ("f64", "f32"):
        x = widen(v)
        if math.isnan(x) or math.isinf(x):
            return obs is None, False
        if not isnum(obs):
            return False, False
        try:
            o = float(obs)
        except OverflowError:
            return False, False
        if o == x:
            return True, False
        return False, (ulp_tol > 0 and ulps(o, x) <= ulp_tol)
    return False, False


EXACT_INT_RANGE = (-2 ** 63, 2 ** 64 - 1)
JSON_TYPE_SEEN = {}         # Rust integer type -> {"event" | "span": (JSON type, line it was seen in)}; reset per run


def jtype(x):
    return ("bool" if isinstance(x, bool) else "number" if isinstance(x, (int, float)) else "string" if isinstance(x, str)
            else "null" if x is None else "array" if isinstance(x, list) else "object")


def integer_complaints(v, obs, place, line=""):
    """`a value equal to what was recorded under the documented type mapping`, for integer fields, beyond value_matches
    (which reads the line with Python's exact integers):
      (1) a bare JSON number must lie in [i64::MIN, u64::MAX] (or be exactly a binary64 value): beyond it a JSON reader that keeps integers in i64 / u64 and
          everything else in binary64 -- serde_json, the reader this formatter ITSELF re-reads every stored span field with,
          and every double-based reader -- yields a rounded float, so the field does not read back equal to what was recorded
          (a string of digits, what the `Visit::record_u128 / record_i128` defaults produce, is kept verbatim);
      (2) the type mapping is ONE mapping per Rust type: the JSON type of an integer field of a given Rust type is the same
          in event fields and in span fields (first place seen in this run vs. this one)."""
    t = v["t"]
    out = []
    if t not in INT_TYPES or isinstance(obs, bool) or obs is None:
        return out
    if isinstance(obs, int) and not (EXACT_INT_RANGE[0] <= obs <= EXACT_INT_RANGE[1]) and float(obs) != obs:
        out.append("%s field of type %s is the bare JSON number %d (%d digits), outside [i64::MIN, u64::MAX]: a JSON reader that "
                   "keeps integers in i64/u64 and the rest in binary64 (serde_json, with which this formatter re-reads span "
                   "fields) yields %r = %d, not the recorded value" % (place, t, obs, len(str(abs(obs))), float(obs), int(float(obs))))
    jt = jtype(obs)
    seen = JSON_TYPE_SEEN.setdefault(t, {})
    seen.setdefault(place, (jt, line))
    other = seen.get("span" if place == "event" else "event")
    if other is not None and other[0] != jt:
        out.append("type mapping: this %s field of type %s (recorded %s) is a JSON %s, but a %s field of type %s is a JSON %s (in: %s)"
                   % (place, t, v["v"], jt, "span" if place == "event" else "event", t, other[0], other[1].strip()[:400]))
    return out


class Dup(list):
    """an object as the ordered list of its (key, value) pairs \u2014 duplicates preserved"""


FLOAT_TOKENS = set()        # the text of every float token the implementation wrote (fed to the Coq parser: float_token)


def strict_parse(text, collect=False):
    def const(c):
        raise ValueError("non-JSON constant " + c)

    def flt(tok):
        if collect:
            FLOAT_TOKENS.add(tok)
        return float(tok)
    return json.loads(text, object_pairs_hook=Dup, parse_constant=const, parse_float=flt)


def dup_keys(tree, path=""):
    out = []
    if isinstance(tree, Dup):
        seen = {}
        for k, v in tree:
            seen[k] = seen.get(k, 0) + 1
            out += dup_keys(v, path + "/" + k)
        out += [(path, k) for k, n in seen.items() if n > 1]
    elif isinstance(tree, list):
        for i, v in enumerate(tree):
            out += dup_keys(v, path + "/%d" % i)
    return out


def get(tree, key):
    if not isinstance(tree, Dup):
        return None
    for k, v in tree:
        if k == key:
            return v
    return None


def has(tree, key):
    return isinstance(tree, Dup) and any(k == key for k, _ in tree)


def has_float(tree):
    if isinstance(tree, float):
        return True
    if isinstance(tree, Dup):
        return any(has_float(v) for _, v in tree)
    if isinstance(tree, list):
        return any(has_float(v) for v in tree)
    return False


def trees_equal(a, b, path="", ftol=0):
    """ordered comparison; floats numerically (ftol ULPs allowed only below a `span`/`spans` node when F142 is unrepaired)"""
    if isinstance(a, Dup) or isinstance(b, Dup):
        if not (isinstance(a, Dup) and isinstance(b, Dup)) or len(a) != len(b):
            return False
        return all(ka == kb and trees_equal(va, vb, path + "/" + ka, ftol) for (ka, va), (kb, vb) in zip(a, b))
    if isinstance(a, list) or isinstance(b, list):
        if not (isinstance(a, list) and isinstance(b, list)) or len(a) != len(b):
            return False
        return all(trees_equal(x, y, path + "/#", ftol) for x, y in zip(a, b))
    if isinstance(a, bool) or isinstance(b, bool) or a is None or b is None or isinstance(a, str) or isinstance(b, str):
        return type(a) == type(b) and a == b
    if isinstance(a, float) or isinstance(b, float):
        try:
            fa, fb = float(a), float(b)
        except OverflowError:
            return False
        if fa == fb:
            return True
        in_span = path.startswith("/span/") or path.startswith("/spans/")
        return in_span and ftol > 0 and ulps(fa, fb) <= ftol
    return a == b


ESC_CLASSES = [("quote", b'\\"'), ("backslash", b"\\\\"), ("short", (b"\\n", b"\\r", b"\\t", b"\\b", b"\\f")), ("u00", b"\\u00"),
               ("U+2028/9", ("\u2028".encode(), "\u2029".encode())), ("astral", None), ("c1", None)]


def escape_classes(raw):
    out = set()
    for name, pat in ESC_CLASSES[:5]:
        pats = pat if isinstance(pat, tuple) else (pat,)
        if any(p in raw for p in pats):
            out.add(name)
    if any(b >= 0xF0 for b in raw):
        out.add("astral")
    if re.search(rb"\xc2[\x80-\x9f]", raw):
        out.add("c1")
    return out


# ------------------------------------------------------------------------------------------------
# model side

def cb(s):
    return vlib.coq_bytes(s if isinstance(s, bytes) else s.encode("utf-8"))


def coq_value(v):
    t = v["t"]
    if t in ("u8", "u16", "u32", "u64", "usize"):
        return "(VU64 %s)" % vlib.coq_N(int(v["v"]))
    if t in ("i8", "i16", "i32", "i64", "isize"):
        return "(VI64 %s)" % vlib.coq_Z(int(v["v"]))
    if t == "u128":
        return "(VU128 %s)" % vlib.coq_N(int(v["v"]))
    if t == "i128":
        return "(VI128 %s)" % vlib.coq_Z(int(v["v"]))
    if t == "bool":
        return "(VBool %s)" % vlib.coq_bool(v["v"])
    if t == "str":
        return "(VStr %s)" % cb(bytes.fromhex(v["v"]))
    if t in ("debug", "display", "args"):
        return "(VText %s)" % cb(bytes.fromhex(v["v"]))
    if t == "error":
        return "(VText %s)" % cb(bytes.fromhex(v["v"][0]))
    if t == "bytes":
        return "(VBytes %s)" % cb(bytes.fromhex(v["v"]))
    if t == "f64":
        return "(VF64 %s)" % vlib.coq_N(int(v["v"], 16))
    if t == "f32":
        return "(VF64 %s)" % vlib.coq_N(bits_of_f64(widen(v)))
    raise ValueError(t)


def coq_fields(case, cs, vals):
    names = [bytes.fromhex(h) for h in case["callsites"][cs]["fields"]]
    return vlib.coq_list(["(%s, %s)" % (cb(names[i]), coq_value(v)) for i, v in vals if carries(v)])


def coq_pspec(p):
    return "PCurrent" if p == -2 else ("PRoot" if p == -1 else "(PExplicit %s)" % vlib.coq_N(p))


def close_timings(case, out):
    """the Display text of the two durations of each close record, read from the implementation's line (real time: an input
    of the model, like the thread id).  {op index: (busy, idle)}; missing / unparsable -> empty texts (the tie then fails)."""
    res = {}
    for k, op in enumerate(case["ops"]):
        if op["op"] != "close" or k >= len(out):
            continue
        busy = idle = ""
        try:
            tree = strict_parse(b"".join(bytes.fromhex(x) for x in out[k])[:-1].decode("utf-8"))
            holder = tree if case["opts"]["flatten"] else get(tree, "fields")
            b_, i_ = get(holder, "time.busy"), get(holder, "time.idle")
            busy, idle = (b_ if isinstance(b_, str) else ""), (i_ if isinstance(i_, str) else "")
        except (ValueError, UnicodeDecodeError, TypeError):
            pass
        res[k] = (busy, idle)
    return res


def coq_case(case, tid_hex, lg, timings):
    """(Coq term, groups): the term evaluates to the lines per MODEL operation; groups[k] = how many model operations the
    k-th harness operation expands to"""
    o = case["opts"]
    b = vlib.coq_bool
    opts = ("{| o_flatten := %s; o_cur := %s; o_list := %s; o_ts := %s; o_level := %s; o_target := %s; o_file := %s; o_line := %s; "
            "o_tname := %s; o_tid := %s; o_new := %s; o_enter := %s; o_exit := %s; o_close := %s |}") % (
        b(o["flatten"]), b(o["cur"]), b(o["list"]),
        "None" if o["ts"] is None else "(Some %s)" % cb(bytes.fromhex(o["ts"])),
        b(o["level"]), b(o["target"]), b(o["file"]), b(o["line"]), b(o["tname"]), b(o["tid"]),
        b(o.get("sev_new", False)), b(o.get("sev_enter", False)), b(o.get("sev_exit", False)), b(o.get("sev_close", False)))
    env = "{| thread_name := %s; thread_id := %s |}" % (
        "None" if case["thread"] is None else "(Some %s)" % cb(bytes.fromhex(case["thread"])), cb(bytes.fromhex(tid_hex)))
    ops = []
    groups = []
    span_cs = {}
    for k, op0 in enumerate(case["ops"]):
        sub = expand_op(case, op0)
        groups.append(len(sub))
        for op in sub:
            kind = op["op"]
            if kind == "span":
                span_cs[op["id"]] = op["cs"]
                c = case["callsites"][op["cs"]]
                meta = "{| sm_name := %s; sm_level := %s; sm_target := %s; sm_file := %s; sm_line := %s |}" % (
                    cb(bytes.fromhex(c["name"])), vlib.coq_N(c["level"]), cb(bytes.fromhex(c["target"])),
                    "None" if c["file"] is None else "(Some %s)" % cb(bytes.fromhex(c["file"])),
                    "None" if c["line"] is None else "(Some %s)" % vlib.coq_N(c["line"]))
                ops.append("ONew %s %s %s %s" % (vlib.coq_N(op["id"]), meta, coq_pspec(op["parent"]), coq_fields(case, op["cs"], op["vals"])))
            elif kind == "enter":
                ops.append("OEnter %s" % vlib.coq_N(op["id"]))
            elif kind == "exit":
                ops.append("OExit %s" % vlib.coq_N(op["id"]))
            elif kind == "record" and op.get("caught"):
                ops.append("ORecordAborted %s" % vlib.coq_N(op["id"]))
            elif kind == "record":
                ops.append("ORecord %s %s" % (vlib.coq_N(op["id"]), coq_fields(case, span_cs[op["id"]], op["vals"])))
            elif kind == "close":
                busy, idle = timings.get(k, ("", ""))
                ops.append("OClose %s %s %s" % (vlib.coq_N(op["id"]), cb(busy), cb(idle)))
            elif kind == "event":
                c = case["callsites"][op["cs"]]
                ev = "{| ev_level := %s; ev_target := %s; ev_file := %s; ev_line := %s; ev_vals := %s |}" % (
                    vlib.coq_N(c["level"]), cb(bytes.fromhex(c["target"])),
                    "None" if c["file"] is None else "(Some %s)" % cb(bytes.fromhex(c["file"])),
                    "None" if c["line"] is None else "(Some %s)" % vlib.coq_N(c["line"]),
                    coq_fields(case, op["cs"], op["vals"]))
                ops.append("OEvent %s %s" % (ev, coq_pspec(op["parent"])))
    return "(run_ops (repo_cfg_of %s) %s %s %s)" % (b(lg), opts, env, vlib.coq_list(ops)), groups


def regroup(per_op, groups):
    """model lines per harness operation"""
    out, i = [], 0
    for g in groups:
        out.append([l for lines in per_op[i:i + g] for l in lines])
        i += g
    return out if i == len(per_op) else None


# ------------------------------------------------------------------------------------------------

def run_harness(ctx, rep, path, cases, tag, extra=()):
    f = os.path.join(ctx.work, "cases_%s.jsonl" % tag)
    with open(f, "w") as fh:
        for c in cases:
            fh.write(json.dumps(c) + "\n")
    rc, out = run_bin(path, [f] + list(extra), timeout=900)
    obs = {}
    build = None
    for line in out.splitlines():
        if not line.startswith("{"):
            continue
        try:
            r = json.loads(line)
        except ValueError:
            continue
        if "build" in r:
            build = r["build"] + ("-log" if r.get("log") else "") + ("-pl" if r.get("pl") else "")
        elif "id" in r:
            obs[r["id"]] = r
    if rc != 0 or len(obs) != len(cases):
        rep.tie("run:h_json:" + tag, False, "rc=%d, %d of %d cases answered: %s" % (rc, len(obs), len(cases), vlib.last_error(out)[:300]))
    return obs, build


def oracle_event(rep, case, sim, op, raw_chunks, flags, prof, ev_index):
    """the property, on the bytes written for one event.  returns the parsed tree (or None)."""
    raw = b"".join(raw_chunks)
    where = {"case": strip_case(case), "event_index": ev_index, "profile": prof, "line_hex": raw.hex()}

    def bad(what, finding=None):
        rep.violation(what + " [%s build]" % prof, dict(where, line=raw.decode("utf-8", "replace")), finding=finding)

    # --- a single line
    if not raw.endswith(b"\n") or raw.count(b"\n") != 1 or b"\r" in raw:
        bad("record is not exactly one line (LF count %d, CR count %d, ends with LF: %s)" % (raw.count(b"\n"), raw.count(b"\r"), raw.endswith(b"\n")))
        return None
    # --- parses as one JSON object (independent parser)
    try:
        tree = strict_parse(raw[:-1].decode("utf-8", "strict"), collect=True)
    except (ValueError, UnicodeDecodeError) as ex:
        bad("record does not parse as JSON: %s" % ex)
        return None
    if not isinstance(tree, Dup):
        bad("record is not a JSON object")
        return None
    o = case["opts"]
    names = op.get("_names") or names_of(case, op["cs"])
    pairs = [(names[i], v) for i, v in op["vals"] if carries(v)]
    ev_names = [n for n, _ in pairs]
    # --- unique keys
    excluded = case.get("kind") == "excluded"
    for path, k in dup_keys(tree):
        in_fields = (path == "/fields" and not o["flatten"]) or (path == "" and o["flatten"])
        if in_fields and ev_names.count(k) > 1:
            bad("duplicate key %r in %s: the event callsite has two fields of that name" % (k, path or "/"), finding="F143")
        elif excluded:
            rep.count("excluded:reserved-collision-duplicate")
        else:
            bad("duplicate key %r in object %s" % (k, path or "/"))
    # --- event fields faithful
    holder = tree if o["flatten"] else get(tree, "fields")
    if not o["flatten"] and not isinstance(holder, Dup):
        bad("`fields` object missing")
    else:
        last = {}
        for n, v in pairs:
            last.setdefault(n, []).append(v)
        for n, vs in last.items():
            keys = [n] + ([n[2:]] if n.startswith("r#") else [])
            found = [k for k in keys if has(holder, k)]
            if not found:
                bad("event field %r missing" % n)
                continue
            if len(vs) > 1 or (excluded and o["flatten"] and n in RESERVED):
                continue                                   # duplicate names (F143, reported above) / excluded collision
            okv, _ = value_matches(vs[0], get(holder, found[0]))
            if not okv:
                bad("event field %r = %r, recorded %s" % (n, get(holder, found[0]), json.dumps(vs[0])))
            else:
                for what in integer_complaints(vs[0], get(holder, found[0]), "event", raw.decode("utf-8", "replace")):
                    bad("event field %r: %s" % (n, what))
        if not o["flatten"]:
            extra = [k for k, _ in holder if k not in ev_names and ("r#" + k) not in ev_names]
            if extra:
                bad("`fields` has keys that were never recorded: %r" % extra)
    # --- metadata present when asked for (values must be the data's)
    cs = case["callsites"][op["cs"]]
    if not (excluded and o["flatten"]):
        if o["target"] and get(tree, "target") != UH(cs["target"]):
            bad("target = %r, metadata says %r" % (get(tree, "target"), UH(cs["target"])))
        if o["level"] and get(tree, "level") != LEVELS[cs["level"]]:
            bad("level = %r, metadata says %r" % (get(tree, "level"), LEVELS[cs["level"]]))
    # --- spans
    scope = sim.scope(op["parent"])
    f10_leaf, f10_list = sim.scope_f10(op["parent"])
    explicit = op["parent"] != -2
    tol = 0 if flags["f142"] else 16

    def span_diffs(obj, i):
        """problems of one span object against span i; returns [(what, finding)]"""
        sp = sim.spans[i]
        out = []
        if not isinstance(obj, Dup):
            return [("span entry is not an object", None)]
        nm = [v for k, v in obj if k == "name"]
        if not nm or nm[-1] != sp["name"]:
            out.append(("span object name = %r, span is %r" % (nm, sp["name"]), None))
        expect = sp["fields"]
        alt = sp["fields141"]
        seen = set()
        for n, v in expect.items():
            keys = [n] + ([n[2:]] if n.startswith("r#") else [])
            found = [k for k in keys if has(obj, k)]
            seen.update(found)
            if n in sp.get("uncertain", ()):
                rep.count("not-judged:span-field-touched-by-an-unwound-record-call")
                continue
            if log_skipped(sim.lg, n, v):
                # documented exclusion of the tracing-log build: a `log.*` span field whose value was recorded through
                # Debug / Display is that crate's metadata and is skipped by design (the key may still hold an older typed
                # value); the correspondence checks the exact behaviour against the model.  A `log.*` field recorded with a
                # str / integer / bool / float / bytes value is an ordinary field and must be there.
                rep.count("excluded:log-prefixed-span-field-recorded-through-debug")
                continue
            if n.startswith("log."):
                rep.count("checked:log-prefixed-span-field-typed:" + ("log-build" if sim.lg else "plain-build"))
            if n.startswith("r#"):
                rep.count("checked:raw-identifier-span-field:" + ("typed" if v["t"] not in VIA_DEBUG else "debug"))
            if not found:
                fnd = "F141" if (sp["esc_drop"] and n not in alt) else None
                out.append(("span field %r missing (recorded %s)" % (n, json.dumps(v)), fnd))
                continue
            # a raw identifier `r#x` is stored as `x` by record_debug and as `r#x` by the typed methods: when a field was
            # recorded through both paths both keys exist; the field "appears with the recorded value" if either holds it
            res = [value_matches(v, get(obj, k), tol) for k in found]
            okv = any(a for a, _ in res)
            drift = any(d for _, d in res)
            if not okv:
                if drift and v["t"] in ("f64", "f32"):
                    out.append(("f64 span field %r = %r, recorded %r (re-read by serde_json's approximate float parser)" % (n, get(obj, found[0]), widen(v)), "F142"))
                elif sp["esc_drop"] and n in alt and any(value_matches(alt[n], get(obj, k), tol)[0] for k in found):
                    out.append(("span field %r = %r is stale: the later record of %s was dropped" % (n, get(obj, found[0]), json.dumps(v)), "F141"))
                else:
                    out.append(("span field %r = %r, recorded %s" % (n, get(obj, found[0]), json.dumps(v)), None))
            else:
                for k, (a, _) in zip(found, res):
                    if a:
                        for what in integer_complaints(v, get(obj, k), "span", raw.decode("utf-8", "replace")):
                            out.append(("span field %r: %s" % (n, what), None))
                        break
                if len(found) > 1:
                    rep.count("observation:raw-identifier-twin-keys")
        unc = sp.get("uncertain", ())
        extra = [k for k, _ in obj if k != "name" and k not in seen and k not in unc and ("r#" + k) not in unc]
        if extra:
            out.append(("span object has keys that were never recorded: %r" % extra, None))
        return out

    sp_obj = get(tree, "span")
    if has(tree, "span") and not (excluded and o["flatten"]):
        if not scope:
            if explicit and f10_leaf is not None and get(sp_obj, "name") == sim.spans[f10_leaf]["name"]:
                bad("`span` names %r but the event is an explicit root (no span in scope)" % sim.spans[f10_leaf]["name"], finding="F10")
            else:
                bad("`span` present but the event has no span in scope")
        else:
            for what, fnd in span_diffs(sp_obj, scope[-1]):
                bad("`span`: " + what, finding=fnd)
    elif o["cur"] and scope and not (excluded and o["flatten"]):
        bad("`span` missing although the event is in span %r" % sim.spans[scope[-1]]["name"])
    lst = get(tree, "spans")
    if not (excluded and o["flatten"]):
        if has(tree, "spans") or (o["list"] and scope):
            got = lst if isinstance(lst, list) else None
            if got is None:
                if explicit and not f10_list and not has(tree, "spans"):
                    bad("`spans` missing: event scope is %r" % [sim.spans[i]["name"] for i in scope], finding="F10")
                else:
                    bad("`spans` missing or not an array: event scope is %r" % [sim.spans[i]["name"] for i in scope])
            else:
                names_got = [([v for k, v in x if k == "name"] or [None])[-1] if isinstance(x, Dup) else None for x in got]
                names_want = [sim.spans[i]["name"] for i in scope]
                if len(got) != len(scope) or names_got != names_want:
                    f10_names = [sim.spans[i]["name"] for i in f10_list]
                    fnd = "F10" if (explicit and names_got == f10_names and len(got) == len(f10_list)) else None
                    bad("`spans` names %r, the event's scope root->leaf is %r" % (names_got, names_want), finding=fnd)
                else:
                    for x, i in zip(got, scope):
                        for what, fnd in span_diffs(x, i):
                            bad("`spans`[%r]: %s" % (sim.spans[i]["name"], what), finding=fnd)
    return tree


def strip_case(case):
    return {k: v for k, v in case.items() if not k.startswith("_")}


FORMS_EXPECT = {
    # label -> list of per-record expectations: (event fields, span fields or None); values as Python JSON values
    "dotted": [({"message": "dotted 1", "user.id": 7, "user.name": 'x"y'}, {"http.method": "GET", "http.status": 200, "a.b.c": "Some(1)"})],
    "literal_plain_record": [({"message": "after"}, {"spa ce": "over", "dotted.name": 2, "later": 5})],
    "shorthand": [({"message": "short", "x": 5, "y": "why", "z": "[1, 2]"}, {"x": 5, "y": "why", "z": "[1, 2]"})],
    "raw": [({"message": "raw", "type": 3, "match": '"dbg"', "fn": "disp", "struct": True}, {"type": 1, "match": '"dbg"', "fn": "disp", "loop": "str"})],
    "message_forms": [({"message": "plain"}, None), ({"message": 'fmt 1 "q\\""'}, None), ({"message": "explicit"}, None),
                      ({"message": "with field", "a": 1}, None), ({"message": "custom target"}, None), ({"message": "lvl"}, None)],
    "literal": [({"message": "first", 'quo"te': 1, "back\\slash": "v", "new\nline": True, "uni\u2028sep": 2, "ast\U0001F600ral": "\U0001F600", "tab\there": 3, "nul\x00": 4},
                 {'quo"te': 1, "back\\slash": "v", "new\nline": True, "uni\u2028sep": 2, "ast\U0001F600ral": "\U0001F600", "spa ce": 1}),
                ({"message": "second"},
                 {'quo"te': 1, "back\\slash": "v", "new\nline": True, "uni\u2028sep": 2, "ast\U0001F600ral": "\U0001F600", "spa ce": 1, "later": 5})],
}


def check_forms(rep, recs, prof):
    """field-name FORMS through the real macros (h_json_forms).  `r#x` may appear as `r#x` or `x`."""
    by = {}
    for r in recs:
        by.setdefault((r["label"], r["flatten"]), []).append(bytes.fromhex(r["line"]))
    for (label, flatten), lines in sorted(by.items()):
        for idx, raw in enumerate(lines):
            rep.evaluations += 1
            rep.count("forms:" + label)
            where = {"kind": "forms", "label": label, "flatten": flatten, "record": idx, "profile": prof, "line": raw.decode("utf-8", "replace")}
            if not raw.endswith(b"\n") or raw.count(b"\n") != 1 or b"\r" in raw:
                rep.violation("macro form %s: record is not one line" % label, where)
                continue
            try:
                tree = strict_parse(raw[:-1].decode("utf-8"))
            except (ValueError, UnicodeDecodeError) as ex:
                rep.violation("macro form %s: does not parse: %s" % (label, ex), where)
                continue
            dups = dup_keys(tree)
            if dups:
                if label in ("dup_event_names", "message_dup"):
                    rep.violation("macro form %s: duplicate key(s) %r from two event fields of one name" % (label, dups), where, finding="F143")
                elif label == "span_named_name":
                    rep.count("excluded:reserved-collision-duplicate")
                else:
                    rep.violation("macro form %s: duplicate keys %r" % (label, dups), where)
            if label == "explicit_parent":
                want = [["root", "child"], ["root", "child"], [], ["other"]][idx]
                got = [get(x, "name") for x in (get(tree, "spans") or [])]
                if got != want:
                    rep.violation("macro form explicit_parent[%d]: `spans` names %r, scope is %r" % (idx, got, want), where, finding="F10" if idx < 3 else None)
                continue
            exp = FORMS_EXPECT.get(label)
            if not exp or idx >= len(exp):
                continue
            ev, sp = exp[idx]
            holder = tree if flatten else get(tree, "fields")
            for k, v in ev.items():
                got = [x for kk, x in holder if kk in (k, "r#" + k)] if isinstance(holder, Dup) else []
                if got != [v]:
                    rep.violation("macro form %s: event field %r = %r, recorded %r" % (label, k, got, v), where)
            if sp is not None:
                for holder in [get(tree, "span")] + list(get(tree, "spans") or []):
                    for k, v in sp.items():
                        got = [x for kk, x in holder if kk in (k, "r#" + k)] if isinstance(holder, Dup) else []
                        if got != [v]:
                            fnd = "F141" if (label == "literal" and k == "later" and not got) else None
                            rep.violation("macro form %s: span field %r = %r, recorded %r" % (label, k, got, v), where, finding=fnd)


def run(ctx):
    rep = Report(ctx)
    JSON_TYPE_SEEN.clear()
    rep.rule = ("seeded histories: 0-4 spans (contextual / root / explicit parents), enter / exit (some out of order), 0-5 later "
                "record calls per span (overwrites, type changes, the same field twice), events with contextual / explicit / "
                "explicit-root parents; every combination of flatten_event / current_span / span_list and target / level / file / "
                "line / thread name / thread id / timestamp text is drawn at random; payloads from Unicode classes (quotes, "
                "backslashes, every C0 control, DEL, C1, U+2028/2029, BMP edge code points, astral, JSON-looking text), all integer "
                "widths at their extremes, NaN / inf / signed zero / subnormal / random f64 and f32, bools, byte slices, error "
                "chains, ?/% / format_args values; field names: identifiers, dotted, raw identifiers, string literals with odd "
                "characters, reserved words where they are legal.  Streams: mixed, contextual-only, default options, float-free "
                "(byte-for-byte), excluded (reserved-key collisions: only `one line that parses` is demanded), lifecycle "
                "(with_span_events NEW / ENTER / EXIT / CLOSE subsets, with and without a timer, span handles dropped so that "
                "spans close mid-history), plus a fixed macro scenario list.  Every case runs on two builds of the real crates: "
                "without and with tracing-subscriber's default `tracing-log` feature.  non-trivial = a record whose line contains >= 1 escaped character class AND whose scope has a "
                "span recorded into >= 2 times; distinct = distinct line bytes")
    rep.trusted_base = [
        "Coq 8.16.1 kernel + vm_compute (no native_compute)",
        "translators/json_fmt.py + rsparse.py (shape recognition of json.rs / tracing-serde; fails closed via gen_json_unrecognised = [])",
        "harness h_json.rs / h_json_forms.rs (dynamic callsites through tracing-core's public API; records the writer's bytes)",
        "Python's json module with object_pairs_hook (the independent parser) and Python float parsing (exactly rounded)",
        "serde_json's float printer (not modelled: floats compared numerically)", "the driver's bookkeeping of what was recorded (oracle)"]
    rep.assumptions = [
        "finite f64 text (shortest round-trip) is not modelled: parse_render / stored-string refinement are for float-free trees; floats are compared numerically through the independent parser (PARTIAL)",
        "strings are valid UTF-8 (Rust's str); the theorems cover all byte lists, the model parser does not validate UTF-8",
        "build with the `tracing-log` feature: span fields named `log.*` are that crate's metadata (those recorded through Debug/Display are deliberately skipped by JsonVisitor): excluded from the oracle's faithfulness clause there, modelled exactly (feat_log) and compared by the correspondence; records of the `log` crate go through tracing-log's LogTracer (stream logcrate): the model is given the event tracing-log builds (lib.rs dispatch_record) and the record's own target / file / line as metadata (normalized_metadata)",
        "Debug / Display impls of recorded values and the timer do not fail (a failing one makes format_event return Err; fmt_subscriber then writes its `Unable to format` line, C13's subject)",
        "serde_json without preserve_order / arbitrary_precision (checked by the translator in tracing-subscriber/Cargo.toml): Value's object is a BTreeMap",
        "a span handle is dropped only when nothing else refers to the span (not entered, no live child), so that it closes at that operation (when a span closes is C05's subject); a span is not re-entered while entered; closed spans are not referred to again",
        "close timings (time.busy / time.idle) are real-time text: inputs of the model taken from the run, the oracle demands the documented duration format only",
        "reserved keys (the property's exclusion): the ten top-level keys for flattened event fields, `name` for span fields; never both `r#x` and `x` in one field set",
        "fmt::Arguments / Empty / unset / Option handling is tracing-core's (values without a recording are dropped by the driver before the model sees them)"]
    # ---- leg B1: translator
    text, unrec = json_tr.main(ctx.repo, None)
    gen_if_changed(os.path.join(vlib.COQ, "gen", "Gen_json.v"), text)
    rep.tie("translator:Gen_json", not unrec, "; ".join(unrec[:4]), unrec[:1] or None)
    flags = {k: bool(re.search(r"gen_%s_fixed : bool := true" % k, text)) for k in ("f10", "f141", "f142")}
    ctx.log("source shape: F10 %s, F141 %s, F142 %s" % tuple("repaired" if flags[k] else "present" for k in ("f10", "f141", "f142")))
    rep.extra["source_switches"] = {"f10_fixed": flags["f10"], "f141_fixed": flags["f141"], "f142_fixed": flags["f142"]}
    # ---- leg A
    rep.proof = coq_prove(ctx, "C14", ["theories/Properties/C14.vo"])
    # ---- cases
    rng = ctx.rng
    if ctx.replay:
        r = json.load(open(ctx.replay))
        c = r.get("case", r)
        c = c.get("case", c) if "ops" not in c else c
        c.setdefault("kind", "replay")
        cases = [c]
    else:
        cases = load_corpus()
        scale = 5 if ctx.thorough() else 1
        plan = [("mixed", 150, {}), ("contextual", 70, {"explicit": False, "esc_names": False}), ("default", 50, {"explicit": False}),
                ("nofloat", 90, {"floats": False, "esc_names": False}), ("dupnames", 8, {"dup": True, "explicit": False}),
                ("excluded", 20, {"collide": True, "explicit": False, "esc_names": False}),
                ("lifecycle", 60, {"esc_names": False})]
        for kind, n, kw in plan:
            for _ in range(n * scale):
                cases.append(gen_case(rng, kind, **kw))
        for _ in range(30 * scale):
            cases.append(add_log_ops(rng, gen_case(rng, "logcrate", esc_names=False), rng.randint(1, 4)))
        for _ in range(8 * scale):
            cases.append(gen_race_case(rng, 1000))
        for _ in range(30 * scale):
            cases.append(gen_case(rng, "specialnames", explicit=False, esc_names=False))
        for _ in range(40 * scale):
            cases.append(gen_case(rng, "panics", esc_names=False))
    for i, c in enumerate(cases):
        c["id"] = i + 1
    by_id = {c["id"]: c for c in cases}
    # ---- implementation: the same cases on the plain build and on the build with tracing-subscriber's default
    #      `tracing-log` feature (h_json_log); thorough: both also as release builds
    #      a third build has tracing-subscriber's `parking_lot` feature (h_json_pl: the extensions lock does not poison); it
    #      runs the `panics` stream only (a recorded value's Debug impl panics inside Span::record, caught; the span is used again)
    GROUPS = {"plain": ("h_json", None, ""), "log": ("h_json_log", ["log"], "-log"), "pl": ("h_json_pl", ["pl"], "-pl")}
    builds = [(False, g) for g in GROUPS] + ([(True, g) for g in GROUPS] if ctx.thorough() else [])
    impl = []
    for rel, grp in builds:
        lg = grp == "log"
        binname, feats, suffix = GROUPS[grp]
        ok, paths, log = cargo_build(ctx, "json", [binname] + (["h_json_forms"] if grp == "plain" else []), release=rel, features=feats)
        want_build = ("release" if rel else "debug") + suffix
        if not ok:
            rep.tie("build:" + want_build, False, vlib.last_error(log))
            return rep
        mine = [c for c in cases if (bool(c.get("only_pl")) == (grp == "pl")) and (lg or not c.get("only_log"))]
        if not mine:
            continue
        obs, build = run_harness(ctx, rep, paths[binname], [strip_case(c) for c in mine if not c.get("race")], want_build)
        racing = [strip_case(c) for c in mine if c.get("race")]
        if racing:
            obs2, _ = run_harness(ctx, rep, paths[binname], racing, want_build + "-race", extra=["--parallel"])
            obs.update(obs2)
        if build != want_build:
            rep.tie("build-profile:" + want_build, False, "harness reports %r" % build)
        forms = []
        if grp == "plain":
            rc, fout = run_bin(paths["h_json_forms"], timeout=120)
            forms = [json.loads(l) for l in fout.splitlines() if l.startswith("{")] if rc == 0 else []
            if rc != 0 or not forms:
                rep.tie("run:h_json_forms:" + want_build, False, vlib.last_error(fout)[:300])
        impl.append((want_build, grp, obs, forms))
        ctx.log("implementation run (%s): %d cases" % (want_build, len(obs)))
    # the serde_json the harness was linked with is the one whose ESCAPE table the translator read
    try:
        lock = open(os.path.join(os.path.dirname(vlib.harness_pkg(ctx, "json")), "Cargo.lock")).read()
        vers = re.findall(r'name = "serde_json"\nversion = "([^"]+)"', lock)
        want = re.search(r'gen_serde_json_version : string := "([^"]*)"', text).group(1)
        rep.tie("serde_json-version", vers == [want], "harness lock file has serde_json %s, the translator read the ESCAPE table of %s" % (vers, want))
    except (OSError, AttributeError) as ex:
        rep.tie("serde_json-version", False, str(ex)[:200])

    # ---- model evaluation on the same histories (thread id text and the close timings are inputs taken from the run the
    #      model is evaluated for).  feat_log = false: every case.  feat_log = true: every case that has a span field name
    #      starting with `log.` plus every 6th other case; for the remaining ones C14_log_feature_inert proves that the
    #      model writes the same lines in both configurations (premise checked here: no such name), so the plain
    #      evaluation is the model's answer for the log build too.
    def has_log_name(c):
        return any(cs["kind"] == "span" and any(UH(f).startswith("log.") for f in cs["fields"]) for cs in c["callsites"])

    models = {}
    for grp in GROUPS:
        lg = grp == "log"
        firsts = [(prof, obs) for prof, g, obs, _ in impl if g == grp]
        if not firsts:
            continue
        prof0, obs0 = firsts[0]
        model = {}
        try:
            terms = []
            chunk = 25
            ids = [c["id"] for n, c in enumerate(cases)
                   if c["id"] in obs0 and (not lg or has_log_name(c) or c.get("only_log") or n % 6 == 0 or ctx.replay)]
            groups = {}
            for i in range(0, len(ids), chunk):
                part = ids[i:i + chunk]
                tl = []
                for j in part:
                    term, groups[j] = coq_case(by_id[j], obs0[j]["tid"], lg, close_timings(by_id[j], obs0[j]["out"]))
                    tl.append(term)
                terms.append(("m%d" % i, vlib.coq_list(tl)))
            res = coq_eval(ctx, "From Coq Require Import String Ascii NArith ZArith Bool List.\nFrom TV Require Import Fmt.JsonModel.\nImport ListNotations.\nLocal Open Scope N_scope.",
                           terms, shards=min(vlib.NCPU, max(1, len(terms))), tag="cases_" + grp)
            for i in range(0, len(ids), chunk):
                for j, per_op in zip(ids[i:i + chunk], res["m%d" % i]):
                    model[j] = (prof0, regroup([[bytes(l) for l in lines] for lines in per_op], groups[j]))
            n_eval = len(model)
            if lg and "plain" in models:
                for cid, v in models["plain"].items():
                    if cid not in model and not has_log_name(by_id[cid]):
                        model[cid] = v
            models[grp] = model
            rep.count("model-evaluated:" + grp, n_eval)
        except Exception as ex:  # ModelEvalError or a parse problem: the tie is broken, the oracle still runs
            rep.tie("model-eval-" + grp, False, str(ex)[:300])
        ctx.log("model (%s build) evaluated on %s histories" % (grp, n_eval if grp in models else "no"))

    # ---- correspondence + oracle
    distinct_lines = set()
    sev_point = {"span": ("sev_new", "new"), "enter": ("sev_enter", "enter"), "exit": ("sev_exit", "exit"), "close": ("sev_close", "close")}
    for prof, grp, obs, forms in impl:
        lg = grp == "log"
        disagree = []
        n_bytes_eq = 0
        n_tree_eq = 0
        model = models.get(grp)
        obs_of = {p2: ob for p2, l2, ob, _ in impl}
        for c in cases:
            cid = c["id"]
            r = obs.get(cid)
            if r is None:
                continue
            rep.count("case:" + c.get("kind", "?"))
            if r["panic"] is not None:
                rep.violation("the formatter panicked: %s [%s build]" % (bytes.fromhex(r["panic"]).decode("utf-8", "replace")[:200], prof),
                              {"case": strip_case(c), "profile": prof})
            sim = Sim(c, lg)
            o = c["opts"]
            model_prof, ml = model.get(cid, (None, None)) if model is not None else (None, None)
            if model is not None and cid in model and (ml is None or len(ml) != len(c["ops"])):
                disagree.append({"case": strip_case(c), "impl_ops": len(r["out"]), "model_ops": None if ml is None else len(ml)})
                ml = None
            n_race = 0
            tid_here, tid_model = bytes.fromhex(r["tid"]), None
            if ml is not None and prof != model_prof:
                # the model was evaluated with another run's thread id / close timings: substitute this run's texts
                r0 = obs_of[model_prof][cid]
                tid_model = bytes.fromhex(r0["tid"])
            for k, op in enumerate(c["ops"]):
                rep.count("op:" + op["op"])
                op = as_event_op(c, op)
                kind = op["op"]
                if k >= len(r["out"]):
                    break
                chunks = [bytes.fromhex(x) for x in r["out"][k]]
                # what the operation is documented to write
                eop = None
                if kind == "event":
                    eop = op
                    rep.count("parent:" + {-2: "contextual", -1: "explicit-root"}.get(op["parent"], "explicit-span"))
                elif kind in sev_point and o.get(sev_point[kind][0], False):
                    if kind != "close":
                        sim.apply(op)
                    eop = lifecycle_op(c, sim, op, sev_point[kind][1])
                    rep.count("lifecycle:" + sev_point[kind][1])
                elif kind == "race":
                    # the record calls of the two threads; they write disjoint fields, so what is recorded afterwards does
                    # not depend on how they were ordered
                    for sub in expand_op(c, op):
                        sim.apply(sub)
                    info = (r.get("race") or [])[n_race:n_race + 1]
                    n_race += 1
                    if not info or not info[0][2]:
                        rep.violation("race operation: thread 2 never saw thread 1 begin (harness protocol) [%s build]" % prof,
                                      {"case": strip_case(c), "op_index": k, "profile": prof})
                    else:
                        rep.count("race:overlapped" if info[0][0] else ("race:excluded(second call waited)" if info[0][1] else "race:no-gate-formatted"))
                elif kind != "close":
                    sim.apply(op)
                    if op.get("caught"):
                        rep.count("op:record-unwound-and-caught")
                        if k not in (r.get("caught") or []):
                            rep.violation("harness protocol: the record call with a panicking Debug value did not unwind [%s build]" % prof,
                                          {"case": strip_case(c), "op_index": k, "profile": prof})
                if eop is None:
                    if chunks:
                        rep.violation("operation %r wrote %d chunk(s) although no record is due [%s build]" % (kind, len(chunks), prof),
                                      {"case": strip_case(c), "op_index": k, "profile": prof, "line_hex": b"".join(chunks).hex()})
                    if ml is not None and ml[k]:
                        disagree.append({"case": strip_case(c), "op_index": k, "impl": None, "model": ml[k][0].decode("utf-8", "replace")})
                    if kind == "close":
                        sim.apply(op)
                    continue
                raw = b"".join(chunks)
                rep.evaluations += 1
                rep.count("writes-per-record:%d" % len(chunks))
                tree = oracle_event(rep, c, sim, eop, chunks, flags, prof, k)
                classes = escape_classes(raw)
                for cl in classes:
                    rep.count("escape:" + cl)
                scope = sim.scope(eop["parent"])
                if classes and any(sim.spans[i]["nrec"] >= 2 for i in scope):
                    rep.nontrivial.add(raw)
                distinct_lines.add(raw)
                rep.count("opts:flatten=%d,cur=%d,list=%d" % (o["flatten"], o["cur"], o["list"]))
                # correspondence with the model
                if ml is not None:
                    if len(ml[k]) != 1:
                        disagree.append({"case": strip_case(c), "op_index": k, "impl": raw.decode("utf-8", "replace"), "model": [x.decode("utf-8", "replace") for x in ml[k]]})
                    else:
                        mraw = ml[k][0]
                        raw_c, tree_c = raw, tree
                        if tid_model is not None:
                            # the model was evaluated with another run's real-time inputs: this run's thread id text is
                            # substituted, the two close durations are masked on both sides
                            mraw = TIMINGS_RE.sub(TIMINGS_MASK, mraw.replace(tid_model, tid_here))
                            raw_c = TIMINGS_RE.sub(TIMINGS_MASK, raw)
                            if raw_c != raw and tree is not None:
                                try:
                                    tree_c = strict_parse(raw_c[:-1].decode("utf-8"))
                                except (ValueError, UnicodeDecodeError):
                                    tree_c = None
                        try:
                            mtree = strict_parse(mraw[:-1].decode("utf-8"))
                        except (ValueError, UnicodeDecodeError):
                            mtree = None
                        same_tree = tree_c is not None and mtree is not None and mraw.endswith(b"\n") and \
                            trees_equal(tree_c, mtree, "", 0 if flags["f142"] else 16)
                        float_free = mtree is not None and not has_float(mtree)
                        if not same_tree or (float_free and mraw != raw_c):
                            if len(disagree) < 5:
                                disagree.append({"case": strip_case(c), "op_index": k, "impl": raw.decode("utf-8", "replace"),
                                                 "model": mraw.decode("utf-8", "replace"), "float_free": float_free})
                            else:
                                disagree.append(None)
                        else:
                            n_tree_eq += 1
                            n_bytes_eq += 1 if float_free else 0
                if kind == "close":
                    sim.apply(op)
            if r["panic"] is None and len(r["out"]) != len(c["ops"]):
                rep.violation("%d operations, output for %d [%s build]" % (len(c["ops"]), len(r["out"]), prof), {"case": strip_case(c), "profile": prof})
        check_forms(rep, forms, prof)
        if model is not None:
            rep.tie("correspondence:" + prof, not disagree,
                    "%d records equal as ordered trees (%d of them float-free and byte-identical), %d disagreements" % (n_tree_eq, n_bytes_eq, len(disagree)),
                    ([d for d in disagree if d] or [None])[0] if disagree else None)
            rep.traces_validated += n_tree_eq
            rep.count("tie:tree-equal:" + prof, n_tree_eq)
            rep.count("tie:byte-identical:" + prof, n_bytes_eq)
    # ---- the hypothesis of C14_parse_render_any_float_printer, checked on the real printer's output: every float token
    #      serde_json wrote is read by the model's strict parser as exactly one float token
    toks = sorted(FLOAT_TOKENS)
    if len(toks) > 4000:
        toks = [toks[i] for i in sorted(ctx.rng.sample(range(len(toks)), 4000))]
    if toks:
        try:
            terms = []
            for i in range(0, len(toks), 400):
                part = toks[i:i + 400]
                terms.append(("t%d" % i, "(map (fun t => match parse_value 1 (t ++ [44]) with Some (JFloat 0, [44]) => true | _ => false end) %s)"
                              % vlib.coq_list([cb(t) for t in part])))
            res = coq_eval(ctx, "From Coq Require Import String Ascii NArith ZArith Bool List.\nFrom TV Require Import Fmt.JsonModel.\nImport ListNotations.\nLocal Open Scope N_scope.",
                           terms, shards=min(vlib.NCPU, max(1, len(terms))), tag="float_tokens")
            bad_toks = []
            for i in range(0, len(toks), 400):
                bad_toks += [t for t, ok in zip(toks[i:i + 400], res["t%d" % i]) if ok is not True]
            rep.tie("float-tokens", not bad_toks, "%d distinct float tokens written by serde_json, each read by the model parser as one float token" % len(toks),
                    bad_toks[:3] or None)
            rep.count("float-tokens-checked", len(toks))
        except Exception as ex:
            rep.tie("float-tokens", False, str(ex)[:300])
    rep.extra["distinct_lines"] = len(distinct_lines)
    samples = []
    for c in cases[:2] + cases[5:7]:
        r = impl[0][2].get(c["id"])
        recs = [x for x in (r["out"] if r else []) if x]
        if recs:
            samples.append({"kind": c.get("kind"), "opts": c["opts"], "n_ops": len(c["ops"]),
                            "first_record": b"".join(bytes.fromhex(x) for x in recs[0]).decode("utf-8", "replace")})
    rep.samples = samples
    return rep
