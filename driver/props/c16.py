"""C16 — Rolling appender: a write lands in its period's file; only the oldest are pruned.

Leg A: theorems of coq/theories/Properties/C16.v over Appender/RollingModel.v (time arithmetic for all Z,
       the exclusive interface by induction over write histories, the shared interface as a small-step
       system for every schedule and thread count, pruning for every directory).
Leg B: translators/rolling.py (every run; parameters of rolling.rs == the model's, Appender/RollingTie.v)
       + correspondence: the real RollingFileAppender under the injectable clock (hook H1) against the
       model on the same clock scripts / forced schedules: directory listing, per-file bytes, creation
       order, rotation count after every operation.
Leg C: oracle, in Python, on the implementation's observations only: every buffer exactly once and
       whole at the end of exactly one file, that file named for the period of the write (calendar by
       Python's datetime), one rotation per boundary crossing / none otherwise, file count <= limit and
       oldest-first removal by the observed created() stamps."""
import calendar
import datetime
import glob
import hashlib
import json
import os
import random
import re
import shutil
import sys
from concurrent.futures import ThreadPoolExecutor

import vlib
from vlib import Report, coq_prove, cargo_build, run_bin, coq_eval, gen_if_changed

sys.path.insert(0, os.path.join(vlib.VERIF, "translators"))
import rolling as rolling_tr  # noqa: E402

PER = {"m": 60, "h": 3600, "d": 86400}
ROTC = {"m": "Minutely", "h": "Hourly", "d": "Daily", "n": "Never"}
TMAX = 200000000000  # year 8307: keeps [year] four digits and next_date inside the time crate's range
DT_MAX = 253402300799  # 9999-12-31T23:59:59Z: the last instant of the time crate (no large-dates); next_date(t) panics when t + period > DT_MAX
EPOCH = datetime.datetime(1970, 1, 1)


# ------------------------------------------------------------------------------------------------
# specification helpers (independent of the Coq model: Python's calendar)

def date_str(rot, t):
    d = EPOCH + datetime.timedelta(seconds=t)
    s = "%04d-%02d-%02d" % (d.year, d.month, d.day)
    if rot in ("m", "h"):
        s += "-%02d" % d.hour
    if rot == "m":
        s += "-%02d" % d.minute
    return s


def pname(cfg, t):
    rot, p, s = cfg["rot"], cfg["prefix"], cfg["suffix"]
    if rot == "n":
        if p and s:
            return p + "." + s
        if p:
            return p
        if s:
            return s
    return ".".join(x for x in (p, date_str(rot, t), s) if x)


DATE_RE = {"m": r"\d{4}-\d\d-\d\d-\d\d-\d\d", "h": r"\d{4}-\d\d-\d\d-\d\d", "d": r"\d{4}-\d\d-\d\d", "n": r"\d{4}-\d\d-\d\d"}


def is_date_name(rot, name):
    if not re.fullmatch(DATE_RE[rot], name):
        return False
    f = [int(x) for x in name.split("-")]
    try:
        datetime.datetime(max(f[0], 1), f[1], f[2], f[3] if len(f) > 3 else 0, f[4] if len(f) > 4 else 0)
    except ValueError:
        return False
    return True


def py_matches(cfg, name):
    """the appender's log files: what carries its prefix and suffix (a date-shaped name when it has neither)"""
    p, s = cfg["prefix"], cfg["suffix"]
    if p and not name.startswith(p):
        return False
    if s and not name.endswith(s):
        return False
    if not p and not s:
        return is_date_name(cfg["rot"], name)
    return True


def rnd(rot, t):
    return t - t % PER[rot]


# ------------------------------------------------------------------------------------------------
# case generation

def ts(y, mo, d, h=0, mi=0, s=0):
    return calendar.timegm((y, mo, d, h, mi, s))


ANCHORS = [0, 86400, ts(1999, 12, 31, 23, 59, 30), ts(2000, 2, 28, 23, 59, 0), ts(2000, 2, 29, 23, 59, 59), ts(2000, 3, 1),
           ts(2021, 1, 31, 23, 59, 59), ts(2021, 4, 30, 23, 0, 0), ts(2023, 12, 31, 23, 59, 30), ts(2024, 2, 28, 23, 59, 59),
           ts(2024, 2, 29, 12, 0, 0), ts(2024, 12, 31, 23, 59, 59), ts(2038, 1, 19, 3, 14, 7), 4294967296, ts(2100, 2, 28, 23, 59, 59),
           ts(2100, 3, 1), ts(2400, 2, 29), ts(1972, 2, 29, 0, 0, 0), ts(1970, 1, 1, 0, 59, 59), ts(2026, 9, 26, 21, 0, 0),
           ts(4000, 2, 29, 23, 59, 59), ts(8000, 12, 31, 23, 59, 59)]
PREFIXES = [None, None, "app", "app", "app.log", "a-b", "x", "2024"]
SUFFIXES = [None, None, "log", "log", "txt.gz", "0"]
FOREIGN = ["readme.txt", "notes", "other.log", "app", "app.cfg", "zz.log", "appendix.log", "x.0", "log"]


def clamp(t):
    return max(0, min(TMAX, t))


def next_time(rng, rot, t, allow_back=True):
    P = PER.get(rot, 3600)
    b = (t // P + 1) * P
    r = rng.random()
    if r < 0.10:
        return t
    if r < 0.25:
        return t + rng.randint(1, 5)
    if r < 0.42:
        return b
    if r < 0.52:
        return max(t, b - 1)
    if r < 0.58:
        return b + 1
    if r < 0.64:
        return t + P
    if r < 0.76:
        return t + rng.randint(2, 50) * P + rng.randint(0, P - 1)
    if r < 0.81:
        return t + rng.randint(1, 40) * 86400 + rng.randint(0, 86399)
    if r < 0.91 and allow_back:
        return t - rng.choice([1, rng.randint(1, P), P, rng.randint(2, 9) * P, t % P + 1])
    return t + rng.randint(0, P - 1)


def mkbuf(k, rng):
    return ("[%02d%s]" % (k, "".join(rng.choice("abcdefghijklmnopqrstuvwxyz") for _ in range(rng.randint(0, 4))))).encode()


def gen_config(rng, iface):
    rot = rng.choice(["m", "m", "h", "h", "d", "d", "n"])
    cfg = {"rot": rot, "prefix": rng.choice(PREFIXES), "suffix": rng.choice(SUFFIXES),
           "max": rng.choice([None, None, 1, 1, 2, 2, 3, 4, 5]), "iface": iface}
    return cfg


def gen_pre(rng, cfg, t0):
    """pre-existing directory entries: other periods' log files (older and newer), foreign files"""
    pre = []
    names = set()
    P = PER.get(cfg["rot"], 86400)
    for _ in range(rng.choice([0, 0, 1, 2, 3, 4])):
        if rng.random() < 0.65:
            t = clamp(t0 + rng.choice([-1, -1, -1, 1, 1, 0]) * rng.randint(0, 6) * P)
            n = pname(cfg, t)
        else:
            n = rng.choice(FOREIGN)
            if not cfg["prefix"] and not cfg["suffix"] and re.match(r"\d", n):
                continue
        if n in names:
            continue
        names.add(n)
        pre.append([n, mkbuf(90 + len(pre), rng).hex()])
    return pre


def gen_pre_rich(rng, cfg, t0):
    """a directory as a restarted appender finds it: its own files of earlier (and a few later) periods - often more
    than the limit -, sometimes the file of the current period already there (must be appended to, not truncated),
    and foreign entries (some sharing only the prefix or only the suffix)"""
    pre = []
    names = set()
    P = PER.get(cfg["rot"], 86400)
    n_own = rng.choice([0, 1, 2, 3, 4, 5, 6, 7])
    offs = rng.sample(range(-9, 3), min(n_own, 12))
    if rng.random() < 0.4 and 0 not in offs:
        offs.append(0)
    for o in offs:
        n = pname(cfg, clamp(t0 + o * P))
        if n not in names:
            names.add(n)
            pre.append([n, mkbuf(90 + len(pre), rng).hex()])
    for _ in range(rng.choice([0, 1, 1, 2, 3])):
        n = rng.choice(FOREIGN + ([cfg["prefix"] + ".cfg", cfg["prefix"] + "-old"] if cfg["prefix"] else []) +
                       (["archive." + cfg["suffix"], "x-" + cfg["suffix"]] if cfg["suffix"] else []))
        if not cfg["prefix"] and not cfg["suffix"] and re.match(r"\d", n):
            continue
        if n not in names:
            names.add(n)
            pre.append([n, mkbuf(90 + len(pre), rng).hex()])
    rng.shuffle(pre)
    return pre


def gen_more_lives(rng, cfg, t_last, nlives):
    """further appender lifetimes over the same directory: restart in the same period, a later one (often many periods
    later), occasionally with the clock behind; the limit may change (lowered / raised / dropped)"""
    more = []
    P = PER.get(cfg["rot"], 3600)
    t = t_last
    for _ in range(nlives):
        r = rng.random()
        if r < 0.3:
            t0 = t + rng.randint(0, max(0, P - t % P - 1))
        elif r < 0.85:
            t0 = t + rng.randint(1, 30) * P + rng.randint(0, P - 1)
        else:
            t0 = t - rng.randint(1, 3 * P)
        t0 = clamp(t0)
        mx = rng.choice([cfg["max"], cfg["max"], 1, 2, 3, None])
        iface = rng.choice(["x", "x", "s"])
        tt = t0
        ops = []
        k = 50 + 10 * len(more)
        if iface == "x":
            for _k in range(rng.randint(1, 6)):
                tt = clamp(next_time(rng, cfg["rot"], tt))
                ops.append(["w", 0, tt, mkbuf(k, rng).hex()]); k += 1
            nth = 1
        else:
            nth = rng.randint(2, 3)
            parked = None
            for _k in range(rng.randint(1, 6)):
                tt = clamp(next_time(rng, cfg["rot"], tt, allow_back=rng.random() < 0.4))
                if parked is None and rng.random() < 0.25:
                    parked = rng.randrange(nth)
                    ops.append(["park", parked, tt, mkbuf(k, rng).hex()]); k += 1
                else:
                    th = rng.choice([i for i in range(nth) if i != parked])
                    ops.append(["w", th, tt, mkbuf(k, rng).hex()]); k += 1
            if parked is not None:
                ops.append(["rel", parked])
        more.append({"t0": t0, "max": mx, "iface": iface, "threads": nth, "ops": ops})
        t = max([t0] + [op[2] for op in ops if len(op) > 2])
    return more


def gen_case_restart(rng, cid):
    """first-class restart cases: a rich pre-existing directory and 2-3 lifetimes"""
    c = gen_case_x(rng, cid) if rng.random() < 0.6 else gen_case_s(rng, cid)
    c["ops"] = c["ops"][:rng.randint(1, 6)]
    parked = [op[1] for op in c["ops"] if op[0] in ("park", "park0")]
    released = [op[1] for op in c["ops"] if op[0] == "rel"]
    for th in parked:
        if parked.count(th) > released.count(th):
            c["ops"].append(["rel", th]); released.append(th)
    c["pre"] = gen_pre_rich(rng, c, c["t0"])
    t_last = max([c["t0"]] + [op[2] for op in c["ops"] if len(op) > 2 and isinstance(op[2], int)])
    c["more"] = gen_more_lives(rng, c, t_last, rng.randint(1, 2))
    c["restart"] = True
    return c


def gen_case_late(rng, cid):
    """the end of the time crate's range (outside the property's quantifier: only the correspondence looks at these):
    clocks around DT_MAX - period, where next_date starts to panic - in the constructor, in write, in make_writer"""
    cfg = gen_config(rng, rng.choice(["x", "x", "s"]))
    if cfg["rot"] == "n" and rng.random() < 0.7:
        cfg["rot"] = rng.choice(["m", "h", "d"])
    P = PER.get(cfg["rot"], 3600)
    edge = DT_MAX - P                                   # the last reading at which next_date is defined
    t0 = edge - rng.choice([0, 1, P, 2 * P + 5, -1, -5, 3 * P]) if rng.random() < 0.8 else DT_MAX - rng.randint(0, 100)
    t0 = min(DT_MAX, t0)
    ops = []
    t = t0
    if cfg["rot"] == "n" or t0 + P <= DT_MAX:
        for k in range(rng.randint(2, 6)):
            t = min(DT_MAX, rng.choice([t, t + 1, (t // P + 1) * P, (t // P + 1) * P - 1, t + P, edge, edge + 1, DT_MAX, t - 3]))
            t = max(0, t)
            ops.append(["w", k % 2 if cfg["iface"] == "s" else 0, t, mkbuf(k, rng).hex()])
    return dict(cfg, id=cid, t0=t0, pre=gen_pre(rng, cfg, min(t0, TMAX)) if t0 <= TMAX else [], ops=ops, threads=2 if cfg["iface"] == "s" else 1, late=True)


def lives_of(case):
    """[{t0,max,iface,threads,ops}] - the case's own lifetime, then case['more']"""
    first = {k: case[k] for k in ("t0", "max", "iface", "threads", "ops")}
    return [first] + list(case.get("more", []))


def obs_lives(o):
    return [o] + list(o.get("more", []))


def build_panics(case, life):
    return case["rot"] != "n" and life["t0"] + PER[case["rot"]] > DT_MAX


def gen_case_x(rng, cid):
    cfg = gen_config(rng, "x")
    P = PER.get(cfg["rot"], 3600)
    t0 = clamp(rng.choice(ANCHORS) + rng.randint(-2 * P, 2 * P)) if rng.random() < 0.85 else rng.randint(0, TMAX)
    t = t0
    ops = []
    for k in range(rng.randint(3, 12)):
        t = clamp(next_time(rng, cfg["rot"], t))
        ops.append(["w", 0, t, mkbuf(k, rng).hex()])
    return dict(cfg, id=cid, t0=t0, pre=gen_pre(rng, cfg, t0), ops=ops, threads=1)


def gen_case_s(rng, cid, template=None, yield0=False):
    cfg = gen_config(rng, "s")
    if cfg["rot"] == "n" and rng.random() < 0.7:
        cfg["rot"] = rng.choice(["m", "h", "d"])
    P = PER.get(cfg["rot"], 3600)
    nth = rng.randint(2, 4)
    t0 = clamp(rng.choice(ANCHORS) + rng.randint(-2 * P, 2 * P)) if rng.random() < 0.85 else rng.randint(0, TMAX - 10 ** 9)
    t = t0
    ops = []
    parked = set()
    k = 0
    if template == "overlap" and cfg["rot"] != "n":
        # winner of boundary b1 parked, a later boundary's winner rotates, then b1's refresh runs (finding F16's schedule)
        b1 = (t0 // P + 1) * P
        t1 = b1 + rng.randint(0, P - 1)
        t2 = b1 + rng.randint(1, 3) * P + rng.randint(0, P - 1)
        a, b = rng.sample(range(nth), 2)
        if rng.random() < 0.5:
            ops.append(["w", rng.randrange(nth), clamp(t0 + rng.randint(0, max(0, b1 - t0 - 1))), mkbuf(k, rng).hex()]); k += 1
        ops.append(["park", a, t1, mkbuf(k, rng).hex()]); k += 1
        ops.append(["w", b, t2, mkbuf(k, rng).hex()]); k += 1
        if rng.random() < 0.4:
            ops.append(["w", b, t2 + rng.randint(0, 3), mkbuf(k, rng).hex()]); k += 1
        ops.append(["rel", a])
        t = t2
        for _ in range(rng.randint(1, 4)):
            t = t + rng.randint(0, max(1, (P - t % P) - 1)) if rng.random() < 0.7 else next_time(rng, cfg["rot"], t, False)
            t = clamp(t)
            ops.append(["w", rng.randrange(nth), t, mkbuf(k, rng).hex()]); k += 1
    if template == "casrace" and cfg["rot"] != "n":
        # (hook H1b) thread a is preempted between should_rollover and advance_date at boundary b1; another thread
        # rotates (the same boundary, or a later one); a's compare_exchange then runs: it must fail
        b1 = (t0 // P + 1) * P
        t1 = b1 + rng.randint(0, P - 1)
        a, b = rng.sample(range(nth), 2)
        ops.append(["park0", a, t1, mkbuf(k, rng).hex()]); k += 1
        if rng.random() < 0.3:
            # nobody interferes: a's own compare_exchange wins on release
            ops.append(["rel", a])
            t = t1
        else:
            t2 = b1 + (rng.randint(0, P - 1) if rng.random() < 0.6 else rng.randint(1, 3) * P + rng.randint(0, P - 1))
            if rng.random() < 0.5:
                ops.append(["w", b, t2, mkbuf(k, rng).hex()]); k += 1
                ops.append(["rel", a])
            else:
                ops.append(["park", b, t2, mkbuf(k, rng).hex()]); k += 1
                ops.append(["rel", a])
                ops.append(["rel", b])
            t = max(t1, t2)
        for _ in range(rng.randint(1, 3)):
            t = clamp(t + rng.randint(0, max(1, (P - t % P) - 1)) if rng.random() < 0.7 else next_time(rng, cfg["rot"], t, False))
            ops.append(["w", rng.randrange(nth), t, mkbuf(k, rng).hex()]); k += 1
    for _ in range(rng.randint(2, 10)):
        free = [i for i in range(nth) if i not in parked]
        r = rng.random()
        if (r < 0.18 and parked) or not free:
            th = rng.choice(sorted(parked))
            parked.discard(th)
            ops.append(["rel", th])
            continue
        t = clamp(next_time(rng, cfg["rot"], t, allow_back=rng.random() < 0.5))
        th = rng.choice(free)
        if r < 0.45 and len(free) > 1:
            ops.append(["park0" if (yield0 and rng.random() < 0.4) else "park", th, t, mkbuf(k, rng).hex()])
            parked.add(th)
        else:
            ops.append(["w", th, t, mkbuf(k, rng).hex()])
        k += 1
    for th in sorted(parked):
        ops.append(["rel", th])
    if rng.random() < 0.5:
        t = clamp(next_time(rng, cfg["rot"], t, False))
        ops.append(["w", rng.randrange(nth), t, mkbuf(k, rng).hex()])
    return dict(cfg, id=cid, t0=t0, pre=gen_pre(rng, cfg, t0), ops=ops, threads=nth)


def gen_case_race(rng, cid):
    cfg = gen_config(rng, "s")
    if cfg["rot"] == "n" and rng.random() < 0.8:
        cfg["rot"] = rng.choice(["m", "h", "d"])
    P = PER.get(cfg["rot"], 3600)
    nth = rng.randint(2, 8)
    t0 = clamp(rng.choice(ANCHORS) + rng.randint(-2 * P, 2 * P))
    t = t0
    ops = []
    k = 0
    for _ in range(rng.randint(2, 7)):
        t = clamp(next_time(rng, cfg["rot"], t, allow_back=False))
        if rng.random() < 0.7:
            ths = rng.sample(range(nth), rng.randint(2, nth))
            bufs = []
            for _th in ths:
                bufs.append(mkbuf(k, rng).hex()); k += 1
            ops.append(["race", ths, t, bufs])
        else:
            ops.append(["w", rng.randrange(nth), t, mkbuf(k, rng).hex()]); k += 1
    return dict(cfg, id=cid, t0=t0, pre=gen_pre(rng, cfg, t0), ops=ops, threads=nth, race=True)


def gen_case_hold(rng, cid):
    """a thread keeps the RollingWriter it got from make_writer (a read guard on the file) while another thread wins the
    rotation of the next boundary and reaches the file lock; afterwards plain writes inside the new period(s).  Oracle only
    (like the race cases): the rotation must still happen - the later writes land in their period's file."""
    cfg = gen_config(rng, "s")
    if cfg["rot"] == "n":
        cfg["rot"] = rng.choice(["m", "h", "d"])
    P = PER[cfg["rot"]]
    nth = rng.randint(2, 4)
    t0 = clamp(rng.choice(ANCHORS) + rng.randint(-2 * P, 2 * P))
    t = t0
    ops = []
    k = 0
    for _ in range(rng.randint(1, 3)):
        h, r = rng.sample(range(nth), 2)
        t_hold = t
        t = clamp(rnd(cfg["rot"], t) + P * rng.choice([1, 1, 1, 2, 5]) + rng.choice([0, 0, 1, P // 2, P - 1]))
        ops.append(["hold", [h, r], t, [mkbuf(k, rng).hex(), mkbuf(k + 1, rng).hex()], t_hold]); k += 2
        for _ in range(rng.randint(1, 3)):
            t = min(t + rng.choice([0, 1, P // 3]), rnd(cfg["rot"], t) + P - 1)
            ops.append(["w", rng.randrange(nth), t, mkbuf(k, rng).hex()]); k += 1
    return dict(cfg, id=cid, t0=t0, pre=gen_pre(rng, cfg, t0), ops=ops, threads=nth, race=True)


def gen_case_clock(rng, cid):
    """the clock MOVES during a make_writer call of the shared interface: it reads t when the call starts and t2 from yield
    point 1 (after advance_date, before the file lock / refresh_writer) on - a wall clock stepped back across the boundary
    the call has just seen reached, a long wait for the lock that spans a later boundary, or a move inside the period.
    The period of the write is that of the reading the call started with; later calls stay at or after that reading."""
    cfg = gen_config(rng, "s")
    if cfg["rot"] == "n" and rng.random() < 0.8:
        cfg["rot"] = rng.choice(["m", "h", "d"])
    P = PER.get(cfg["rot"], 3600)
    nth = rng.randint(1, 3)
    t0 = clamp(rng.choice(ANCHORS) + rng.randint(-2 * P, 2 * P))
    t = t0
    ops = []
    k = 0
    if rng.random() < 0.5:
        t = clamp(t + rng.randint(0, max(0, P - t % P - 1)))
        ops.append(["w", rng.randrange(nth), t, mkbuf(k, rng).hex()]); k += 1
    for _ in range(rng.randint(1, 3)):
        b = rnd(cfg["rot"], t) + P * rng.choice([1, 1, 1, 2, 7]) if cfg["rot"] != "n" else t + rng.randint(1, 5000)
        t = clamp(b + rng.choice([0, 0, 0, 1, 5, P // 2, P - 1]))
        kind = rng.choice(["back", "back", "back1", "fwd", "fwd", "fwdfar", "inside"])
        if kind == "back":
            t2 = b - 1 - rng.choice([0, 0, 1, P // 2, P - 1])
        elif kind == "back1":
            t2 = b - P * rng.randint(1, 3) - rng.randint(1, P)
        elif kind == "fwd":
            t2 = b + P * rng.choice([1, 1, 2]) + rng.choice([0, 1, P // 3, P - 1])
        elif kind == "fwdfar":
            t2 = b + P * rng.randint(3, 60) + rng.randint(0, P - 1)
        else:
            t2 = b + rng.randint(0, P - 1)
        ops.append(["w2", rng.randrange(nth), t, mkbuf(k, rng).hex(), max(0, clamp(t2))]); k += 1
        for _ in range(rng.randint(1, 3)):
            t = min(clamp(t + rng.choice([0, 1, 5, P // 3])), b + P - 1) if cfg["rot"] != "n" else t + rng.randint(0, 50)
            ops.append(["w", rng.randrange(nth), t, mkbuf(k, rng).hex()]); k += 1
    return dict(cfg, id=cid, t0=t0, pre=gen_pre(rng, cfg, t0), ops=ops, threads=nth)


def gen_malformed(rng, cid):
    """outside the property's quantifier (limit 0, pre-1970 or out-of-range clocks): nothing is demanded,
    the harness must survive and report"""
    cfg = gen_config(rng, rng.choice(["x", "s"]))
    kind = rng.choice(["max0", "neg", "huge", "emptyfix"])
    t0 = rng.choice(ANCHORS)
    if kind == "max0":
        cfg["max"] = 0
    if kind == "emptyfix":
        cfg["prefix"], cfg["suffix"] = "", ""
    ops = []
    t = t0
    for k in range(rng.randint(2, 6)):
        t = next_time(rng, cfg["rot"], t)
        if kind == "neg" and rng.random() < 0.5:
            t = -rng.randint(1, 10 ** 6)
        if kind == "huge" and rng.random() < 0.3:
            t = 10 ** 13
        ops.append(["w", k % 2, t, mkbuf(k, rng).hex()])
    return dict(cfg, id=cid, t0=t0 if kind != "neg" else -5, pre=[], ops=ops, threads=2, malformed=kind)


# ------------------------------------------------------------------------------------------------
# model terms

def coq_string(s):
    return '"%s"%%string' % s.replace('"', '""')


def coq_cfg(case, recheck):
    return ("{| rot := %s; prefix := %s; suffix := %s; max_files := %s; recheck := %s |}" % (
        ROTC[case["rot"]],
        "Some " + coq_string(case["prefix"]) if case["prefix"] else "None",
        "Some " + coq_string(case["suffix"]) if case["suffix"] else "None",
        "Some %d%%nat" % case["max"] if case["max"] is not None else "None",
        "true" if recheck else "false"))


def coq_chunk(hx):
    return "[" + "; ".join("%d%%N" % b for b in bytes.fromhex(hx)) + "]"


def coq_life_ops(life, first=True):
    if life["iface"] == "x":
        return "LX [" + "; ".join("((%d)%%Z, %s)" % (op[2], coq_chunk(op[3])) for op in life["ops"]) + "]"
    hs = []
    for op in life["ops"]:
        if op[0] == "w":
            hs.append("HW %d%%nat (%d)%%Z %s" % (op[1], op[2], coq_chunk(op[3])))
        elif op[0] == "park":
            hs.append("HPark %d%%nat (%d)%%Z %s" % (op[1], op[2], coq_chunk(op[3])))
        elif op[0] == "park0":
            hs.append("HPark0 %d%%nat (%d)%%Z %s" % (op[1], op[2], coq_chunk(op[3])))
        elif op[0] == "w2":
            # the clock reads op[2] when make_writer starts and op[4] from yield point 1 on; `first` (read off the source):
            # refresh_writer is given the first reading
            hs.append("HW2 %s %d%%nat (%d)%%Z (%d)%%Z %s" % ("true" if first else "false", op[1], op[2], op[4], coq_chunk(op[3])))
        else:
            hs.append("HRel %d%%nat" % op[1])
    return "LS [" + "; ".join(hs) + "]"


def coq_case(case, recheck, first=True):
    """the model's run of all lifetimes of the case: [(observation after construction, [observation per op])]"""
    pre = "[" + "; ".join("{| fname := %s; created := %d%%N; base := %s; landed := [] |}" % (coq_string(n), i, coq_chunk(h))
                          for i, (n, h) in enumerate(case["pre"])) + "]"
    ls = []
    for life in lives_of(case):
        lf = dict(life)
        if build_panics(case, life):
            lf["ops"] = []              # no appender: the harness skips the ops too
        ls.append("(%s, (%d)%%Z, %s)" % (coq_cfg(dict(case, max=life["max"]), recheck), life["t0"], coq_life_ops(lf, first)))
    return "trace_lives (blank %s %d%%N) [%s]" % (pre, len(case["pre"]), "; ".join(ls))


# ------------------------------------------------------------------------------------------------
# observations

def norm_listing(lst):
    """impl listing [[name, hex|None, created_ns_str]] -> ({name: bytes}, {name: created})"""
    files, created = {}, {}
    for n, h, c in lst:
        files[n] = bytes.fromhex(h) if h is not None else None
        created[n] = int(c)
    return files, created


def model_listing(lst):
    files, created = {}, {}
    for n, content, c in lst:
        files[n] = bytes(content)
        created[n] = c
    return files, created


def order_by_created(created, rep=None):
    vals = sorted(created.values())
    tie = any(a == b for a, b in zip(vals, vals[1:]))
    return [n for n, _ in sorted(created.items(), key=lambda kv: (kv[1], kv[0]))], tie


# ------------------------------------------------------------------------------------------------
# oracle

class Oracle:
    def __init__(self, rep, case, obs):
        self.rep, self.case, self.obs = rep, case, obs
        self.bad = []

    def fail(self, what, step, finding=None, **extra):
        c = {"case": {k: v for k, v in self.case.items()}, "step": step, "observed": self.obs["steps"][step] if step is not None and step < len(self.obs["steps"]) else None}
        c.update(extra)
        self.rep.violation(what, c, finding=finding)
        self.bad.append(what)

    def run(self):
        case, obs, rep = self.case, self.obs, self.rep
        rot, mx = case["rot"], case["max"]
        shared = case["iface"] == "s"
        files, created = norm_listing(obs["init"])
        name0 = pname(case, case["t0"])
        if name0 not in files:
            self.fail("the appender did not create the file of its first period %r" % name0, None)
            return
        exp_next = None if rot == "n" else rnd(rot, case["t0"]) + PER[rot]
        maxt = case["t0"]               # largest clock reading presented so far
        land_prev = name0               # file of the previous completed write (exclusive interface)
        rotated = False                 # a rotation has completed (refresh_writer ran)
        pending = {}                    # th -> dict(op index, t, buf, dirty, nondecr, period)
        late = None                     # the last completed refresh belonged to an older period than one swapped in before it
        for k, (op, st) in enumerate(zip(case["ops"], obs["steps"])):
            nfiles, ncreated = norm_listing(st["dir"])
            if any(r for r in st.get("res", []) or [] if r) or (not shared and st.get("res")):
                self.fail("write returned an error: %s" % st.get("res"), k)
                return
            kind = op[0]
            completes = []              # (t, buf, th, clean, nondecr, started_step)
            refresh_ran = False
            if kind in ("w", "park", "park0", "w2"):
                th, t, buf = op[1] % max(1, case["threads"]), op[2], bytes.fromhex(op[3])
                crossing = exp_next is not None and t >= exp_next
                nondecr = t >= maxt
                maxt = max(maxt, t)
                # threads between a won compare_exchange and their refresh_writer (parked at yield point 1)
                others_pending = [p for q, p in pending.items() if q != th and p["stage"] == 1]
                clean = not others_pending
                if kind == "park0" and st.get("parked"):
                    # at yield point 0: should_rollover said Some(next_date); nothing has been elected yet
                    if not crossing:
                        self.fail("should_rollover reported a rollover although clock %d is before the boundary %s" % (t, exp_next), k)
                    if st["rot"] != 0:
                        self.fail("%d rotation(s) elected before the thread's compare_exchange" % st["rot"], k)
                    pending[th] = {"k": k, "t": t, "buf": buf, "dirty": not clean, "nondecr": nondecr, "stage": 0, "n0": exp_next}
                else:
                    if shared:
                        if st["rot"] != (1 if crossing else 0):
                            self.fail("clock %d %s the boundary %s but %d rotation(s) were elected" % (
                                t, "reaches" if crossing else "is before", exp_next, st["rot"]), k)
                        if crossing:
                            for q, p in pending.items():
                                if q != th:
                                    p["dirty"] = True
                                    if p["stage"] == 1 and rnd(rot, t) > rnd(rot, p["t"]):
                                        p["overtaken"] = t
                    if crossing:
                        exp_next = rnd(rot, t) + PER[rot]
                    if kind == "park" and st.get("parked"):
                        if not crossing:
                            self.fail("a thread reached the rotation path without crossing a boundary", k)
                        pending[th] = {"k": k, "t": t, "buf": buf, "dirty": not clean, "nondecr": nondecr, "stage": 1}
                    else:
                        if kind in ("park", "park0") and crossing and shared:
                            self.fail("a boundary-crossing make_writer did not pass through the rotation path", k)
                        completes.append((t, buf, th, clean, nondecr, k))
                        refresh_ran = crossing
                        if crossing:
                            late = None
            elif kind == "rel":
                th = op[1] % max(1, case["threads"])
                if th in pending:
                    p = pending.pop(th)
                    others1 = [x for x in pending.values() if x["stage"] == 1]
                    if p["stage"] == 1:
                        completes.append((p["t"], p["buf"], th, not p["dirty"] and not pending, p["nondecr"], p["k"]))
                        # a rotation overtaken by a later period's election is abandoned: there is nothing of its own to
                        # swap in any more (next_date has moved on), so nothing may be created, removed or swapped now
                        refresh_ran = exp_next == rnd(rot, p["t"]) + PER[rot]
                        late = {"t_old": p["t"], "t_new": p["overtaken"]} if p.get("overtaken") is not None else None
                        if shared and st["rot"] != 0:
                            self.fail("releasing a parked rotation elected another rotation", k)
                    else:
                        # the compare_exchange on the boundary value loaded before the preemption: it succeeds exactly
                        # when no rotation has been elected since
                        wins = exp_next == p["n0"]
                        if st["rot"] != (1 if wins else 0):
                            self.fail("boundary %s was loaded before a preemption; %s; the resumed compare_exchange elected %d rotation(s), expected %d" % (
                                p["n0"], "nothing rotated meanwhile" if wins else "another thread rotated meanwhile (next_date is %s now)" % exp_next,
                                st["rot"], 1 if wins else 0), k)
                        if wins:
                            for x in pending.values():
                                x["dirty"] = True
                                if x["stage"] == 1 and rnd(rot, p["t"]) > rnd(rot, x["t"]):
                                    x["overtaken"] = p["t"]
                            exp_next = rnd(rot, p["t"]) + PER[rot]
                            refresh_ran = True
                            late = None
                            completes.append((p["t"], p["buf"], th, not p["dirty"] and not others1, p["nondecr"], p["k"]))
                        else:
                            completes.append((p["t"], p["buf"], th, False, p["nondecr"], p["k"]))
            # ---- contents: exactly once, whole, at the end of exactly one file
            land = None
            expect_changed = {}
            for (t, buf, th, clean, nondecr, k0) in completes:
                where = [n for n, c in nfiles.items() if c is not None and buf in c]
                total = sum(c.count(buf) for c in nfiles.values() if c is not None)
                if total != 1:
                    self.fail("buffer %r written at clock %d is stored %d times (files %s)" % (buf, t, total, where), k)
                    continue
                land = where[0]
                old = files.get(land)
                recreated = land in files and created.get(land) != ncreated.get(land)
                if not nfiles[land].endswith(buf) or not (nfiles[land][:-len(buf)] == (b"" if (old is None or recreated) else old)):
                    self.fail("buffer %r is not appended whole at the end of %r" % (buf, land), k)
                expect_changed[land] = True
                # ---- the period's file
                want = name0 if rot == "n" else pname(case, t)   # never: the single file made at construction
                if clean and nondecr and land != want:
                    fid = None
                    if shared and late is not None and land == pname(case, late["t_old"]):
                        # F16: the refresh of an older period ran after a newer period's file had been swapped in
                        fid = "F16"
                    self.fail("write at clock %d landed in %r, its period's file is %r" % (t, land, want), k, finding=fid)
                if not shared:
                    crossing_x = refresh_ran
                    if not crossing_x and land != land_prev:
                        self.fail("clock %d does not reach the next boundary but the write moved from %r to %r" % (t, land_prev, land), k)
                    if crossing_x and land != want:
                        self.fail("clock %d crosses the boundary but the write landed in %r, not %r" % (t, land, want), k)
                    land_prev = land
            for n, c in nfiles.items():
                if n in expect_changed:
                    continue
                if n not in files:
                    self.fail("file %r appeared although no write landed in it" % n, k)
                elif files[n] != c:
                    self.fail("file %r changed although no write landed in it" % n, k)
            removed = [n for n in files if n not in nfiles]
            new_names = [n for n in nfiles if n not in files]
            if not refresh_ran and (removed or new_names):
                self.fail("no rotation is due at this operation but files were created/removed: +%s -%s" % (new_names, removed), k)
            if removed and mx is None:
                self.fail("files removed without a file limit: %s" % removed, k)
            if refresh_ran:
                rotated = True
            # ---- pruning
            if mx is not None and mx >= 1 and rotated:
                mine = [n for n in nfiles if nfiles[n] is not None and py_matches(case, n)]
                if len(mine) > mx:
                    self.fail("%d log files after a rotation with max_log_files=%d: %s" % (len(mine), mx, sorted(mine)), k)
            if removed:
                for n in removed:
                    if not py_matches(case, n):
                        self.fail("pruning removed %r, which is not one of the appender's log files" % n, k)
                surv = [n for n in nfiles if n in files and py_matches(case, n) and created.get(n) == ncreated.get(n)]
                stamps = [created[n] for n in removed + surv]
                if len(set(stamps)) != len(stamps):
                    rep.count("fs-created-tie-skipped")
                else:
                    for r_ in removed:
                        for s_ in surv:
                            if created[r_] > created[s_]:
                                self.fail("pruning removed %r (created later) and kept the older %r" % (r_, s_), k)
            files, created = nfiles, ncreated


def oracle_race(rep, case, obs):
    """cases with barrier-released threads: schedule unknown, so only what holds for every schedule"""
    o = Oracle(rep, case, obs)
    rot, mx = case["rot"], case["max"]
    files, created = norm_listing(obs["init"])
    exp_next = None if rot == "n" else rnd(rot, case["t0"]) + PER[rot]
    cur = pname(case, case["t0"])
    rotated = False
    for k, (op, st) in enumerate(zip(case["ops"], obs["steps"])):
        nfiles, ncreated = norm_listing(st["dir"])
        if any(r for r in st.get("res", []) if r):
            o.fail("write returned an error: %s" % st.get("res"), k)
            return o
        t = op[2]
        bufs = [bytes.fromhex(op[3])] if op[0] == "w" else [bytes.fromhex(h) for h in op[3]]
        crossing = exp_next is not None and t >= exp_next
        if st["rot"] != (1 if crossing else 0):
            o.fail("%d thread(s) at clock %d (%s boundary %s): %d rotations elected, exactly %d expected" % (
                len(bufs), t, "reaching" if crossing else "before", exp_next, st["rot"], 1 if crossing else 0), k)
        want = cur if rot == "n" else pname(case, t)
        allowed = {want, cur} if crossing else {cur}
        if crossing:
            exp_next = rnd(rot, t) + PER[rot]
            rotated = True
        grown = {}
        for buf in bufs:
            total = sum(c.count(buf) for c in nfiles.values() if c is not None)
            where = [n for n, c in nfiles.items() if c is not None and buf in c]
            if total != 1:
                pruned_old = crossing and mx is not None and cur not in nfiles
                if total == 0 and pruned_old:
                    rep.count("race:landed-in-replaced-file-then-pruned")
                    continue
                o.fail("buffer %r written at clock %d is stored %d times (files %s)" % (buf, t, total, where), k)
                continue
            if where[0] not in allowed:
                o.fail("write at clock %d landed in %r; allowed: its period's file %r or the file being replaced %r" % (t, where[0], want, cur), k)
            grown.setdefault(where[0], []).append(buf)
        for n, c in nfiles.items():
            old = files.get(n)
            recreated = n in files and created.get(n) != ncreated.get(n)
            base = b"" if (old is None or recreated) else old
            if n in grown:
                tail = c[len(base):] if c.startswith(base) else None
                if tail is None or sorted(tail[i:j] for i, j in _split(tail, grown[n])) != sorted(grown[n]):
                    o.fail("file %r is not its previous content followed by the whole buffers that landed in it" % n, k)
            elif old is None:
                if not (crossing and n == want and c == b""):
                    o.fail("file %r appeared although no write landed in it" % n, k)
            elif old != c:
                o.fail("file %r changed although no write landed in it" % n, k)
        removed = [n for n in files if n not in nfiles]
        if removed and (mx is None or not crossing):
            o.fail("files removed without a due rotation / file limit: %s" % removed, k)
        if mx is not None and mx >= 1 and rotated:
            mine = [n for n in nfiles if py_matches(case, n)]
            if len(mine) > mx:
                o.fail("%d log files after a rotation with max_log_files=%d: %s" % (len(mine), mx, sorted(mine)), k)
        if crossing and st["rot"] >= 1 and want not in nfiles:
            # every call of this operation has returned, so the elected rotation is complete (all threads read the same clock:
            # nothing can have superseded it): its period's file must be there - whoever held a writer meanwhile
            o.fail("the rotation elected at clock %d is over but its period's file %r was never opened (the boundary caused no rotation)" % (t, want), k)
        if crossing:
            cur = want
        files, created = nfiles, ncreated
    return o


def _split(tail, bufs):
    """positions of the buffers inside `tail` when it is a concatenation of them in some order"""
    out = []
    i = 0
    rest = list(bufs)
    while i < len(tail):
        for b in rest:
            if tail.startswith(b, i):
                out.append((i, i + len(b)))
                i += len(b)
                rest.remove(b)
                break
        else:
            return [(0, len(tail))]
    return out



# ------------------------------------------------------------------------------------------------
# volume path: every period boundary of long stretches of clock readings, implementation (h_rolling sweep)
# against the model extracted to OCaml (ocaml/c16), plus the Python oracle on the implementation's output

OCAML_DIR = os.path.join(vlib.VERIF, "ocaml", "c16")
SWEEP_CHUNK = 500       # boundaries per appender (keeps the model's ghost lists short)


def build_ocaml_model(ctx):
    """coqc extract.v (against the current RollingModel.vo) + ocamlopt, cached by content hash.  -> (path|None, log)"""
    rc, out = vlib.coq_make(["theories/Appender/RollingModel.vo"])
    if rc != 0:
        return None, "coq make RollingModel.vo: " + vlib.last_error(out)
    h = hashlib.sha1()
    for p in [os.path.join(vlib.COQ, "theories", "Appender", "RollingModel.v"), os.path.join(vlib.COQ, "theories", "Time", "Civil.v"),
              os.path.join(OCAML_DIR, "extract.v"), os.path.join(OCAML_DIR, "main.ml")]:
        h.update(open(p, "rb").read())
    key = h.hexdigest()[:16]
    d = os.path.join(vlib.CACHE, "ocaml-c16-" + ctx.repo_key, key)
    exe = os.path.join(d, "c16_model")
    if os.path.exists(exe):
        return exe, "cached"
    with vlib.flock("ocaml-c16-" + ctx.repo_key):
        if os.path.exists(exe):
            return exe, "cached"
        tmp = d + ".tmp%d" % os.getpid()
        shutil.rmtree(tmp, ignore_errors=True)
        os.makedirs(tmp)
        for f in ("extract.v", "main.ml"):
            shutil.copyfile(os.path.join(OCAML_DIR, f), os.path.join(tmp, f))
        rc, out = vlib.sh(["coqc", "-noglob"] + vlib.COQ_FLAGS + ["extract.v"], 300, cwd=tmp)
        if rc != 0:
            return None, "extraction: " + vlib.last_error(out)
        rc, out = vlib.sh(["ocamlfind", "ocamlopt", "-O3", "-unsafe", "-inline", "200", "rolling_model.mli", "rolling_model.ml", "main.ml",
                           "-o", "c16_model"], 300, cwd=tmp)
        if rc != 0:
            return None, "ocamlopt: " + vlib.last_error(out)
        shutil.rmtree(d, ignore_errors=True)
        os.makedirs(os.path.dirname(d), exist_ok=True)
        os.replace(tmp, d)
        olds = sorted(glob.glob(os.path.join(os.path.dirname(d), "*")), key=os.path.getmtime)
        for o in olds[:-3]:
            shutil.rmtree(o, ignore_errors=True)
    return exe, "built"


def desc_line(d):
    return "B %s %s %s %s %d %d %d %d" % (d["rot"], "-" if d["max"] is None else d["max"], d["prefix"] or "-", d["suffix"] or "-",
                                          d["t0"], d["first"], d["step"], d["count"])


def sweep_stretch(rng, rot, start, nb, out, step_periods=1, mx=1, fixed=None):
    """descriptors covering the `nb` boundaries after `start` (every `step_periods`-th), in chunks"""
    P = PER[rot]
    b = (max(0, start) // P + 1) * P          # clocks >= 0 only: pre-1970 readings are outside the property
    left = nb
    while left > 0:
        n = min(left, SWEEP_CHUNK if mx == 1 else 30)
        pf, sf = fixed if fixed is not None else (rng.choice([None, "app", "a-b", "2024"]), rng.choice([None, "log", "txt.gz"]))
        t0 = b - 1 - rng.choice([0, 0, 1, rng.randint(0, P - 1)])
        if t0 < 0 or b - 1 < t0:
            t0 = b - 1
        out.append({"rot": rot, "max": mx, "prefix": pf, "suffix": sf, "t0": t0, "first": b, "step": P * step_periods, "count": n})
        b += n * P * step_periods
        left -= n


def gen_sweep(ctx):
    """quick: every day boundary of 1970..2370, every hour of ~1.5 years of windows, every minute of ~14 days;
    thorough: every day of 400 years, every hour of 1970..2070 and of windows up to year 8000, every minute of ~400 days."""
    rng = ctx.rng
    th = ctx.thorough()
    ds = []
    day = 86400
    # daily: every boundary of 400 years
    sweep_stretch(rng, "d", 0, 146100, ds)
    # around the late anchors too (years 4000, 8000)
    for a in (ts(4000, 1, 1), ts(7999, 1, 1)):
        sweep_stretch(rng, "d", a, 800 if not th else 3000, ds)
    # hourly
    if th:
        sweep_stretch(rng, "h", 0, 24 * 36525, ds)                      # 1970 .. 2070, every hour
    wins = [ts(1999, 12, 25), ts(2000, 2, 20), ts(2023, 12, 25), ts(2024, 2, 22), ts(2038, 1, 10), ts(2100, 2, 20), ts(2400, 2, 25), ts(4000, 2, 25)]
    for a in wins:
        sweep_stretch(rng, "h", a, 24 * (20 if not th else 120), ds)
    for _ in range(6 if not th else 40):
        sweep_stretch(rng, "h", rng.randint(0, TMAX - 400 * day), 24 * 30, ds)
    # minutely
    mdays = [ts(1999, 12, 31), ts(2000, 2, 28), ts(2000, 2, 29), ts(2024, 2, 29), ts(2024, 12, 31), ts(2100, 2, 28), ts(2038, 1, 19), 0]
    for a in mdays:
        sweep_stretch(rng, "m", a - 3600, 1440 + 120, ds)
    for _ in range(4 if not th else 390):
        sweep_stretch(rng, "m", rng.randint(0, TMAX - 2 * day), 1440, ds)
    # multi-period jumps (every k-th boundary) and no-limit chunks (files accumulate)
    for _ in range(30 if not th else 200):
        rot = rng.choice(["m", "h", "d"])
        sweep_stretch(rng, rot, rng.randint(0, TMAX - 60000 * PER[rot]), rng.randint(50, 400), ds, step_periods=rng.randint(2, 50))
    for _ in range(30 if not th else 200):
        rot = rng.choice(["m", "h", "d"])
        sweep_stretch(rng, rot, clamp(rng.choice(ANCHORS) - rng.randint(0, 20) * PER[rot]), 30, ds, step_periods=rng.choice([1, 1, 1, 2, 7]), mx=None)
    # never: one file whatever the clock does
    for _ in range(3):
        ds.append({"rot": "n", "max": rng.choice([None, 1]), "prefix": rng.choice(["only", "x"]), "suffix": rng.choice([None, "log"]),
                   "t0": rng.choice(ANCHORS), "first": rng.randint(1, 10 ** 9), "step": rng.randint(1, 10 ** 7), "count": 50})
    return ds


def sweep_oracle(rep, ds, path, prof, limit=5):
    """the property, on the implementation's own output: after a write at clock t (clocks are non-decreasing inside a
    descriptor) the buffer is in the file named for t's period (one more byte there), nothing else changed, and with
    max_log_files = 1 that file is the only one.  Returns (#writes checked, #violations)."""
    nviol = 0
    nw = 0
    it = iter(ds)
    d = None
    files = {}
    first = False
    cur = None
    with open(path, "r", errors="replace") as f:
        for line in f:
            if line.startswith("#"):
                d = next(it, None)
                if d is None or line[2:].strip() != desc_line(d):
                    rep.tie("sweep-output-shape:" + prof, False, "descriptor line out of step: %r" % line[:120])
                    return nw, nviol
                files = {}
                first = True
                cur = None
                continue
            if line.startswith("!"):
                nviol += 1
                if nviol <= limit:
                    rep.violation("volume run: the appender failed: %s" % line.strip()[:200], {"descriptor": d, "sweep": desc_line(d)})
                continue
            sp = line.find(" ")
            t = int(line[:sp])
            got = line[sp + 1:-1]
            name = pname(d, t) if d["rot"] != "n" else pname(d, d["t0"])
            if first:
                files = {name: 0}
                first = False
            else:
                nw += 1
                if d["max"] == 1 and name != cur:
                    files = {}
                files[name] = files.get(name, 0) + 1
            cur = name
            want = ",".join("%s:%d" % kv for kv in sorted(files.items()))
            if got != want:
                nviol += 1
                if nviol <= limit:
                    rep.violation("volume run: after the write at clock %d the directory is %r; the property demands %r (the byte in the file of the write's period%s)" % (
                        t, got[:200], want[:200], ", which is the only log file left" if d["max"] == 1 else ""),
                        {"descriptor": d, "sweep": desc_line(d), "clock": t, "observed": got[:400], "expected": want[:400]})
                # resynchronise on what the implementation has, so that one defect is one report per descriptor
                try:
                    files = {kv.rsplit(":", 1)[0]: int(kv.rsplit(":", 1)[1]) for kv in got.split(",") if kv}
                except ValueError:
                    pass
    return nw, nviol


def run_sweep(ctx, rep, bins):
    model_exe, mlog = build_ocaml_model(ctx)
    ctx.log("extracted model: %s" % mlog)
    if model_exe is None:
        rep.tie("build:extracted-model", False, mlog)
        return
    ds = gen_sweep(ctx)
    nb = sum(d["count"] for d in ds)
    for d in ds:
        rep.count("sweep:boundaries:" + d["rot"], d["count"])
        rep.count("sweep:descriptors:max=%s" % d["max"])
    nsh = max(2, min(vlib.NCPU, 12))
    # balance by boundary count
    order = sorted(range(len(ds)), key=lambda i: -ds[i]["count"])
    shards = [[] for _ in range(nsh)]
    load = [0] * nsh
    for i in order:
        k = load.index(min(load))
        shards[k].append(i)
        load[k] += ds[i]["count"]
    shards = [sorted(sh) for sh in shards if sh]
    work = os.path.join(ctx.work, "sweep_%d" % os.getpid())      # per run: concurrent ./check C16 on one tree must not share (or rmtree) it
    shutil.rmtree(work, ignore_errors=True)
    os.makedirs(work)

    def model_one(k):
        inp = "\n".join(desc_line(ds[i]) for i in shards[k]) + "\n"
        return vlib.sh([model_exe, os.path.join(work, "model%d.txt" % k)], 1500, input=inp)

    with ThreadPoolExecutor(max_workers=len(shards)) as ex:
        mres = list(ex.map(model_one, range(len(shards))))
    bad = [vlib.last_error(o) for rc, o in mres if rc != 0]
    if bad:
        rep.tie("run:extracted-model", False, bad[0])
        return
    for bi, (prof, binpath) in enumerate(bins):
        # quick: the shards are dealt out between the builds (each boundary goes through exactly one of them; the
        # descriptors were spread over the shards by size, so every build sees every kind); thorough: every build runs all
        mine = [k for k in range(len(shards)) if ctx.thorough() or k % len(bins) == bi]
        def impl_one(k):
            inp = "\n".join(desc_line(ds[i]) for i in shards[k]) + "\n"
            return run_bin(binpath, ["sweep", os.path.join(work, "dirs%d" % k), os.path.join(work, "impl-%s%d.txt" % (prof, k))], input=inp, timeout=1500)
        for k in range(len(shards)):
            os.makedirs(os.path.join(work, "dirs%d" % k), exist_ok=True)
        with ThreadPoolExecutor(max_workers=len(shards)) as ex:
            ires = list(ex.map(impl_one, mine))
        bad = [vlib.last_error(o) for rc, o in ires if rc != 0]
        if bad:
            rep.tie("run:h_rolling-sweep:" + prof, False, bad[0])
            continue
        first = None
        ndiff = 0
        nwrites = 0
        nviol = 0
        nbp = sum(ds[i]["count"] for k in mine for i in shards[k])
        for k in mine:
            ip, mp = os.path.join(work, "impl-%s%d.txt" % (prof, k)), os.path.join(work, "model%d.txt" % k)
            same = open(ip, "rb").read() == open(mp, "rb").read()
            if not same:
                dcur = None
                with open(ip, errors="replace") as fi, open(mp, errors="replace") as fm:
                    for li, lm in zip(fi, fm):
                        if li.startswith("#"):
                            dcur = li[2:].strip()
                        if li != lm:
                            ndiff += 1
                            if first is None:
                                first = {"sweep": dcur, "impl": li.strip()[:300], "model": lm.strip()[:300]}
            w, v = sweep_oracle(rep, [ds[i] for i in shards[k]], ip, prof, limit=max(0, 3 - nviol))
            nwrites += w
            nviol += v
        rep.evaluations += nwrites
        rep.traces_validated += sum(len(shards[k]) for k in mine)
        rep.count("sweep:writes:" + prof, nwrites)
        rep.tie("correspondence:extracted-model-vs-impl:" + prof, first is None,
                "%d lines differ over %d boundaries (%d descriptors)" % (ndiff, nbp, sum(len(shards[k]) for k in mine)), first)
        ctx.log("%s: volume run over %d boundaries (%d writes): %d differing lines, %d oracle violations" % (prof, nbp, nwrites, ndiff, nviol))
    # the extraction itself against the kernel's evaluation of the same model, on a few short descriptors
    sub = [d for d in ds if d["count"] <= 60][:3] + [dict(ds[0], count=12), dict(ds[-1], count=8)]
    try:
        terms = []
        for j, d in enumerate(sub):
            ws = []
            for i in range(d["count"]):
                b = d["first"] + i * d["step"]
                ws += ["((%d)%%Z, [120%%N])" % (b - 1), "((%d)%%Z, [121%%N])" % b]
            terms.append(("v%d" % j, "let c := %s in let s0 := init c [] 0%%N (%d)%%Z in map (map (fun x => (fst (fst x), N.of_nat (List.length (snd (fst x)))))) (observe s0 :: map (fun o => fst (fst (fst o))) (obs_trace_x c s0 [%s]))"
                          % (coq_cfg(d, True), d["t0"], "; ".join(ws))))
        res = coq_eval(ctx, "From Coq Require Import ZArith NArith List String.\nFrom TV Require Import Appender.RollingModel.\nImport ListNotations.\n", terms, tag="sweepsub_%d" % os.getpid())
        shutil.rmtree(os.path.join(ctx.work, "sweepsub_%d" % os.getpid()), ignore_errors=True)
        inp = "\n".join(desc_line(d) for d in sub) + "\n"
        outp = os.path.join(work, "model-sub.txt")
        rc, o = vlib.sh([model_exe, outp], 300, input=inp)
        blocks = []
        for line in open(outp):
            if line.startswith("#"):
                blocks.append([])
            else:
                blocks[-1].append(line.split(" ", 1)[1].strip())
        badx = None
        for j, d in enumerate(sub):
            kern = [",".join("%s:%d" % (n, sz) for n, sz in sorted(l)) for l in res["v%d" % j]]
            if kern != blocks[j] and badx is None:
                badx = {"sweep": desc_line(d), "kernel": kern[:4], "extracted": blocks[j][:4]}
        rep.tie("extraction-faithful", rc == 0 and badx is None, "vm_compute vs extracted OCaml on %d descriptors" % len(sub), badx)
    except Exception as ex:
        rep.tie("extraction-faithful", False, str(ex)[:300])
    shutil.rmtree(work, ignore_errors=True)

# ------------------------------------------------------------------------------------------------

def run_cases(ctx, binpath, cases, gap_ms, tag, nproc=None):
    """run the harness over `cases` in parallel processes; returns {id: observation}"""
    nproc = nproc or max(2, min(8, vlib.NCPU // 2))
    work = os.path.join(ctx.work, "dirs_%s_%d" % (tag, os.getpid()))
    shutil.rmtree(work, ignore_errors=True)
    os.makedirs(work)
    chunks = [cases[i::nproc] for i in range(nproc)]

    def one(ch):
        if not ch:
            return 0, ""
        inp = "\n".join(json.dumps(c) for c in ch) + "\n"
        return run_bin(binpath, ["run", work, "%g" % gap_ms], input=inp, timeout=1500)

    with ThreadPoolExecutor(max_workers=nproc) as ex:
        outs = list(ex.map(one, chunks))
    res = {}
    err = None
    for rc, out in outs:
        if rc != 0:
            err = "rc=%d %s" % (rc, vlib.last_error(out))
        for l in out.splitlines():
            if l.startswith("{"):
                try:
                    o = json.loads(l)
                except ValueError:
                    continue
                if "id" in o:
                    res[o["id"]] = o
    shutil.rmtree(work, ignore_errors=True)
    return res, err


def probe_fs(ctx, binpath):
    steps = []
    info = None
    for _ in range(3):
        rc, out = run_bin(binpath, ["probe", ctx.work, "3000"], timeout=120)
        for l in out.splitlines():
            if l.startswith("{"):
                info = json.loads(l)
                if info.get("probe") == "ok" and info["min_step_ns"] > 0:
                    steps.append(info["min_step_ns"])
    return (max(steps) if steps else None), info


def load_corpus(ctx, yield0=False):
    d = os.path.join(vlib.VERIF, "corpus", "C16")
    out = []
    if os.path.isdir(d):
        for f in sorted(os.listdir(d)):
            if "yield0" in f and not yield0:
                continue            # needs hook H1b (yield point 0) in the tree under test
            if f.endswith(".json"):
                c = json.load(open(os.path.join(d, f)))
                for x in (c if isinstance(c, list) else [c]):
                    x = dict(x)
                    x["id"] = "corpus:%s:%s" % (f[:-5], x.get("id", len(out)))
                    out.append(x)
    return out


def step_panics(st):
    r = st.get("res")
    rs = r if isinstance(r, list) else [r]
    return sum(1 for x in rs if isinstance(x, str) and x.startswith("panic"))


def compare(case, obs, model):
    """model = [(built, [op observation])] per lifetime, observation = (listing, rotations elected, parked, panics).
    Returns a disagreement dict or None."""
    lives = lives_of(case)
    olives = obs_lives(obs)
    if len(model) != len(lives) or len(olives) != len(lives):
        return {"case": case["id"], "at": "lifetimes", "impl": len(olives), "model": len(model)}
    for li, (life, ob, entry) in enumerate(zip(lives, olives, model)):
        mi, _r, _p, mpan, msteps = entry          # Coq prints ((a, b, c, d), e) as the flat tuple (a, b, c, d, e)
        fi, ci = norm_listing(ob["init"])
        fm, cm = model_listing(mi)
        if bool(ob.get("build_panic")) != bool(mpan):
            return {"case": case, "life": li, "at": "construction", "what": "Builder::build panics inside next_date",
                    "impl": ob.get("build_panic"), "model": mpan}
        if fi != fm:
            return {"case": case, "life": li, "at": "construction", "what": "directory after Builder::build",
                    "impl": {n: (c.decode("latin1") if c is not None else None) for n, c in fi.items()},
                    "model": {n: c.decode("latin1") for n, c in fm.items()}}
        if mpan:
            continue
        if len(msteps) != len(ob["steps"]):
            return {"case": case["id"], "life": li, "at": "length", "impl": len(ob["steps"]), "model": len(msteps)}
        for k, (st, (ml, mrot, mparked, mp)) in enumerate(zip(ob["steps"], msteps)):
            fi, ci = norm_listing(st["dir"])
            fm, cm = model_listing(ml)
            if step_panics(st) != mp:
                return {"case": case, "life": li, "at": k, "what": "panic inside next_date (clock + period past the time crate's range)",
                        "impl": st.get("res"), "model": mp}
            if fi != fm:
                return {"case": case, "life": li, "at": k, "what": "directory contents",
                        "impl": {n: (c.decode("latin1") if c is not None else None) for n, c in fi.items()},
                        "model": {n: c.decode("latin1") for n, c in fm.items()}}
            oi, tie = order_by_created(ci)
            om, _ = order_by_created(cm)
            if not tie and oi != om:
                return {"case": case, "life": li, "at": k, "what": "creation order", "impl": oi, "model": om}
            if life["iface"] == "s":
                if st["rot"] != mrot or bool(st["parked"]) != bool(mparked):
                    return {"case": case, "life": li, "at": k, "what": "rotations elected / parked at the yield point",
                            "impl": [st["rot"], st["parked"]], "model": [mrot, mparked]}
    return None


def oracle_restart(rep, case, li, before, after, name0):
    """Builder::build over a non-empty directory: nothing removed, truncated, rewritten or re-stamped (no pruning at
    construction, whatever the limit); the only entry that may appear is the EMPTY file of the construction time's
    period, and only if it was not there - an existing one is opened for append.
    before = {name: bytes} (pre-existing entries, or the listing the previous lifetime left), after = listing"""
    fa, ca = norm_listing(after)
    fb, cb = before
    ctx = {"case": case, "life": li, "before": sorted(fb), "after": sorted(fa)}
    for n, c in fb.items():
        if n not in fa:
            rep.violation("building an appender removed %r (nothing is pruned at construction)" % n, ctx)
        elif fa[n] != c:
            rep.violation("building an appender changed the bytes of %r (an existing file must be opened for append, not truncated)" % n, ctx)
        elif cb is not None and n in cb and cb[n] != ca.get(n):
            rep.violation("building an appender re-created %r" % n, ctx)
    for n, c in fa.items():
        if n not in fb and not (n == name0 and c == b""):
            rep.violation("building an appender created %r; only the empty file of the construction time's period %r may appear" % (n, name0), ctx)
    if name0 not in fa:
        rep.violation("the appender did not create / open the file of its construction time's period %r" % name0, ctx)


def run(ctx):
    rep = Report(ctx)
    rep.rule = ("seeded clock scripts around calendar anchors (epoch, 29 Feb 2000/2024/2400, 28 Feb 2100, month and year ends, 2^31, 2^32, "
                "year 4000/8000): steps of 0, a few seconds, to the exact next boundary, boundary-1, boundary+1, one period, 2..50 periods, "
                "up to 40 days, occasional backward steps; 4 rotation kinds x prefix/suffix combinations x limit None/1..5 x pre-existing "
                "log files of older/newer periods and foreign files; exclusive interface, shared interface under forced schedules "
                "(complete writes, winner parked between CAS and refresh, overlapping rotations of different boundaries), and "
                "barrier-released races of 2..8 threads at one instant (oracle only). non-trivial = a script that crosses >= 2 boundaries, "
                "one of them by a multi-period jump; distinct = distinct (configuration, script)")
    rep.trusted_base = [
        "Coq 8.16.1 kernel + vm_compute", "translators/rolling.py (targeted extraction from rolling.rs; fails closed via gen_unrecognised = [])",
        "harness h_rolling.rs + hook H1 (clock override, yield_point(1)) in /repo under cfg(tracing_verif)",
        "the file system: O_APPEND writes are whole; created() stamps come from one non-decreasing clock (the harness reads a probe file's stamp back before every creation until it is strictly newer than every entry, re-checks after every operation and re-runs a case in which stamps tie)",
        "time crate: OffsetDateTime arithmetic/formatting (dependency; cross-checked against Time/Civil.v by the correspondence)",
        "atomicity reduction: refresh_writer under the write lock is one model step; std RwLock semantics",
        "Python oracle (datetime calendar, period arithmetic)"]
    rep.assumptions = ["clock readings 0 <= t < 2^62 in the theorems (the `as usize` cast; pre-1970 clocks are outside the property); cases use 0 <= t <= 2*10^11 (4-digit years)",
                       "no I/O errors (create/open/remove succeed), nobody else modifies the directory, names are valid UTF-8",
                       "max_log_files >= 1 (0 underflows `max_files - 1`: outside the property's quantifier)",
                       "created() stamps of distinct files differ and follow creation order (enforced by read-back, not by sleeping: see harness clock_barrier / check_stamps)"]
    # ---- leg B1: translator
    text, unrec = rolling_tr.main(ctx.repo, None)
    gen_if_changed(os.path.join(vlib.COQ, "gen", "Gen_rolling.v"), text)
    rep.tie("translator:Gen_rolling", not unrec, "; ".join(unrec[:4]), unrec[:1] or None)
    recheck = "Definition gen_recheck : bool := true." in text
    yield0 = "Definition gen_yield0 : bool := true." in text
    first_reading = "Definition gen_refresh_uses_first_reading : bool := false." not in text
    rep.extra["refresh_writer_is_given_the_first_clock_reading"] = first_reading
    rep.extra["make_writer_rechecks_under_write_lock"] = recheck
    rep.extra["hook_yield_point_0_present"] = yield0
    # ---- leg A
    rep.proof = coq_prove(ctx, "C16", ["theories/Properties/C16.vo"])
    # ---- implementation
    ok, paths, log = cargo_build(ctx, "rolling", ["h_rolling"], release=False)
    if not ok:
        rep.tie("build:h_rolling", False, vlib.last_error(log))
        return rep
    bins = [("debug", paths["h_rolling"])]
    # a build WITHOUT debug assertions in every tier (release: the target dir is shared with the thorough tier, so it is
    # cached): code that only runs inside debug_assert!/cfg(debug_assertions) is absent there.  Quick runs the exclusive-
    # interface slice of the cases on it (corpus + the first generated ones) and the volume path; thorough runs everything.
    ok, rpaths, log = cargo_build(ctx, "rolling", ["h_rolling"], release=True)
    if not ok:
        rep.tie("build:h_rolling-release", False, vlib.last_error(log))
        return rep
    bins.append(("release", rpaths["h_rolling"]))
    gran, info = probe_fs(ctx, paths["h_rolling"])
    if gran is None:
        rep.tie("fs:created-granularity", False, "created() unsupported or no clock step observed: %s" % info)
        return rep
    gap_ms = max(10.0, 2.5 * gran / 1e6)
    if os.environ.get("VERIF_C16_GAP_MS"):      # self-test of the creation barrier: with a gap below the granularity every
        gap_ms = float(os.environ["VERIF_C16_GAP_MS"])   # creation would tie without it (see notes/C16.md)
    rep.extra["fs_created_granularity_ns"] = gran
    rep.extra["creation_gap_ms"] = gap_ms
    ctx.log("created() granularity %.2f ms -> gap %.1f ms" % (gran / 1e6, gap_ms))

    rng = ctx.rng
    nx, ns, nr, nm = (120, 120, 40, 10) if not ctx.thorough() else (600, 600, 250, 30)
    cases = load_corpus(ctx, yield0)
    ncorp = len(cases)
    cases += [gen_case_x(rng, "x%d" % i) for i in range(nx)]
    cases += [gen_case_s(rng, "s%d" % i, template="overlap" if i % 4 == 0 else ("casrace" if (yield0 and i % 4 == 2) else None), yield0=yield0)
              for i in range(ns)]
    cases += [gen_case_race(rng, "r%d" % i) for i in range(nr)]
    rng_h = random.Random(ctx.seed * 7919 + 16)       # its own stream: the other generators' cases per seed stay what they were
    cases += [gen_case_hold(rng_h, "hold%d" % i) for i in range(60 if ctx.thorough() else 12)]
    rng_c = random.Random(ctx.seed * 104729 + 1616)    # own stream too
    cases += [gen_case_clock(rng_c, "clk%d" % i) for i in range(150 if ctx.thorough() else 24)]
    cases += [gen_malformed(rng, "bad%d" % i) for i in range(nm)]
    nrs, nl = (60, 30) if not ctx.thorough() else (300, 120)
    cases += [gen_case_restart(rng, "rs%d" % i) for i in range(nrs)]
    cases += [gen_case_late(rng, "late%d" % i) for i in range(nl)]
    by_id = {c["id"]: c for c in cases}
    det = [c for c in cases if not c.get("race") and not c.get("malformed")]

    # ---- model
    model = {}
    try:
        terms = []
        for i in range(0, len(det), 25):
            grp = det[i:i + 25]
            terms.append(("g%d" % i, "[" + "; ".join("(%s)" % coq_case(c, recheck, first_reading) for c in grp) + "]"))
        res = coq_eval(ctx, "From Coq Require Import ZArith List String.\nFrom TV Require Import Appender.RollingModel.\nImport ListNotations.\n", terms,
                       shards=min(vlib.NCPU, max(1, len(terms))), tag="cases_%d" % os.getpid())   # per run: coq_eval rmtree's its directory
        shutil.rmtree(os.path.join(ctx.work, "cases_%d" % os.getpid()), ignore_errors=True)
        for i in range(0, len(det), 25):
            for c, r in zip(det[i:i + 25], res["g%d" % i]):
                model[c["id"]] = r
    except Exception as ex:  # ModelEvalError or a parse problem: the tie is broken, the oracle still runs
        rep.tie("model-eval", False, str(ex)[:300])
        model = None

    all_cases = cases
    for prof, binpath in bins:
        if prof == "release" and not ctx.thorough():
            xs = [c for c in all_cases if c["iface"] == "x" and not c.get("malformed")]
            cases = ([c for c in xs if c["id"].startswith("corpus:")] + [c for c in xs if c["id"].startswith("x")][:50] +
                     [c for c in all_cases if c["id"].startswith("rs")][:15] + [c for c in all_cases if c["id"].startswith("late")][:10])
            rep.extra["release_slice_cases"] = len(cases)
        else:
            cases = all_cases
        pdet = [c for c in cases if not c.get("race") and not c.get("malformed")]
        obs, err = run_cases(ctx, binpath, cases, gap_ms, prof)
        if err:
            rep.tie("run:h_rolling:" + prof, False, err)
        disagree = []
        missing = [c["id"] for c in cases if c["id"] not in obs]
        if missing:
            rep.tie("run:h_rolling:%s:complete" % prof, False, "%d cases without output, first %s" % (len(missing), missing[0]))
        f16_seen = 0
        for c in cases:
            o = obs.get(c["id"])
            if o is None:
                continue
            rep.count("iface:" + ("malformed" if c.get("malformed") else "race" if c.get("race") else c["iface"]))
            if o.get("barrier_waits"):
                rep.count("fs:creation-barrier-waits", o["barrier_waits"])
            if o.get("stamp_reruns"):
                rep.count("fs:case-rerun-for-equal-created-stamps", o["stamp_reruns"])
            if c.get("malformed"):
                rep.count("malformed:" + c["malformed"])
                continue
            if o.get("error") or o.get("fatal"):
                rep.tie("harness:%s:%s" % (prof, c["id"]), False, str(o.get("error") or o.get("fatal"))[:200], {"case": c})
                continue
            allops = [op for life in lives_of(c) for op in life["ops"]]
            rep.evaluations += len(allops)
            rep.count("lives:%d" % len(lives_of(c)))
            if c.get("late"):
                rep.count("late:cases")
            for life, ob in zip(lives_of(c), obs_lives(o)):
                own = [n for n, _h, _c in ob["init"] if py_matches(c, n)]
                if life["max"] is not None and len(own) > life["max"]:
                    rep.count("restart:lifetime-starts-above-the-limit")
                if ob.get("build_panic"):
                    rep.count("late:constructor-panics")
                rep.count("late:write-panics", sum(step_panics(st) for st in ob["steps"]))
            rep.count("rot:" + c["rot"])
            rep.count("max:%s" % c["max"])
            rep.count("fix:%s%s" % ("P" if c["prefix"] else "-", "S" if c["suffix"] else "-"))
            rep.count("ops:%d-%d" % (len(c["ops"]) // 4 * 4, len(c["ops"]) // 4 * 4 + 3))
            for op in allops:
                rep.count("op:" + op[0])
            # non-trivial: >= 2 boundary crossings, one by a multi-period jump
            if c["rot"] != "n":
                P = PER[c["rot"]]
                nxt = rnd(c["rot"], c["t0"]) + P
                cross = jumps = 0
                hi = prev = c["t0"]
                for op in c["ops"]:
                    if op[0] not in ("w", "park", "park0", "race", "hold", "w2"):
                        continue
                    t = op[2]
                    # what kind of clock step this is (relative to the boundary the appender is waiting for)
                    if t == nxt:
                        rep.count("clock:exactly-on-boundary")
                    elif t == nxt - 1:
                        rep.count("clock:boundary-1s")
                    elif t == nxt + 1:
                        rep.count("clock:boundary+1s")
                    if t < hi:
                        rep.count("clock:step-back")
                    elif t == prev:
                        rep.count("clock:standing-still")
                    d0, d1 = EPOCH + datetime.timedelta(seconds=prev), EPOCH + datetime.timedelta(seconds=t)
                    if t > prev and (d0.year, d0.month) != (d1.year, d1.month):
                        rep.count("clock:crosses-month-end")
                        if d0.year != d1.year:
                            rep.count("clock:crosses-year-end")
                    if (d1.month, d1.day) == (2, 29):
                        rep.count("clock:on-29-feb")
                    hi, prev = max(hi, t), t
                    if t >= nxt:
                        cross += 1
                        if t >= nxt + P:
                            jumps += 1
                            rep.count("clock:multi-period-jump")
                        nxt = rnd(c["rot"], t) + P
                if cross >= 2 and jumps >= 1:
                    rep.nontrivial.add((prof, c["id"]))
            if c.get("race"):
                oracle_race(rep, c, o)
                continue
            before = len(rep.violations)
            if not c.get("late"):       # clocks at the end of the time crate's range are outside the property: correspondence only
                left = ({n: bytes.fromhex(h) for n, h in c["pre"] if h is not None}, None)
                for li, (life, ob) in enumerate(zip(lives_of(c), obs_lives(o))):
                    lc = dict(c, **life)
                    lc.pop("more", None)
                    if ob.get("error") or ob.get("fatal") or ob.get("build_panic"):
                        rep.tie("harness:%s:%s:life%d" % (prof, c["id"], li), False, str(ob.get("error") or ob.get("fatal") or ob.get("build_panic"))[:200], {"case": c})
                        break
                    if pname(lc, life["t0"]) in left[0]:
                        rep.count("restart:period-file-already-there")
                    oracle_restart(rep, c, li, left, ob["init"], pname(lc, life["t0"]))
                    Oracle(rep, lc, ob).run()
                    left = norm_listing(ob["steps"][-1]["dir"] if ob["steps"] else ob["init"])
            f16_seen += sum(1 for v in rep.violations[before:] if v.get("finding") == "F16")
            if model is not None and c["id"] in model:
                d = compare(c, o, model[c["id"]])
                rep.traces_validated += 1
                if d:
                    disagree.append(d)
        if model is not None:
            rep.tie("correspondence:" + prof, not disagree, "%d of %d cases disagree" % (len(disagree), len(pdet)), disagree[:1] or None)
        rep.count("F16-observed:" + prof, f16_seen)
    cases = all_cases
    # ---- volume path
    run_sweep(ctx, rep, bins)
    rep.extra["corpus_cases"] = ncorp
    rep.samples = [{"id": c["id"], "rot": c["rot"], "prefix": c["prefix"], "suffix": c["suffix"], "max": c["max"], "iface": c["iface"],
                    "t0": c["t0"], "ops": c["ops"][:6]} for c in cases[ncorp:ncorp + 2] + [x for x in cases if x["id"] == "s0"]]
    return rep
