"""Shared by C04 and C12: case representation, case files for harness/sched/h_sched, Coq terms for
Dispatch/Sched_Model.run_case, implementation runs (one process per case), model evaluation, the
model-vs-implementation diff and the property oracle (evaluated on the implementation's observations only,
against a Python specification of filters / scopes / liveness that never looks at the model).

A case is a dict:
  n        number of threads
  filters  list of filter specs, index = fid:  ('level',L) ('lvlnh',L) ('targets',La,Lb) ('env',La,Lb) ('dyn',L,H) ('none',)
  pre      [(t, op)]   quiescent set-up (each op runs to completion)
  progs    [[op]]      per-thread programs of the forced-schedule phase (may all be empty)
  sched    [t]         forced schedule at yield granularity
  post     [(t, op)]   quiescent probes
ops: ('emit',cs) ('new',c,fid,kind) ('drop',c) ('setdefault',c) ('close',) ('setglobal',c) ('rebuild',) ('reload',c,fid)
"""
import json
import os
from concurrent.futures import ThreadPoolExecutor

import vlib

POOL = [(1, "a", 0), (2, "a", 0), (3, "a", 0), (4, "a", 0), (5, "a", 0),
        (1, "b", 0), (2, "b", 0), (3, "b", 0), (4, "b", 0), (5, "b", 0),
        (3, "a", 1), (4, "b", 1)]
NCS = len(POOL)
REQUIRES = "From Coq Require Import List NArith.\nImport ListNotations.\nFrom TV Require Import Dispatch.Sched_Model.\n"

# ------------------------------------------------------------------------------------------------
# the specification of filters (what the documentation of LevelFilter / Targets / EnvFilter / DynFilterFn /
# Option::None says), independent of both the implementation and the Coq model


def spec_enabled(spec, cs):
    lvl, tgt, _ = POOL[cs]
    k = spec[0]
    if k in ("level", "lvlnh"):
        return lvl <= spec[1]
    if k in ("targets", "env"):
        return lvl <= (spec[1] if tgt == "a" else spec[2])
    if k == "dyn":
        return lvl <= spec[1]
    if k == "none":
        return True
    raise ValueError(spec)


def spec_interest(spec, cs):
    """0 never, 1 sometimes, 2 always"""
    if spec[0] == "dyn":
        return 0 if POOL[cs][0] > spec[2] else 1
    return 2 if spec_enabled(spec, cs) else 0


def spec_hint(spec):
    k = spec[0]
    if k == "level":
        return spec[1]
    if k in ("lvlnh", "none"):
        return 5
    if k in ("targets", "env"):
        return max(spec[1], spec[2])
    if k == "dyn":
        return spec[2]
    raise ValueError(spec)


def accepts(spec, cs):
    i = spec_interest(spec, cs)
    return i == 2 or (i == 1 and spec_enabled(spec, cs))


# ------------------------------------------------------------------------------------------------
# rendering

def op_text(op):
    return " ".join(str(x) for x in op)


# lock kinds of rebuild_interest_cache / register_dispatch / register on the dispatcher list, as measured on the repository under
# check by calibrate_locks (None = not measured: the harness assumes excl excl shared, what the model has)
LOCKS = None


def case_text(case):
    out = ["threads %d" % case["n"]]
    if LOCKS is not None and any(case["progs"]):
        out.append("locks " + " ".join(LOCKS))
    for fid, sp in enumerate(case["filters"]):
        out.append("filter %d %s" % (fid, " ".join(str(x) for x in sp)))
    for t, op in case["pre"]:
        out.append("pre %d %s" % (t, op_text(op)))
    for t, p in enumerate(case["progs"]):
        if p:
            out.append("prog %d %s" % (t, " ; ".join(op_text(o) for o in p)))
    if case["sched"]:
        out.append("sched " + " ".join(str(t) for t in case["sched"]))
    for t, op in case["post"]:
        out.append("hist %d %s" % (t, op_text(op)))
    return "\n".join(out) + "\n"


def op_term(op):
    k = op[0]
    if k == "emit":
        return "OEmit %d" % op[1]
    if k == "new":
        return "ONew %d %d" % (op[1], op[2])
    if k == "drop":
        return "ODrop %d" % op[1]
    if k == "setdefault":
        return "OSetDefault %d" % op[1]
    if k == "close":
        return "OCloseScope"
    if k == "setglobal":
        return "OSetGlobal %d" % op[1]
    if k == "rebuild":
        return "ORebuild"
    if k == "reload":
        return "OReload %d %d" % (op[1], op[2])
    raise ValueError(op)


def world_term(filters):
    rows = []
    for sp in filters:
        ints = "; ".join(str(spec_interest(sp, cs)) for cs in range(NCS))
        ens = "; ".join("true" if spec_enabled(sp, cs) else "false" for cs in range(NCS))
        rows.append("([%s], [%s], %d)" % (ints, ens, spec_hint(sp)))
    return "(mk_world [%s] [%s])" % ("; ".join(rows), "; ".join(str(p[0]) for p in POOL))


def rle_sched(sched):
    """schedule as a Coq term, run-length encoded with repeat"""
    if not sched:
        return "[]"
    parts, i = [], 0
    while i < len(sched):
        j = i
        while j < len(sched) and sched[j] == sched[i]:
            j += 1
        parts.append("repeat %d %d" % (sched[i], j - i) if j - i > 3 else "[%s]" % "; ".join(str(sched[i]) for _ in range(j - i)))
        i = j
    return "(" + " ++ ".join(parts) + ")"


def case_term(case):
    hist = lambda h: "[%s]" % "; ".join("(%d, %s)" % (t, op_term(o)) for t, o in h)
    progs = "[%s]" % "; ".join("[%s]" % "; ".join(op_term(o) for o in p) for p in case["progs"])
    return "(run_caseN %s %d %s %s %s %s)" % (world_term(case["filters"]), case["n"], hist(case["pre"]), progs,
                                            rle_sched(case["sched"]), hist(case["post"]))


# ------------------------------------------------------------------------------------------------
# race families: small 2-thread scenarios run under EVERY single-preemption schedule (thread a runs k yield-steps, thread b runs
# to completion, a finishes; both orders, k = 0..K) and, in the thorough tier, every double-preemption schedule
# (a: k1 steps, b: k2 steps, a to completion, b to completion).  The post phase makes every collector current on some thread and
# probes every callsite, so a verdict left stale by the race (a callsite stranded at `never`, an `always` that a later
# collector rejects, a max level left too low) is seen by the quiescent oracle with the schedule as the replay.

LONG = 70


def single_preemptions(K=26):
    out = []
    for a, b in ((0, 1), (1, 0)):
        for k in range(0, K + 1):
            out.append([a] * k + [b] * LONG + [a] * LONG + [b] * LONG + [a] * LONG + [0, 1] * 90)
    return out


def double_preemptions(K=16):
    out = []
    for a, b in ((0, 1), (1, 0)):
        for k1 in range(1, K + 1):
            for k2 in range(1, K + 1):
                out.append([a] * k1 + [b] * k2 + [a] * LONG + [b] * LONG + [a] * LONG + [b] * LONG + [0, 1] * 90)
    return out


ACC = ("level", 5)            # accepts everything, hint TRACE
REJ_A = ("targets", 0, 5)     # rejects target `a` callsites, accepts target `b`, hint TRACE
LOW = ("level", 2)            # WARN: rejects callsite 3 (DEBUG), hint WARN
DYN = ("dyn", 5, 5)           # answers `sometimes`, enabled() accepts everything


def c04_families():
    f = [ACC, REJ_A, LOW, DYN, ("level", 3)]
    P = "plain"
    probe = lambda cs: [(1, ("emit", cs)), (0, ("emit", cs))]
    fam = []
    # first hit on T1 (its default rejects) while T0 creates an accepting collector; afterwards T0 installs it and emits
    fam.append(("firsthit-vs-new-accepting", {
        "n": 2, "filters": f, "pre": [(0, ("new", 0, 1, P)), (1, ("setdefault", 0))],
        "progs": [[("new", 1, 0, P)], [("emit", 3)]],
        "post": [(0, ("setdefault", 1)), (0, ("emit", 3)), (1, ("emit", 3)), (1, ("setdefault", 1)), (1, ("emit", 3))]}))
    # first hit on T1 (its default accepts: `always`) while T0 creates a rejecting collector
    fam.append(("firsthit-vs-new-rejecting", {
        "n": 2, "filters": f, "pre": [(0, ("new", 0, 0, P)), (1, ("setdefault", 0))],
        "progs": [[("new", 1, 1, P)], [("emit", 3)]],
        "post": [(1, ("emit", 3)), (0, ("setdefault", 1)), (0, ("emit", 3)), (0, ("emit", 8))]}))
    # first hit with NO collector at all while the first collector is created
    fam.append(("firsthit-vs-first-new", {
        "n": 2, "filters": f, "pre": [(0, ("new", 0, 0, P)), (0, ("drop", 0))],
        "progs": [[("new", 1, 0, P)], [("emit", 3)]],
        "post": [(1, ("setdefault", 1)), (1, ("emit", 3)), (0, ("setdefault", 1)), (0, ("emit", 3))]}))
    fam.append(("firsthit-vs-rebuild", {
        "n": 2, "filters": f, "pre": [(0, ("new", 0, 3, P)), (1, ("setdefault", 0))],
        "progs": [[("rebuild",)], [("emit", 3)]], "post": probe(3) + [(0, ("setdefault", 0)), (0, ("emit", 3))]}))
    fam.append(("firsthit-vs-drop-and-new", {
        "n": 2, "filters": f, "pre": [(0, ("new", 0, 1, P))],
        "progs": [[("drop", 0), ("new", 1, 0, P)], [("emit", 3)]],
        "post": [(1, ("setdefault", 1)), (1, ("emit", 3)), (0, ("setdefault", 1)), (0, ("emit", 3))]}))
    fam.append(("two-firsthits-same-callsite", {
        "n": 2, "filters": f, "pre": [(0, ("new", 0, 0, P)), (0, ("setdefault", 0)), (1, ("setdefault", 0))],
        "progs": [[("emit", 3)], [("emit", 3)]], "post": probe(3)}))
    fam.append(("two-firsthits-different-callsites", {
        "n": 2, "filters": f, "pre": [(0, ("new", 0, 3, P)), (0, ("setdefault", 0)), (1, ("setdefault", 0))],
        "progs": [[("emit", 3)], [("emit", 8)]], "post": probe(3) + probe(8)}))
    # two first hits of DIFFERENT callsites racing on the list head (one list CAS fails and retries), then collector turnover:
    # a collector that rejects both is created, installed and probed -- a registration lost from the list keeps its stale `always`
    fam.append(("two-firsthits-then-rejecting-new", {
        "n": 2, "filters": f, "pre": [(0, ("new", 0, 0, P)), (0, ("setdefault", 0)), (1, ("setdefault", 0))],
        "progs": [[("emit", 3)], [("emit", 8)]],
        "post": [(0, ("new", 1, 2, P)), (0, ("setdefault", 1)), (1, ("setdefault", 1)), (0, ("emit", 3)), (0, ("emit", 8)), (1, ("emit", 3)), (1, ("emit", 8))]}))
    # ... and the other direction: both cached `never` (their default rejects), then an accepting collector
    fam.append(("two-firsthits-then-accepting-new", {
        "n": 2, "filters": f, "pre": [(0, ("new", 0, 1, P)), (0, ("setdefault", 0)), (1, ("setdefault", 0))],
        "progs": [[("emit", 3)], [("emit", 1)]],
        "post": [(1, ("new", 1, 0, P)), (0, ("setdefault", 1)), (1, ("setdefault", 1)), (0, ("emit", 3)), (0, ("emit", 1)), (1, ("emit", 3)), (1, ("emit", 1))]}))
    # first hit on T1 while T0 reloads the collector's filter (reload = assign + rebuild_interest_cache): the rebuild must not run
    # inside register's window between asking the collectors and pushing the callsite (the write lock excludes it)
    fam.append(("firsthit-vs-reload-to-rejecting", {
        "n": 2, "filters": f, "pre": [(0, ("new", 0, 0, "rlayer")), (0, ("setdefault", 0)), (1, ("setdefault", 0))],
        "progs": [[("reload", 0, 1)], [("emit", 3)]], "post": [(1, ("emit", 3)), (0, ("emit", 3)), (0, ("emit", 8))]}))
    fam.append(("firsthit-vs-reload-to-accepting", {
        "n": 2, "filters": f, "pre": [(0, ("new", 0, 1, "rlayer")), (0, ("setdefault", 0)), (1, ("setdefault", 0))],
        "progs": [[("reload", 0, 0)], [("emit", 3)]], "post": [(1, ("emit", 3)), (0, ("emit", 3))]}))
    # two writers with different hints: computing and publishing MAX_LEVEL must be one critical section (a writer parked before the
    # swap still holds the lock, so the other cannot complete and be overwritten by the stale lower level)
    fam.append(("two-news-different-hints", {
        "n": 2, "filters": f, "pre": [],
        "progs": [[("new", 1, 4, P)], [("new", 2, 0, P)]],
        "post": [(1, ("setdefault", 2)), (1, ("emit", 3)), (1, ("emit", 4)), (0, ("setdefault", 2)), (0, ("emit", 3)), (0, ("setdefault", 1)), (0, ("emit", 2))]}))
    fam.append(("new-vs-reload-different-hints", {
        "n": 2, "filters": f, "pre": [(0, ("new", 0, 0, "rlayer"))],
        "progs": [[("reload", 0, 2)], [("new", 1, 0, P)]],
        "post": [(1, ("setdefault", 1)), (1, ("emit", 3)), (0, ("setdefault", 1)), (0, ("emit", 4)), (0, ("setdefault", 0)), (0, ("emit", 1))]}))
    fam.append(("new-vs-rebuild-after-drop", {
        "n": 2, "filters": f, "pre": [(0, ("new", 0, 2, P))],
        "progs": [[("rebuild",)], [("new", 1, 0, P)]],
        "post": [(1, ("setdefault", 1)), (1, ("emit", 3)), (0, ("setdefault", 1)), (0, ("emit", 4))]}))
    # two threads reloading through the same handle (no-deadlock clause: the cell's lock must never be held across the rebuild)
    fam.append(("two-reloads-same-handle", {
        "n": 2, "filters": f, "pre": [(0, ("new", 0, 0, "rlayer")), (0, ("setdefault", 0)), (1, ("setdefault", 0)), (1, ("emit", 3))],
        "progs": [[("reload", 0, 1)], [("reload", 0, 3)]], "post": [(1, ("emit", 3)), (0, ("emit", 3))]}))
    # the max level: callsite 3 is above the only collector's hint until T0's new collector raises it
    fam.append(("new-raises-max-level", {
        "n": 2, "filters": f, "pre": [(0, ("new", 0, 2, P)), (1, ("setdefault", 0))],
        "progs": [[("new", 1, 0, P)], [("emit", 3), ("emit", 3)]],
        "post": [(1, ("setdefault", 1)), (1, ("emit", 3)), (0, ("setdefault", 1)), (0, ("emit", 3))]}))
    # cached emission against creation + drop of a rejecting collector
    fam.append(("cached-vs-new-then-drop", {
        "n": 2, "filters": f, "pre": [(0, ("new", 0, 0, P)), (1, ("setdefault", 0)), (1, ("emit", 3))],
        "progs": [[("new", 1, 1, P), ("drop", 1)], [("emit", 3), ("emit", 3)]],
        "post": probe(3) + [(0, ("rebuild",)), (1, ("emit", 3))]}))
    # installation of the global default against an emission on a thread without a scoped default (finding F41's class)
    fam.append(("emit-vs-set-global", {
        "n": 2, "filters": f, "pre": [(0, ("new", 0, 0, P)), (1, ("emit", 3))],
        "progs": [[("new", 1, 1, P), ("setglobal", 1)], [("emit", 3)]], "post": probe(3) + probe(8)}))
    fam.append(("firsthit-vs-set-global-accepting", {
        "n": 2, "filters": f, "pre": [(0, ("new", 0, 0, P))],
        "progs": [[("setglobal", 0)], [("emit", 3)]], "post": probe(3)}))
    return fam


def c12_families():
    f = [ACC, LOW, REJ_A, DYN, ("dyn", 1, 5), ("none",)]
    fam = []
    for kind in ("rlayer", "rlayer2", "rfilter"):
        base_pre = [(0, ("new", 0, 0, kind)), (0, ("setdefault", 0)), (1, ("setdefault", 0))]
        # a reload against the FIRST hit of a callsite
        fam.append(("reload-vs-firsthit-" + kind, {
            "n": 2, "filters": f, "pre": list(base_pre),
            "progs": [[("reload", 0, 2)], [("emit", 3)]], "post": [(1, ("emit", 3)), (0, ("emit", 3)), (0, ("emit", 8))]}))
        # less verbose, against a cached `always`, two emissions
        fam.append(("reload-less-verbose-" + kind, {
            "n": 2, "filters": f, "pre": base_pre + [(1, ("emit", 3))],
            "progs": [[("reload", 0, 2)], [("emit", 3), ("emit", 3)]], "post": [(1, ("emit", 3)), (0, ("emit", 3))]}))
        # more verbose (the hint rises from WARN to TRACE), against a callsite stopped by the max level
        fam.append(("reload-raises-max-" + kind, {
            "n": 2, "filters": f[:1] + [LOW] + f[2:], "pre": [(0, ("new", 0, 1, kind)), (0, ("setdefault", 0)), (1, ("setdefault", 0)), (1, ("emit", 3))],
            "progs": [[("reload", 0, 0)], [("emit", 3), ("emit", 3)]], "post": [(1, ("emit", 3)), (0, ("emit", 3))]}))
        # two reloads of the same cell racing
        fam.append(("two-reloads-" + kind, {
            "n": 2, "filters": f, "pre": base_pre + [(1, ("emit", 3))],
            "progs": [[("reload", 0, 2)], [("reload", 0, 3)]], "post": [(1, ("emit", 3)), (0, ("emit", 3)), (0, ("reload", 0, 0)), (1, ("emit", 3))]}))
        # a reload racing with the drop of its collector
        fam.append(("reload-vs-drop-" + kind, {
            "n": 2, "filters": f, "pre": [(0, ("new", 0, 0, kind)), (0, ("new", 1, 0, "plain")), (1, ("setdefault", 1)), (1, ("emit", 3))],
            "progs": [[("reload", 0, 2)], [("drop", 0)]], "post": [(1, ("emit", 3)), (0, ("reload", 0, 1)), (1, ("emit", 3))]}))
    # Option<layer> through a reload handle, the reloadable layer NOT innermost, over a hintless neighbour: Some(WARN) -> None
    # must make the stack transparent (hint TRACE, everything delivered), None -> Some(WARN) must lower it again
    fam.append(("reload-some-to-none-rlayer2", {
        "n": 2, "filters": f, "pre": [(0, ("new", 0, 1, "rlayer2")), (0, ("setdefault", 0)), (1, ("setdefault", 0)), (1, ("emit", 3))],
        "progs": [[("reload", 0, 5)], [("emit", 3), ("emit", 3)]],
        "post": [(1, ("emit", 3)), (0, ("emit", 3)), (0, ("reload", 0, 1)), (1, ("emit", 3)), (1, ("emit", 1))]}))
    fam.append(("reload-none-to-some-rlayer2", {
        "n": 2, "filters": f, "pre": [(0, ("new", 0, 5, "rlayer2")), (0, ("setdefault", 0)), (1, ("setdefault", 0)), (1, ("emit", 3))],
        "progs": [[("reload", 0, 1)], [("emit", 3), ("emit", 1)]],
        "post": [(1, ("emit", 3)), (0, ("emit", 1)), (0, ("reload", 0, 5)), (1, ("emit", 3))]}))
    # two first hits of DIFFERENT callsites racing on the list head (one list CAS fails and retries), then a reload that flips both
    # verdicts: a registration lost from the list keeps the verdict cached under the OLD value on every thread
    fam.append(("two-firsthits-then-reload-to-rejecting", {
        "n": 2, "filters": f, "pre": [(0, ("new", 0, 0, "rlayer")), (0, ("setdefault", 0)), (1, ("setdefault", 0))],
        "progs": [[("emit", 3)], [("emit", 1)]],
        "post": [(0, ("reload", 0, 2)), (0, ("emit", 3)), (0, ("emit", 1)), (1, ("emit", 3)), (1, ("emit", 1))]}))
    fam.append(("two-firsthits-then-reload-to-accepting", {
        "n": 2, "filters": f, "pre": [(0, ("new", 0, 2, "rlayer")), (0, ("setdefault", 0)), (1, ("setdefault", 0))],
        "progs": [[("emit", 3)], [("emit", 1)]],
        "post": [(1, ("reload", 0, 0)), (0, ("emit", 3)), (0, ("emit", 1)), (1, ("emit", 3)), (1, ("emit", 1))]}))
    # an emission at a `sometimes` callsite meets a reload INSIDE its write-locked section (the reloader parks at yield 83 holding the
    # cell's write lock): the emitter's enabled() must WAIT and then be judged by the new value -- both values accept (a dropped
    # emission is judged by neither), and old accepts / new rejects (either is fine, but it must be one of them)
    for kind in ("rlayer", "rlayer2", "rfilter"):
        pre = [(0, ("new", 0, 3, kind)), (0, ("setdefault", 0)), (1, ("setdefault", 0)), (1, ("emit", 3))]
        fam.append(("emit-meets-writelocked-reload-both-accept-" + kind, {
            "n": 2, "filters": f + [("dyn", 4, 5)], "pre": list(pre),
            "progs": [[("reload", 0, 6)], [("emit", 3), ("emit", 3)]], "post": [(1, ("emit", 3)), (0, ("emit", 3))]}))
        fam.append(("emit-meets-writelocked-reload-new-rejects-" + kind, {
            "n": 2, "filters": f, "pre": list(pre),
            "progs": [[("reload", 0, 4)], [("emit", 3), ("emit", 3)]], "post": [(1, ("emit", 3)), (0, ("emit", 3))]}))
    # two reloads whose rebuilds would race on MAX_LEVEL if rebuilds were not serialised: the later assignment (TRACE) must win
    fam.append(("two-reloads-max-level", {
        "n": 2, "filters": f, "pre": [(0, ("new", 0, 0, "rlayer")), (0, ("setdefault", 0)), (1, ("setdefault", 0)), (1, ("emit", 3))],
        "progs": [[("reload", 0, 1)], [("reload", 0, 0)]], "post": [(1, ("emit", 3)), (0, ("emit", 3)), (0, ("emit", 9))]}))
    # `sometimes` values: dyn -> dyn with a lower threshold
    fam.append(("reload-dyn-dyn", {
        "n": 2, "filters": f, "pre": [(0, ("new", 0, 3, "rfilter")), (0, ("setdefault", 0)), (1, ("setdefault", 0)), (1, ("emit", 3))],
        "progs": [[("reload", 0, 4)], [("emit", 3), ("emit", 3)]], "post": [(1, ("emit", 3)), (0, ("emit", 3))]}))
    return fam


def c12_return_before_rebuild_cases():
    """Three parties (oracle-only, forced releases): T2's first hit sits inside `register` holding the dispatcher list; T0's reload is
    released INTO its blocking write-lock acquisition (it sleeps in the OS, having announced whatever it announces before blocking);
    T1's reload is released into the same acquisition and, if it returns, T1 emits at a callsite cached `always` under the original
    value that the value T1 installed rejects.  On the unmodified code T1's reload cannot return before a rebuild has run."""
    f = [ACC, LOW, REJ_A, DYN, ("dyn", 1, 5), ("none",)]
    out = []
    for kind in ("rlayer", "rlayer2", "rfilter"):
        base = {"n": 3, "filters": f,
                "pre": [(0, ("new", 0, 0, kind)), (0, ("setdefault", 0)), (1, ("setdefault", 0)), (2, ("setdefault", 0)), (1, ("emit", 1))],
                "progs": [[("reload", 0, 3)], [("reload", 0, 2), ("emit", 1), ("emit", 1)], [("emit", 8)]],
                "post": [(1, ("emit", 1)), (0, ("emit", 1)), (2, ("emit", 8))], "family": "reload-returns-before-rebuild-" + kind}
        for k2 in (4, 5, 6, 7, 8):
            tail_ = [2] * LONG + [0] * LONG + [1] * LONG + [0] * LONG + [2] * 8
            out.append(dict(base, sched=[2] * k2 + [0] * 3 + [100] + [1] * 3 + [101] + [1] * 8 + tail_))
            out.append(dict(base, sched=[2] * k2 + [1] * 3 + [0] * 3 + [100, 101] + [1] * 8 + tail_))
    return out


def family_cases(families, rng, thorough, quick_double=40):
    """every single-preemption schedule of every family; double preemptions: all (thorough) or a sample (quick)"""
    cases = []
    singles = single_preemptions()
    doubles = double_preemptions()
    for name, base in families:
        for s in singles:
            cases.append(dict(base, sched=s, family=name))
        ds = doubles if thorough else rng.sample(doubles, quick_double)
        for s in ds:
            cases.append(dict(base, sched=s, family=name))
    return cases


# ------------------------------------------------------------------------------------------------
# implementation

def parse_impl(rc, out):
    r = {"rc": rc, "pre": [], "post": [], "yields": None, "sched_log": None, "finished": None, "max": None,
         "hang": None, "deadlock": False, "panics": [], "hooks": None, "bad": None, "raw_tail": out[-400:]}
    for line in out.splitlines():
        if not line.startswith("{"):
            continue
        try:
            o = json.loads(line)
        except ValueError:
            r["bad"] = line[:200]
            continue
        k = o.get("k")
        if k == "op":
            (r["pre"] if o["ph"] == 0 else r["post"]).append((o["st"], o["ev"], o["max"]))
        elif k == "yields":
            r["yields"] = o["y"]
        elif k == "sched_log":
            r["sched_log"] = o["ev"]
        elif k == "finished":
            r["finished"] = o["v"]
            r["max"] = o["max"]
            r["deadlock"] = bool(o.get("deadlock"))
        elif k == "hang":
            r["hang"] = o
        elif k == "panic":
            r["panics"].append(o)
        elif k == "hooks":
            r["hooks"] = o
        elif k == "badcase":
            r["bad"] = line
    return r


def run_impl(ctx, binpath, cases, tag):
    d = os.path.join(ctx.work, tag)
    os.makedirs(d, exist_ok=True)

    def one(ic):
        i, case = ic
        p = os.path.join(d, "c%05d.case" % i)
        with open(p, "w") as f:
            f.write(case_text(case))
        rc, out = vlib.run_bin(binpath, [p], timeout=150)
        return parse_impl(rc, out)

    with ThreadPoolExecutor(max_workers=max(2, vlib.NCPU // 2)) as ex:
        # circuit breaker: a repository in which (nearly) every case hangs would cost 30 s per case; run a first batch,
        # and if most of it hangs report those (each is a violation with its case as the replay) and stop
        head = list(ex.map(one, enumerate(cases[:16])))
        hung = sum(1 for r in head if r["hang"] is not None or r["rc"] == 124)
        if len(head) >= 8 and hung * 2 > len(head):
            ctx.notes.append("%s: %d of the first %d cases hung; the remaining %d cases were not run" % (tag, hung, len(head), len(cases) - len(head)))
            return head
        res = head
        rest = list(enumerate(cases))[16:]
        for k in range(0, len(rest), 96):
            res += list(ex.map(one, rest[k:k + 96]))
            # a real-time hang costs 30 s: a handful is evidence enough (each is reported with its case as the replay)
            slow = sum(1 for r in res if (r["hang"] is not None and not r["hang"].get("deadlock")) or r["rc"] == 124)
            if slow >= 6 and k + 96 < len(rest):
                ctx.notes.append("%s: %d cases hung; the remaining %d cases were not run" % (tag, slow, len(rest) - k - 96))
                break
        return res


def calibrate_locks(ctx, rep, binpath):
    """Measure, on the real code, whether rebuild_interest_cache / Dispatch::new / a second registration can enter their lock
    section while another thread sits inside callsite::register holding its lock (released regardless of the probe, 400 ms to
    reach the next yield point).  The forced schedules then release a thread parked before an acquisition exactly when that kind
    of acquisition can succeed -- so a repository in which e.g. a rebuild only takes the read lock really runs the rebuild inside
    register's window, and the oracle judges what comes out.  The kinds the model has are excl / excl / shared (tie)."""
    global LOCKS
    LOCKS = None
    kinds = []
    for name, p0 in (("rebuild_interest_cache", [("rebuild",)]), ("register_dispatch", [("new", 1, 0, "plain")]), ("register", [("emit", 8)])):
        # a collector must exist (else the max level stops the emission before it registers)
        case = {"n": 2, "filters": [("level", 5)], "pre": [(0, ("new", 0, 0, "plain"))], "progs": [p0, [("emit", 3)]], "sched": [], "post": []}
        path = os.path.join(ctx.work, "calib_%s.case" % name)
        os.makedirs(ctx.work, exist_ok=True)
        with open(path, "w") as f:
            f.write("calibrate\n" + case_text(case))
        rc, out = vlib.run_bin(binpath, [path], timeout=120)
        shared = None
        for line in out.splitlines():
            if line.startswith("{") and '"calib"' in line:
                try:
                    shared = json.loads(line).get("shared")
                except ValueError:
                    pass
        kinds.append(None if shared is None else ("shared" if shared else "excl"))
    if all(k is not None for k in kinds):
        LOCKS = tuple(kinds)
        ok = LOCKS == ("excl", "excl", "shared")
        rep.tie("lock-kinds-as-modelled", ok, "rebuild_interest_cache / register_dispatch / register take %s / %s / %s access to the dispatcher list "
                "(the model: excl / excl / shared)" % LOCKS, None if ok else {"measured": list(LOCKS)})
    else:
        ctx.notes.append("lock kinds could not be measured (%s): the harness assumes excl / excl / shared" % kinds)
    rep.extra["lock_kinds"] = list(kinds)


# ------------------------------------------------------------------------------------------------
# model

def _obs(x):
    return [(st, [list(e) for e in evs], mx) for (st, evs, mx) in x]


def model_eval(ctx, cases, tag, chunk=25):
    terms = []
    for i in range(0, len(cases), chunk):
        terms.append(("k%d" % i, "[%s]" % "; ".join(case_term(c) for c in cases[i:i + chunk])))
    res = vlib.coq_eval(ctx, REQUIRES, terms, tag=tag, shards=min(vlib.NCPU, max(1, len(terms))))
    out = []
    for i in range(0, len(cases), chunk):
        for v in res["k%d" % i]:
            obs0, ys, lg, fin, mx, obs2 = v
            out.append({"pre": _obs(obs0), "yields": list(ys), "sched_log": [list(e) for e in lg], "finished": bool(fin),
                        "max": mx, "post": _obs(obs2)})
    return out


def worlds_wf(ctx, rep, cases, tag):
    """kernel-evaluate wf_tableb on every distinct world (the hypothesis WFworld of the theorems, via C04_worlds_wf)"""
    worlds = sorted({tuple(c["filters"]) for c in cases})
    rows_of = lambda filters: "[%s]" % "; ".join(
        "([%s], [%s], %d)" % ("; ".join(str(spec_interest(sp, cs)) for cs in range(NCS)),
                              "; ".join("true" if spec_enabled(sp, cs) else "false" for cs in range(NCS)), spec_hint(sp))
        for sp in filters)
    levels = "[%s]" % "; ".join(str(p[0]) for p in POOL)
    terms = []
    chunk = 60
    for i in range(0, len(worlds), chunk):
        terms.append(("w%d" % i, "[%s]" % "; ".join("wf_tableb %s %s" % (rows_of(w), levels) for w in worlds[i:i + chunk])))
    bad = []
    try:
        res = vlib.coq_eval(ctx, REQUIRES, terms, tag=tag, shards=min(vlib.NCPU, max(1, len(terms))))
        for i in range(0, len(worlds), chunk):
            for w, v in zip(worlds[i:i + chunk], res["w%d" % i]):
                if v is not True:
                    bad.append(list(w))
        rep.tie("worlds-satisfy-side-condition", not bad, "%d of %d distinct worlds fail wf_tableb" % (len(bad), len(worlds)), bad[:1] or None)
    except Exception as ex:
        rep.tie("worlds-satisfy-side-condition", False, str(ex)[:300])
    rep.count("distinct-worlds", len(worlds))


def diff(case, impl, model):
    """first disagreement between implementation and model, or None"""
    has1 = any(case["progs"])
    if impl.get("finished") is False and any(case["progs"]):
        return None     # the schedule ended before every thread finished (generator artefact): not compared, counted by the caller
    if any(e >= 100 for e in case["sched"]) or 996 in (impl["yields"] or []):
        # forced releases / a thread that really went to sleep on a lock in the OS (only the reloadable cell's lock, held by a reloader
        # parked at yield 83): it wakes by itself as soon as the lock is freed and runs on to its next yield point -- a writer thereby
        # takes the cell's lock before the schedule entry that accounts for the step -- which the model's one-step-per-entry semantics
        # does not describe.  Such cases are judged by the oracle only (counted as `slept-on-a-lock`)
        return None
    for ph in ("pre", "post"):
        a, b = impl[ph], model[ph]
        if len(a) != len(b):
            return {"where": ph, "impl_ops": len(a), "model_ops": len(b)}
        for i, (x, y) in enumerate(zip(a, b)):
            if (x[0], [list(e) for e in x[1]], x[2]) != (y[0], y[1], y[2]):
                return {"where": "%s op %d %s" % (ph, i, case[ph][i]), "impl": x, "model": y}
    if has1:
        # 996 = the released thread really went to sleep on a lock in the OS (only the reloadable cell's lock, held by a reloader parked
        # at yield 83, or a forced release).  It wakes by itself as soon as the lock is freed and runs on to its next yield point -- a
        # writer thereby takes the cell's lock before the schedule entry that accounts for the step -- which the model's one-step-per-
        # entry semantics does not describe: such cases are judged by the oracle only
        if 996 in (impl["yields"] or []):
            return None     # see the comment above: judged by the oracle only (counted as `slept-on-a-lock` by the caller)
        if impl["yields"] != model["yields"]:
            k = next((i for i, (x, y) in enumerate(zip(impl["yields"] or [], model["yields"])) if x != y), -1)
            return {"where": "yields", "first_index": k, "impl": (impl["yields"] or [])[max(0, k - 3):k + 4],
                    "model": model["yields"][max(0, k - 3):k + 4]}
        if impl["sched_log"] != model["sched_log"]:
            return {"where": "sched_log", "impl": impl["sched_log"], "model": model["sched_log"]}
        if (impl["finished"], impl["max"]) != (model["finished"], model["max"]):
            return {"where": "finished/max", "impl": [impl["finished"], impl["max"]], "model": [model["finished"], model["max"]]}
    return None


# ------------------------------------------------------------------------------------------------
# the oracle: a Python specification state driven by the ops (never by the model)

class SpecState:
    def __init__(self, case):
        self.f = case["filters"]
        self.n = case["n"]
        self.created = set()
        self.kind = {}
        self.slot = set()
        self.val = {}
        self.scopes = [[] for _ in range(self.n)]
        self.glob = None
        self.registered = set()

    def live(self, c):
        return c in self.slot or c == self.glob or any(c in sc for sc in self.scopes)

    def cur(self, t):
        return self.scopes[t][-1] if self.scopes[t] else self.glob

    def need_max(self):
        return max([spec_hint(self.f[self.val[c]]) for c in self.created if self.live(c)] or [0])

    def apply(self, t, op):
        """state change of a completed op (for `reload` the value change is applied by the caller at the
        assignment point when it can be observed; here it is applied if still pending)"""
        k = op[0]
        if k == "new":
            _, c, fid, kind = op
            if c not in self.created:
                self.created.add(c)
                self.kind[c] = kind
                self.val[c] = fid
                self.slot.add(c)
        elif k == "drop":
            self.slot.discard(op[1])
        elif k == "setdefault":
            if op[1] in self.slot:
                self.scopes[t].append(op[1])
        elif k == "close":
            if self.scopes[t]:
                self.scopes[t].pop()
        elif k == "setglobal":
            if op[1] in self.slot and self.glob is None:
                self.glob = op[1]
        elif k == "reload":
            _, c, fid = op
            if c in self.created and self.kind.get(c) != "plain" and self.live(c):
                self.val[c] = fid


def evs_of(obs, code):
    return [e for e in obs if e and e[0] == code]


def check_quiescent(S, t, op, obs, max_before, viol, where, case):
    """oracle for an op executed while every other thread is idle.  obs = (st, events, max_after)."""
    st, evs, mx = obs
    k = op[0]
    for e in evs:
        if e[0] == 1:
            S.registered.add(e[3])
    if k == "emit":
        cs = op[1]
        if POOL[cs][0] <= max_before:
            S.registered.add(cs)
        c = S.cur(t)
        want = (c + 1) if (c is not None and accepts(S.f[S.val[c]], cs)) else 0
        got = [e[3] for e in evs_of(evs, 4)]
        if got != [want]:
            what = ("quiescent emission at callsite %d (level %d, target %s) on thread %d: current collector %s %s it but delivery = %s"
                    % (cs, POOL[cs][0], POOL[cs][1], t, c, "accepts" if want else "rejects (or none is current)", got))
            viol.append((what, {"where": where, "op": list(op), "thread": t, "observed": evs, "expected_delivery": want, "case": case_text(case)}, None))
        S.apply(t, op)
        return
    if k == "reload":
        _, c, fid = op
        if c in S.created and S.kind.get(c) != "plain":
            alive = S.live(c)
            got = [e[3] for e in evs_of(evs, 6)]
            if got != [1 if alive else 0]:
                viol.append(("reload of collector %d (%s) returned %s, expected %s" % (c, "live" if alive else "gone", got, "Ok" if alive else "Err(CollectorGone)"),
                             {"where": where, "op": list(op), "observed": evs, "case": case_text(case)}, None))
            if not alive and (mx != max_before or evs_of(evs, 1) or evs_of(evs, 2)):
                viol.append(("reload on a dropped collector %d acted (events %s, max %s -> %s)" % (c, evs, max_before, mx),
                             {"where": where, "op": list(op), "observed": evs, "case": case_text(case)}, None))
    S.apply(t, op)
    if k in ("new", "rebuild") or (k == "reload" and evs_of(evs, 6) and evs_of(evs, 6)[0][3] == 1):
        need = S.need_max()
        if mx < need:
            viol.append(("after %s the global max level is %d but a live collector hints %d" % (op_text(op), mx, need),
                         {"where": where, "op": list(op), "max": mx, "needed": need, "case": case_text(case)}, None))


def oracle_case(case, impl, finding_mid_install="F41"):
    """returns [(what, replay, finding)], nontrivial_flags(dict)"""
    viol = []
    flags = {}
    ct = case_text(case)
    if impl["hang"] is not None:
        if impl["hang"].get("deadlock"):
            viol.append(("deadlock under the forced schedule (after entry %s): %s" % (impl["hang"].get("after_entry"), impl["hang"].get("status")),
                         {"case": ct, "hang": impl["hang"], "yields": impl["yields"]}, None))
        else:
            viol.append(("a thread hung (no progress for 30 s): %s" % json.dumps(impl["hang"]), {"case": ct, "hang": impl["hang"]}, None))
        return viol, flags
    if impl["deadlock"]:
        viol.append(("deadlock: every unfinished thread is blocked on the dispatcher lock", {"case": ct, "yields": impl["yields"]}, None))
    for p in impl["panics"]:
        viol.append(("panic on thread %s: %s" % (p.get("t"), p.get("msg")), {"case": ct, "panic": p}, None))
    if impl["rc"] != 0 or impl["bad"]:
        viol.append(("harness failed rc=%s %s" % (impl["rc"], impl["bad"] or impl["raw_tail"]), {"case": ct}, None))
        return viol, flags
    S = SpecState(case)
    mx = 0
    if len(impl["pre"]) != len(case["pre"]) or len(impl["post"]) != len(case["post"]):
        viol.append(("harness output incomplete", {"case": ct, "tail": impl["raw_tail"]}, None))
        return viol, flags
    for i, ((t, op), obs) in enumerate(zip(case["pre"], impl["pre"])):
        check_quiescent(S, t, op, obs, mx, viol, "pre %d" % i, case)
        mx = obs[2]
    if any(case["progs"]) and impl["yields"] is not None:
        mx = phase1_oracle(case, impl, S, viol, flags, finding_mid_install)
        if impl["finished"] is False:
            # the schedule ended before every thread finished (reported by the `schedules-complete` tie): the rest ran
            # unscheduled, the specification state after it is unknown
            return viol, flags
    for i, ((t, op), obs) in enumerate(zip(case["post"], impl["post"])):
        check_quiescent(S, t, op, obs, mx, viol, "post %d" % i, case)
        mx = obs[2]
    # offered: every registered callsite was offered to every collector that is live at the end
    asked = set()
    for obs in impl["pre"] + impl["post"]:
        for e in obs[1]:
            if e[0] == 1:
                asked.add((e[2], e[3]))
    for e in impl["sched_log"] or []:
        if e[0] == 1:
            asked.add((e[2], e[3]))
            S.registered.add(e[3])
    for c in sorted(S.created):
        if S.live(c):
            for cs in sorted(S.registered):
                if (c, cs) not in asked:
                    viol.append(("callsite %d is registered but was never offered to live collector %d" % (cs, c),
                                 {"case": ct, "collector": c, "callsite": cs}, None))
    return viol, flags


def phase1_oracle(case, impl, S, viol, flags, finding_mid_install):
    """Replays the forced-schedule phase on the specification state, using only what the implementation run
    shows: which thread moved at each entry and where it parked (0 = it completed an operation)."""
    ct = case_text(case)
    progs, sched, ys = case["progs"], case["sched"], impl["yields"]
    idx = [0] * case["n"]            # next op of each thread
    inop = [False] * case["n"]
    emits = {}                       # t -> dict of the running emission
    inflight_old = {}                # t -> (c, old value) for a reload past its assignment
    sg = {}                          # t -> state of a running set_global_default
    done_emits = []
    preempted_inside = False
    last = None
    assigned_at = {}                 # t -> schedule index of the assignment of t's running reload
    for i, (t, y) in enumerate(zip(sched, ys)):
        if t >= 100:
            t -= 100                 # a forced release
        if y in (998, 996) or t >= case["n"] or idx[t] >= len(progs[t]):
            continue                 # stutter / the thread went to sleep on a lock
        op = progs[t][idx[t]]
        if last is not None and last != t and any(inop):
            preempted_inside = True
        last = t
        if not inop[t]:
            inop[t] = True
            if op[0] == "emit":
                c0 = S.cur(t)
                vals = set()
                if c0 is not None:
                    vals.add(S.val[c0])
                    vals.update(x[1] for x in inflight_old.values() if x[0] == c0)
                emits[t] = {"t": t, "cs": op[1], "start": i, "cur0": c0, "vals": vals, "glob_at_start": S.glob, "installed": set()}
            if op[0] == "setglobal":
                # the handle is cloned out of the slot when the operation starts; who wins a race of two set_global_default
                # calls is decided by the GLOBAL_INIT CAS, not by which call returns first: a call that parks at yield 71 / 72
                # has won the CAS (those points are in the success branch only), a call that returns from 70 has lost
                sg[t] = {"has": op[1] in S.slot, "parked": False, "won": False}
        if op[0] == "setglobal" and t in sg:
            if y == 70:
                sg[t]["parked"] = True
            elif y in (71, 72):
                sg[t]["won"] = True
        if op[0] == "reload" and y == 82:
            # the assignment happened in this step
            _, c, fid = op
            if c in S.created:
                inflight_old[t] = (c, S.val[c])
                assigned_at[t] = i
                for e in emits.values():
                    if e["cur0"] == c:
                        e["vals"].add(fid)
                S.val[c] = fid
        if y == 0:
            inop[t] = False
            idx[t] += 1
            if op[0] == "emit":
                e = emits.pop(t)
                e["end"] = i
                done_emits.append(e)
            else:
                before_glob = S.glob
                if op[0] == "reload":
                    # the value change was applied at the assignment step.  The reload has RETURNED: values of this cell replaced
                    # before its own assignment are dead from now on, whether or not the reloads that replaced them have returned
                    own = inflight_old.pop(t, None)
                    a = assigned_at.pop(t, None)
                    if own is not None and a is not None:
                        for u in [u for u, x in inflight_old.items() if x[0] == own[0] and assigned_at.get(u, i) < a]:
                            inflight_old.pop(u, None)
                elif op[0] == "setglobal":
                    g = sg.pop(t, None)
                    if g is not None and g["has"] and (g["won"] or (not g["parked"] and S.glob is None)):
                        S.glob = op[1]             # visible from the INITIALIZED store, which is in this (last) step
                else:
                    S.apply(t, op)
                if S.glob != before_glob:
                    for e in emits.values():
                        e["installed"].add(S.glob)
    flags["preempted"] = preempted_inside
    # results of the emissions, in order per thread
    res = {}
    for x in impl["sched_log"] or []:
        if x[0] == 4:
            res.setdefault(x[1], []).append(x)
    for e in sorted(done_emits, key=lambda e: e["end"]):
        lst = res.get(e["t"], [])
        if not lst:
            continue
        x = lst.pop(0)
        d, cs = x[3], e["cs"]
        c0 = e["cur0"]
        rep = {"case": ct, "thread": e["t"], "callsite": cs, "entries": [e["start"], e["end"]], "current_at_start": c0, "delivered_to": d - 1 if d else None}
        if c0 is not None:
            allowed = {(c0 + 1) if accepts(S.f[v], cs) else 0 for v in e["vals"]}
            if len(e["vals"]) > 1:
                flags["racing_reload"] = True
            if d not in allowed:
                viol.append(("emission at callsite %d on thread %d started with collector %d installed (cell values in play: %s) but delivery = %s"
                             % (cs, e["t"], c0, sorted(e["vals"]), d - 1 if d else None), rep, None))
        else:
            if d == 0:
                continue
            c = d - 1
            if c in e["installed"]:
                flags["mid_install"] = True
                if not accepts(S.f[S.val[c]], cs):
                    viol.append(("emission at callsite %d on thread %d began with no current collector, loaded a cached interest, and was delivered to collector %d "
                                 "(installed as global default while it ran) whose filter rejects it" % (cs, e["t"], c), rep, finding_mid_install))
            else:
                viol.append(("emission at callsite %d on thread %d had no current collector but was delivered to %d" % (cs, e["t"], c), rep, None))
    return impl["max"] if impl["max"] is not None else 0
