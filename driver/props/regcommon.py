"""Shared machinery of C05 and C06 (span registry): case generator, implementation run, model run,
correspondence, and the property oracles.

A *case* is a history over two registry instances and up to three threads:

    ("setdef", t, d)        thread t installs a scoped default (d = 0/1 = instance, -1 = Dispatch::none())
    ("unsetdef", t)
    ("new", t, h, kind, hp) create a span on t's current default; kind r/c/e (root / contextual / explicit parent handle hp)
    ("clone", t, h, h2) ("drop", t, h)
    ("enter", t, h)         Collect::enter through the span's own dispatch (no guard object)
    ("exit", t, q)          Collect::exit by creation number q (works after every handle is gone)
    ("exith", t, h)         Collect::exit through a live handle
    ("entered", t, h, g)    g = h.clone().entered()        (model: clone + enter)
    ("dropguard", t, g)     drop(EnteredSpan)              (model: exit + drop)
    ("cur", t, h, tr)       h = Span::current()  (tr=1: SpanTrace::new(Span::current()))
    ("event", t, kind, hp)  an event; layer 1 records lookup_current / event_span / event_scope / a dump of every span
    ("evq", t, q)           an event whose EXPLICIT parent is the retained Id of span number q — possibly stale (closed span, recycled
                            slot); both recording views (layer 1 and the filtered layer) as for `event`   (model: OEventQ)
    ("read", t, h)          SpanTrace::with_spans / span(id).scope() through the handle's own dispatch
    ("pdrop", t, h)         the handle is dropped while a (contained) panic unwinds          (model: drop)
    ("fdrop", t, h)         the handle is dropped and the OUTERMOST layer's on_close panics for that span (contained): every
                            other layer was notified, the unwinding drops the closing outermost CloseGuard, which clears the
                            slot and releases the parent                                      (model: drop)
    ("pexit", t, q) ("pdropguard", t, g)   Collect::exit / the EnteredSpan guard's drop run from a destructor while a (contained)
                            panic unwinds                                                      (model: exit / dropguard)
    ("mdrop", tA, tB, h)    thread tA parks inside reload::Handle::modify of the reload-wrapped second recording layer of h's
                            instance (write lock held); thread tB drops h (if that closes a span, tB blocks in the reload
                            layer's on_close); tA leaves                                        (model: drop by tB)
    ("hold", t, k, h) ("poke", t, k) ("release", t, k)
    ("peek", t, k)          keep a SpanRef (slab guard) obtained by `registry.span(&id)` across other operations, write an
                            extension (Note) through it, read it back, drop it ("guards" mode).  Model: OHold_ / OPoke /
                            OPeek_ / ORelease (Registry/Model.v: deferred clear, phantom parent reference, notes).
Handle ids are doubled in the Coq terms (odd ids are reserved for the model's phantom references); a DEBUG `new` is preceded
by `OEnabled t true` (the filtered layer's verdict in the FILTERING thread-local); every `event` is followed by `OFEvent_`.
A `new` op may carry a 6th component 1 = the span is DEBUG (disabled for the outermost, per-subscriber-filtered layer FRec).
"""
import json
import os
import sys
from concurrent.futures import ThreadPoolExecutor

import vlib
from vlib import run_bin, coq_eval, gen_if_changed

sys.path.insert(0, os.path.join(vlib.VERIF, "translators"))
import registry_shapes as shapes_tr  # noqa: E402

GEN_SHIFT = 51          # sharded_slab DefaultConfig on 64-bit: generation = key >> 51, (tid, address) below
GUARD_H = 300           # handle ids of the spans owned by EnteredSpan guards in the model

TRUSTED = ["Coq 8.16.1 kernel + vm_compute",
           "Registry/Model.v (hand-written; tied to sharded.rs / stack.rs / layered.rs by the op-by-op correspondence only)",
           "harness/registry h_registry.rs (recording layers Rec<1>, Rec<2> above tracing_error::ErrorSubscriber; three worker "
           "threads driven one op at a time)",
           "driver/props/regcommon.py generator + differ + oracle",
           "sharded_slab::Pool as an abstract allocator: the id it hands out is fed to the model, which only checks legality "
           "(slot vacant, generation fresh); thread_local::ThreadLocal as a map thread -> cell"]
ASSUMPTIONS_C05 = [
    "OwnDefault: every release that sharded.rs routes through dispatch::get_default (Registry::exit, the parent release in "
    "Clear for DataInner) reaches the span's own collector; the complement is known finding F2 (C05_F2_refuted)",
    "well-formed histories: handle ids fresh, explicit parents belong to the creating collector (the rest is checked by correspondence only)",
    "op granularity in the correspondence: one API call = one atomic step, any interleaving of calls over threads; the "
    "interleavings INSIDE calls (fetch_add / fetch_sub / clear) are covered by the theorems of Registry/Micro.v, tied to the "
    "real code by the H3 forced-schedule runs only when hooks/H3_registry.patch is applied",
    "Release/Acquire on ref_count is treated as sequentially consistent",
    "per-layer filters: one LevelFilter-filtered recording layer (outermost) is modelled (FilterMap bit per span); the filter "
    "machinery itself (FilterState protocol, several filters, interest caching) is C07's subject",
    "slab guards: a SpanRef kept across operations is modelled at op level (limbo, parked parent reference, notes); the transient "
    "guards inside try_close are in Registry/MicroReal.v (schedule leg)"]
ASSUMPTIONS_C06 = [
    "OwnDefault for the readability clause (inherits F2)",
    "the 'current' clause excludes a span re-entered on a thread where it is already entered (property text); the model and the "
    "correspondence still cover re-entry",
    "explicit parents belong to the creating collector",
    "SpanTrace = a Span handle (tracing-error stores a Span); with_spans walks the scope through the handle's own dispatch"]


# ------------------------------------------------------------------------------------------------
# generator

class Gen:
    def __init__(self, rng, cid, mode, nthreads, glob, n0, n1, length, malformed=False, cleanup=True):
        self.r = rng
        self.case = {"id": cid, "n0": n0, "n1": n1, "global": glob, "ops": [], "mode": mode, "threads": nthreads}
        self.mode = mode
        self.nt = nthreads
        self.glob = glob
        self.handles = {}      # hid -> dict(q, inst, kind)
        self.guards = {}       # g -> (t, q, inst)
        self.defs = {}         # t -> d (-1/0/1)
        self.nq = 0
        self.span_inst = {}
        self.entered = {t: [] for t in range(nthreads)}   # raw enters (q) per thread
        self.next_h = 1
        self.next_g = 1
        self.length = length
        self.malformed = malformed
        self.cleanup = cleanup

    def eff(self, t):
        if t in self.defs:
            return None if self.defs[t] < 0 else self.defs[t]
        return 0 if self.glob else None

    def emit(self, *op):
        self.case["ops"].append(tuple(op))

    def ok_thread_for(self, inst):
        """threads whose current default is the given instance (mode M2/M1 keep releases on such threads)"""
        return [t for t in range(self.nt) if self.eff(t) == inst]

    def pick_thread(self, inst=None):
        if self.mode == "chaos" or inst is None:
            return self.r.randrange(self.nt)
        c = self.ok_thread_for(inst)
        return self.r.choice(c) if c else None

    def live(self, kind=None, real=True):
        return [h for h, v in self.handles.items() if (kind is None or v["kind"] == kind) and (not real or v["q"] is not None)]

    def gen(self):
        r = self.r
        # prologue: defaults
        if self.mode in ("single", "guards"):
            inst = 0 if self.glob else r.choice([0, 0, 0, 1])
            if not self.glob:
                for t in range(self.nt):
                    self.op_setdef(t, inst)
        elif self.mode == "two":
            for t in range(self.nt):
                self.op_setdef(t, t % 2 if not self.glob else (0 if t == 0 else r.choice([0, 1])))
        else:
            for t in range(self.nt):
                if r.random() < 0.8:
                    self.op_setdef(t, r.choice([0, 0, 1]))
        guard = 0
        while len(self.case["ops"]) < self.length and guard < 20 * self.length:
            guard += 1
            self.step()
        if self.cleanup:
            self.do_cleanup()
        return self.case

    def op_setdef(self, t, d):
        self.defs[t] = d
        self.emit("setdef", t, d)

    def new_h(self):
        h = self.next_h
        self.next_h += 1
        return h

    def step(self):
        r = self.r
        x = r.random()
        if self.malformed and x < 0.06:
            return self.bad_op()
        if self.mode == "chaos" and x < 0.10:
            t = r.randrange(self.nt)
            if r.random() < 0.3 and t in self.defs:
                del self.defs[t]
                return self.emit("unsetdef", t)
            return self.op_setdef(t, r.choice([0, 1, 0, 1, -1]))
        if self.mode == "guards" and x < 0.22:
            return self.op_guard()
        w = r.random()
        if w < 0.24:
            return self.op_new()
        if w < 0.31:
            return self.op_clone()
        if w < 0.45:
            return self.op_drop()
        if w < 0.55:
            return self.op_enter()
        if w < 0.67:
            return self.op_exit()
        if w < 0.75:
            return self.op_entered()
        if w < 0.83:
            return self.op_dropguard()
        if w < 0.88:
            return self.op_cur()
        if w < 0.96:
            return self.op_event()
        return self.op_read()

    def op_new(self):
        r = self.r
        if self.nq >= 12:
            return self.op_event()
        t = r.randrange(self.nt)
        i = self.eff(t)
        k = r.random()
        h = self.new_h()
        dbg = 1 if r.random() < 0.4 else 0      # DEBUG spans are disabled for the filtered layer
        if k < 0.5:
            self.emit("new", t, h, "c", 0, dbg)
        elif k < 0.65:
            self.emit("new", t, h, "r", 0, dbg)
        else:
            cands = [x for x in self.live("S", real=False) if self.mode == "chaos" and r.random() < 0.15 or self.handles[x]["inst"] in (i, None)]
            if not cands:
                self.emit("new", t, h, "c", 0, dbg)
            else:
                self.emit("new", t, h, "e", r.choice(cands), dbg)
        if i is None:
            self.handles[h] = {"q": None, "inst": None, "kind": "S"}
        else:
            self.handles[h] = {"q": self.nq, "inst": i, "kind": "S"}
            self.span_inst[self.nq] = i
            self.nq += 1

    def op_new_forced(self):
        """a root span on a thread that has a collector (slot reuse after the clean-up of a guards history)"""
        ts = [t for t in range(self.nt) if self.eff(t) is not None]
        if not ts or self.nq >= 28:
            return
        t = self.r.choice(ts)
        h = self.new_h()
        self.emit("new", t, h, "r", 0, 0)
        self.handles[h] = {"q": self.nq, "inst": self.eff(t), "kind": "S"}
        self.span_inst[self.nq] = self.eff(t)
        self.nq += 1

    def op_clone(self):
        c = self.live()
        if not c:
            return self.op_new()
        h = self.r.choice(c)
        h2 = self.new_h()
        self.emit("clone", self.r.randrange(self.nt), h, h2)
        self.handles[h2] = dict(self.handles[h])

    def op_drop(self):
        c = self.live(real=False)
        if not c:
            return self.op_new()
        h = self.r.choice(c)
        t = self.pick_thread(self.handles[h]["inst"])
        if t is None:
            return
        # (not in chaos mode: after a mis-routed release try_close may find no span, and then it panics only when the
        #  thread is not already panicking — the one place where a drop during unwinding differs from a plain drop)
        x = self.r.random()
        if self.mode != "chaos" and self.nt >= 2 and 0.2 <= x < 0.235:
            ta = self.r.choice([u for u in range(self.nt) if u != t])
            self.emit("mdrop", ta, t, h)
        else:
            self.emit(("pdrop" if x < 0.12 else "fdrop") if self.mode != "chaos" and x < 0.2 else "drop", t, h)
        del self.handles[h]

    def op_enter(self):
        c = self.live("S")
        if not c:
            return self.op_new()
        # prefer recently created spans; sometimes a span already entered on this thread (re-entry) or another
        h = self.r.choice(c[-4:]) if self.r.random() < 0.6 else self.r.choice(c)
        v = self.handles[h]
        t = self.r.randrange(self.nt)
        if v["q"] >= 0 and any(x[0] == v["q"] for x in self.entered[t]) and self.r.random() < 0.7:
            return  # keep re-entry occasional
        self.emit("enter", t, h)
        self.entered[t].append((v["q"], h, v["inst"]))

    def op_exit(self):
        r = self.r
        ts = [t for t in range(self.nt) if self.entered[t]]
        if not ts:
            return self.op_enter()
        t = r.choice(ts)
        ent = self.entered[t]
        k = len(ent) - 1 if r.random() < 0.55 else r.randrange(len(ent))     # out of order almost half of the time
        q, h, inst = ent[k]
        if self.mode != "chaos" and self.eff(t) != inst:
            return
        alive = h in self.handles and self.handles[h]["kind"] == "S"
        if q < 0 and not alive:
            return
        del ent[k]
        hs = [x for x, v in self.handles.items() if v["q"] == q and v["kind"] == "S"] if q >= 0 else [h]
        if q < 0 or (hs and r.random() < 0.5):
            self.emit("exith", t, r.choice(hs))
        else:
            self.emit("pexit" if self.mode != "chaos" and r.random() < 0.25 else "exit", t, q)

    def op_entered(self):
        c = self.live("S")
        if not c:
            return self.op_new()
        h = self.r.choice(c[-4:]) if self.r.random() < 0.6 else self.r.choice(c)
        t = self.r.randrange(self.nt)
        g = self.next_g
        self.next_g += 1
        self.emit("entered", t, h, g)
        self.guards[g] = (t, self.handles[h]["q"], self.handles[h]["inst"])

    def op_dropguard(self):
        if not self.guards:
            return self.op_entered()
        ks = sorted(self.guards)
        g = ks[-1] if self.r.random() < 0.5 else self.r.choice(ks)
        t, q, inst = self.guards[g]
        if self.mode != "chaos" and self.eff(t) != inst:
            return
        self.emit("pdropguard" if self.mode != "chaos" and self.r.random() < 0.2 else "dropguard", t, g)
        del self.guards[g]

    def op_cur(self):
        t = self.r.randrange(self.nt)
        h = self.new_h()
        tr = 1 if self.r.random() < 0.5 else 0
        self.emit("cur", t, h, tr)
        # which span it is is unknown to the generator; the instance is the thread's default
        self.handles[h] = {"q": -1, "inst": self.eff(t), "kind": "T" if tr else "S"}
        if self.eff(t) is None:
            self.handles[h]["q"] = None

    def op_event(self):
        r = self.r
        t = r.randrange(self.nt)
        k = r.random()
        c = self.live("S")
        if self.nq > 0 and r.random() < 0.12:
            return self.emit("evq", t, r.randrange(self.nq))     # explicit parent by retained id: often a span that has closed
        if k < 0.6 or not c:
            self.emit("event", t, "c", 0)
        elif k < 0.7:
            self.emit("event", t, "r", 0)
        else:
            self.emit("event", t, "e", r.choice(c))

    def op_guard(self):
        """hold / poke / release of a SpanRef; releases stay on threads whose default is the span's collector"""
        r = self.r
        held = getattr(self, "held", None)
        if held is None:
            held = self.held = {}
            self.next_k = 1
        x = r.random()
        if (x < 0.4 or not held) and len(held) < 3:
            c = [h for h in self.live("S") if self.handles[h]["q"] is not None and self.handles[h]["q"] >= 0]
            if not c:
                return self.op_new()
            h = r.choice(c[-4:]) if r.random() < 0.7 else r.choice(c)
            t = self.pick_thread(self.handles[h]["inst"])
            if t is None:
                return
            k = self.next_k
            self.next_k += 1
            self.emit("hold", t, k, h)
            held[k] = (t, self.handles[h]["inst"])
            # very often the held span loses its handles right away: that is the interesting order
            if r.random() < 0.7:
                q = self.handles[h]["q"]
                for hh in [y for y, v in self.handles.items() if v["q"] == q and v["kind"] == "S"]:
                    tt = self.pick_thread(self.handles[hh]["inst"])
                    if tt is not None:
                        self.emit("drop", tt, hh)
                        del self.handles[hh]
        elif x < 0.7 and held:
            k = r.choice(sorted(held))
            self.emit("poke" if r.random() < 0.65 else "peek", held[k][0], k)
        elif held:
            k = r.choice(sorted(held))
            t, inst = held[k]
            if self.eff(t) != inst:
                return
            self.emit("release", t, k)
            del held[k]
            for _ in range(r.randrange(0, 4)):      # give the allocator a chance to hand the slot out again
                self.op_new()

    def op_read(self):
        c = self.live(real=False)
        if not c:
            return self.op_event()
        self.emit("read", self.r.randrange(self.nt), self.r.choice(c))

    def bad_op(self):
        r = self.r
        t = r.randrange(self.nt)
        k = r.randrange(6)
        dead = self.next_h + 50 + r.randrange(5)
        if k == 0:
            self.emit("drop", t, dead)
        elif k == 1:
            self.emit("clone", t, dead, self.new_h())
        elif k == 2:
            self.emit("exit", t, 40 + r.randrange(3))
        elif k == 3:
            self.emit("enter", t, dead)
        elif k == 4:
            self.emit("new", t, self.new_h(), "e", dead)
            if self.eff(t) is not None:
                self.span_inst[self.nq] = self.eff(t)
                self.handles[self.next_h - 1] = {"q": self.nq, "inst": self.eff(t), "kind": "S"}
                self.nq += 1
            else:
                self.handles[self.next_h - 1] = {"q": None, "inst": None, "kind": "S"}
        else:
            live = self.live(real=False)
            if live:
                self.emit("clone", t, r.choice(live), r.choice(live))   # duplicate target id
            self.emit("exit", t, r.randrange(max(1, self.nq)))          # exit without (matching) enter

    def do_cleanup(self):
        """release everything in a random order so that spans actually close (cascades, out-of-order)"""
        r = self.r
        acts = []
        for k, (t, inst) in getattr(self, "held", {}).items():
            acts.append(("r", k, t, inst))
        for g, (t, q, inst) in self.guards.items():
            acts.append(("g", g, t, inst))
        for t in range(self.nt):
            for (q, h, inst) in self.entered[t]:
                if q >= 0:
                    acts.append(("x", q, t, inst))
        for h, v in self.handles.items():
            acts.append(("h", h, None, v["inst"]))
        r.shuffle(acts)
        if r.random() < 0.3:
            acts = acts[: r.randrange(len(acts) + 1)]
        for kind, x, t, inst in acts:
            if kind == "g":
                if self.mode != "chaos" and self.eff(t) != inst:
                    continue
                self.emit("dropguard", t, x)
            elif kind == "x":
                if self.mode != "chaos" and self.eff(t) != inst:
                    continue
                self.emit("exit", t, x)
            elif kind == "r":
                if self.eff(t) != inst:
                    continue
                if r.random() < 0.5:
                    self.emit("poke", t, x)
                    self.emit("peek", t, x)
                self.emit("release", t, x)
            else:
                tt = self.pick_thread(inst)
                if tt is None:
                    continue
                self.emit("drop", tt, x)
        if self.mode == "guards":
            for _ in range(5):
                self.op_new_forced()
        if r.random() < 0.7:
            t = r.randrange(self.nt)
            self.emit("event", t, "c", 0)
            for i in (0, 1):
                tt = self.ok_thread_for(i)
                if tt:
                    self.emit("event", tt[0], "r", 0)


def gen_cases(ctx, n):
    rng = ctx.rng
    out = []
    for k in range(n):
        x = rng.random()
        mode = "single" if x < 0.5 else ("two" if x < 0.7 else "chaos")
        if k % 6 == 5:
            mode = "guards"           # SpanRefs held across closes: oracle only (no slab guards in Registry/Model.v)
        glob = 1 if rng.random() < 0.15 else 0
        nthreads = rng.choice([1, 2, 2, 3, 3])
        length = rng.choice([8, 15, 25, 40, 60]) if not ctx.thorough() else rng.choice([10, 25, 40, 60, 90])
        malformed = rng.random() < 0.08
        g = Gen(rng, "g%d" % k, mode, nthreads, glob, rng.choice([1, 2]), rng.choice([1, 2]), length, malformed,
                cleanup=rng.random() < 0.8)
        out.append(g.gen())
    return out


def case_text(c):
    lines = ["case %s %d %d %d" % (c["id"], c["n0"], c["n1"], c["global"])]
    for op in c["ops"]:
        k = op[0]
        if k in ("new", "event"):
            if k == "new":
                _, t, h, kind, hp = op[:5]
                lines.append("new %d %d %s%s%s" % (t, h, kind, (" %d" % hp) if kind == "e" else "", " d" if len(op) > 5 and op[5] else ""))
            else:
                _, t, kind, hp = op
                lines.append("event %d %s%s" % (t, kind, (" %d" % hp) if kind == "e" else ""))
        else:
            lines.append(" ".join(str(x) for x in op))
    lines.append("end")
    return "\n".join(lines) + "\n"


def parse_case_text(text):
    cases = []
    cur = None
    for line in text.splitlines():
        f = line.split()
        if not f or f[0].startswith("#"):
            continue
        if f[0] == "case":
            cur = {"id": f[1], "n0": int(f[2]), "n1": int(f[3]), "global": int(f[4]), "ops": [], "mode": "corpus", "threads": 3}
        elif f[0] == "end":
            cases.append(cur)
            cur = None
        elif f[0] == "new":
            cur["ops"].append(("new", int(f[1]), int(f[2]), f[3], int(f[4]) if f[3] == "e" else 0, 1 if f[-1] == "d" else 0))
        elif f[0] == "event":
            cur["ops"].append(("event", int(f[1]), f[2], int(f[3]) if f[2] == "e" else 0))
        else:
            cur["ops"].append(tuple([f[0]] + [int(x) for x in f[1:]]))
    return cases


# ------------------------------------------------------------------------------------------------
# implementation run

def norm_impl_obs(o):
    k = o["k"]
    if k == "new":
        return ("new", o["i"], o["l"], o["q"], o["stale"], o["par"])
    if k == "close":
        return ("close", o["i"], o["l"], o["q"], o["ext"])
    if k == "closegone":
        return ("closegone", o["i"], o["l"])
    if k == "event":
        return ("event", o["i"], o["cur"], o["espan"], tuple(o["escope"]), tuple(o["efromroot"]),
                tuple((d[0], None if d[1] is None else tuple(d[1])) for d in o["dump"]))
    if k == "cur":
        return ("cur", o["q"])
    if k == "trace":
        return ("trace", None if o["r"] is None else tuple(o["r"]))
    if k == "panic":
        m = o["msg"]
        kind = 1 if "tried to clone" in m and "no span exists" in m else 2 if "already closed" in m else 3 if "tried to drop a ref" in m else -1
        return ("panic", kind)
    if k == "ill":
        return ("ill", o["c"])
    if k == "foreignparent":
        return ("foreignparent",)
    if k == "newgone":
        return ("newgone", o["i"], o["l"], o["q"])
    if k == "fevent":
        return ("fevent", o["i"], o["cur"], o["espan"], tuple(o["escope"]), tuple(o["efromroot"]))
    if k == "hold":
        return ("hold", o["q"])
    if k == "peek":
        return ("peek", o["v"])
    if k == "stalenote":
        return ("stalenote", o["i"], o["q"], o["v"])
    return None   # alloc: harness-only


def run_impl(ctx, binpath, cases):
    """returns ({case id: {"ops": [[raw obs dicts]...], "stopped": bool, "complete": True, ["aborted": True]}}, errors).
    Cases run 80 per process; a chunk whose process dies (abort = panic while panicking, stack overflow, timeout) or prints
    garbage is re-run one case per process so that the dying case is isolated: it is kept with what it printed,
    `stopped` and `aborted` set (the oracle reports it as a failing input)."""
    plain = [c for c in cases if not c["global"]]
    glob = [c for c in cases if c["global"]]
    res = {}

    def parse(out, into):
        cur = None
        for line in out.splitlines():
            if not line.startswith("{"):
                continue
            try:
                o = json.loads(line)
            except ValueError:
                break                   # truncated line: the process died here
            if "case" in o:
                cur = {"ops": [], "stopped": False}
                into[o["case"]] = cur
            elif "endcase" in o:
                if cur is not None:
                    cur["stopped"] = o["stopped"]
                    cur["complete"] = True
            elif cur is not None and "obs" in o:
                cur["ops"].append(o["obs"])

    jobs = []
    chunk = 80
    for i in range(0, len(plain), chunk):
        jobs.append(plain[i:i + chunk])
    for c in glob:
        jobs.append([c])      # set_global_default is once per process

    def one(cs):
        return run_bin(binpath, input="".join(case_text(c) for c in cs), timeout=600)

    with ThreadPoolExecutor(max_workers=max(2, vlib.NCPU // 2)) as ex:
        outs = list(ex.map(one, jobs))
    errs = []
    redo = []
    for (rc, out), cs in zip(outs, jobs):
        part = {}
        parse(out, part)
        bad = rc != 0 or any(c["id"] not in part or "complete" not in part[c["id"]] for c in cs)
        if bad and len(cs) > 1:
            redo += cs
        else:
            res.update(part)
            if bad:
                redo += cs
    if redo:
        singles = [[c] for c in redo]
        with ThreadPoolExecutor(max_workers=max(2, vlib.NCPU // 2)) as ex:
            outs2 = list(ex.map(one, singles))
        for (rc, out), cs in zip(outs2, singles):
            c = cs[0]
            part = {}
            parse(out, part)
            r = part.get(c["id"])
            if r is not None and "complete" in r and rc == 0:
                res[c["id"]] = r
                continue
            if r is None:
                errs.append("case %s: rc=%d %s" % (c["id"], rc, vlib.last_error(out)))
                continue
            r["stopped"] = True
            r["aborted"] = True
            r["complete"] = True
            r["abort_note"] = "rc=%d %s" % (rc, vlib.last_error(out)[-200:])
            res[c["id"]] = r
    return res, errs


# ------------------------------------------------------------------------------------------------
# model run

def coq_pk(kind, hp):
    return {"r": "PRoot", "c": "PCtx"}.get(kind) or "(PExplicit %d)" % (2 * hp)


def model_ops(case, impl):
    """Coq op terms, grouped per case op (composite ops desugar into two model ops)."""
    groups = []
    for k, op in enumerate(case["ops"]):
        name = op[0]
        if name == "new":
            _, t, h, kind, hp = op[:5]
            a = (0, 0)
            if impl is not None and k < len(impl["ops"]):
                for o in impl["ops"][k]:
                    if o["k"] == "alloc":
                        key = o["raw"] - 1
                        a = (key & ((1 << GEN_SHIFT) - 1), key >> GEN_SHIFT)
            g = ["ONewSpan %d %d %s (%d%%N, %d%%N)" % (t, 2 * h, coq_pk(kind, hp), a[0], a[1])]
            if len(op) > 5 and op[5]:
                g = ["OEnabled %d true" % t] + g
            groups.append(g)
        elif name == "clone":
            groups.append(["OClone %d %d %d" % (op[1], 2 * op[2], 2 * op[3])])
        elif name in ("drop", "pdrop", "fdrop"):  # dropped during a contained unwind / with the outermost layer's on_close
            groups.append(["ODrop %d %d" % (op[1], 2 * op[2])])      # panicking: the same registry calls
        elif name == "enter":
            groups.append(["OEnter %d %d" % (op[1], 2 * op[2])])
        elif name in ("exit", "pexit"):
            groups.append(["OExit %d %d" % op[1:]])
        elif name == "mdrop":
            groups.append(["ODrop %d %d" % (op[2], 2 * op[3])])
        elif name == "exith":
            groups.append(["OExitH %d %d" % (op[1], 2 * op[2])])
        elif name == "entered":
            _, t, h, g = op
            groups.append(["OClone %d %d %d" % (t, 2 * h, 2 * (GUARD_H + g)), "OEnter %d %d" % (t, 2 * (GUARD_H + g))])
        elif name in ("dropguard", "pdropguard"):
            _, t, g = op
            groups.append(["OExitH %d %d" % (t, 2 * (GUARD_H + g)), "ODrop %d %d" % (t, 2 * (GUARD_H + g))])
        elif name == "cur":
            groups.append(["OCurrent %d %d" % (op[1], 2 * op[2])])
        elif name == "event":
            groups.append(["OEvent_ %d %s" % (op[1], coq_pk(op[2], op[3])), "OFEvent_ %d %s" % (op[1], coq_pk(op[2], op[3]))])
        elif name == "evq":
            groups.append(["OEventQ %d %d" % (op[1], op[2])])
        elif name == "hold":
            groups.append(["OHold_ %d %d %d" % (op[1], op[2], 2 * op[3])])
        elif name == "poke":
            groups.append(["OPoke %d %d" % op[1:]])
        elif name == "peek":
            groups.append(["OPeek_ %d %d" % op[1:]])
        elif name == "release":
            groups.append(["ORelease %d %d" % op[1:]])
        elif name == "setdef":
            groups.append(["OSetDef %d %s" % (op[1], "None" if op[2] < 0 else "(Some %d)" % op[2])])
        elif name == "unsetdef":
            groups.append(["OUnsetDef %d" % op[1]])
        elif name == "read":
            groups.append(["OReadTrace %d %d" % (op[1], 2 * op[2])])
        else:
            raise ValueError(op)
    return groups


def norm_model_obs(o, nl=None):
    """parsed Coq constructor -> canonical tuple (None = model-only observation).  nl: instance -> number of recording
    layers; frame 0 (ErrorSubscriber) and frame nl+1 (the filtered layer FRec) are Layered frames that record nothing here"""
    def hidden(i, l):
        return l == 0 or (nl is not None and l > nl.get(i, 99))
    if isinstance(o, str):
        return {"OForeignParent": ("foreignparent",), "OBadAlloc": ("badalloc",), "OFuel": ("fuel",)}[o]
    c = o[0]

    def optn(x):
        return None if x is None else x[1]

    if c == "ONew":
        _, i, l, q, stale, par = o
        if hidden(i, l):
            return None
        p = None if par is None else (-1 if par[1] is None else par[1][1])
        return ("new", i, l, q, optn(stale), p)
    if c == "OClose":
        _, i, l, q, ext = o
        return None if hidden(i, l) else ("close", i, l, q, optn(ext))
    if c == "OCloseGone":
        return None if hidden(o[1], o[2]) else ("closegone", o[1], o[2])
    if c == "OEvent":
        _, i, cur, espan, escope, efr, dump = o
        return ("event", i, optn(cur), optn(espan), tuple(escope), tuple(efr),
                tuple((d[0], None if d[1] is None else tuple(d[1][1])) for d in dump))
    if c == "OCur":
        return ("cur", optn(o[1]))
    if c == "OTrace":
        return ("trace", None if o[1] is None else tuple(o[1][1]))
    if c == "OPanic":
        return ("panic", o[1])
    if c == "OIll":
        return ("ill", o[1])
    if c == "ORoute":
        return ("route", o[1], optn(o[2]))
    if c == "OHold":
        return ("hold", optn(o[1]))
    if c == "OPeek":
        return ("peek", optn(o[1]))
    if c == "OStaleNote":
        return ("stalenote", o[1], o[2], o[3])
    if c == "OFEvent":
        return ("fevent", o[1], optn(o[2]), optn(o[3]), tuple(o[4]), tuple(o[5]))
    raise ValueError(o)


def run_model(ctx, cases, impl, tag="cases"):
    """returns {case id: {"ops": [[canonical obs]...], "routes": [...], "panicked": bool}}"""
    terms = []
    groups_of = {}
    batch = 40
    for b in range(0, len(cases), batch):
        items = []
        for c in cases[b:b + batch]:
            g = model_ops(c, impl.get(c["id"]))
            groups_of[c["id"]] = g
            flat = [x for grp in g for x in grp]
            # Layered frames per instance: ErrorSubscriber + the recording layers + the filtered layer
            items.append("run_case %d %d %s [%s]" % (c["n0"] + 2, c["n1"] + 2, "(Some 0)" if c["global"] else "None", "; ".join(flat)))
        terms.append(("b%d" % b, "[%s]" % "; ".join(items)))
    res = coq_eval(ctx, "From TV Require Import Registry.Model.\nFrom Coq Require Import List NArith.\nImport ListNotations.", terms, tag=tag)
    out = {}
    for b in range(0, len(cases), batch):
        vals = res["b%d" % b]
        for c, v in zip(cases[b:b + batch], vals):
            per_op, panicked = v
            g = groups_of[c["id"]]
            ops = []
            routes = []
            pos = 0
            for grp in g:
                merged = []
                for _ in grp:
                    for o in per_op[pos]:
                        n = norm_model_obs(o, {0: c["n0"], 1: c["n1"]})
                        if n is None:
                            continue
                        if n[0] == "route":
                            routes.append((len(ops), n[1], n[2]))
                        else:
                            merged.append(n)
                    pos += 1
                ops.append(merged)
            out[c["id"]] = {"ops": ops, "routes": routes, "panicked": panicked}
    return out


def diff_case(case, impl, model):
    """first disagreement between implementation and model on one case, or None"""
    iops = impl["ops"]
    mops = model["ops"]
    for k in range(len(case["ops"])):
        io = [x for x in (norm_impl_obs(o) for o in iops[k]) if x is not None] if k < len(iops) else []
        mo = mops[k] if k < len(mops) else []
        io = [x for x in io if x[0] != "stalenote"] + [x for x in io if x[0] == "stalenote"]      # logged before the layer's `new` line
        mo = [x for x in mo if x[0] != "stalenote"] + [x for x in mo if x[0] == "stalenote"]
        if io != mo:
            return {"case": case["id"], "op_index": k, "op": list(case["ops"][k]), "impl": io, "model": mo, "text": case_text(case)}
    if bool(impl["stopped"]) != bool(model["panicked"]):
        return {"case": case["id"], "op_index": -1, "impl_stopped": impl["stopped"], "model_panicked": model["panicked"], "text": case_text(case)}
    return None


# ------------------------------------------------------------------------------------------------
# the property oracle: an abstract specification evaluated over the history, compared with what the
# IMPLEMENTATION reported.  Knows nothing about reference counts, slots or stacks.

class Span:
    __slots__ = ("q", "inst", "parent", "handles", "entries", "open_children", "closed", "raw", "children", "dbg", "guards", "deferred")

    def __init__(self, q, inst, parent, raw, dbg=0):
        self.q, self.inst, self.parent, self.raw = q, inst, parent, raw
        self.dbg = dbg           # DEBUG level: disabled for the filtered layer
        self.guards = 0          # SpanRefs (slab guards) held on it
        self.deferred = False    # reported closed while a guard was held: its parent reference is released with the last guard
        self.handles = 1
        self.entries = {}        # thread -> number of entries (re-entries included)
        self.open_children = 0
        self.children = []
        self.closed = False


class Oracle:
    """Failures are (group, what, finding).  group in C05 / C06 tells which property the clause belongs to."""

    def __init__(self, case, impl):
        self.case = case
        self.impl = impl
        self.spans = {}
        self.handles = {}        # hid -> q | None (disabled span)
        self.hkind = {}
        self.guards = {}         # g -> (t, internal hid)
        self.defs = {}
        self.ene = {}            # (inst, t) -> [q] in entry order
        self.fail = []
        self.tainted = set()     # spans whose life cycle a mis-routed release (F2) may have disturbed
        self.misroutes = []      # (op index, span, routed-to)
        self.foreign_victim = False
        self.off = False         # ill-formed history (foreign explicit parent): correspondence only
        self.nq = 0
        self.stats = {"closed_with_child": 0, "ooo_exit": 0, "drop_while_entered": 0, "max_depth": 0,
                      "two_threads": 0, "reentry": 0, "closes": 0, "cascade": 0, "reuse": 0}
        self.seen_raw = {}
        self.refs = {}           # k -> q: held SpanRefs
        self.poked = set()       # spans whose extensions were overwritten (with 900 + q) through a held SpanRef while alive

    # -- helpers
    def eff(self, t):
        if t in self.defs:
            return None if self.defs[t] < 0 else self.defs[t]
        return 0 if self.case["global"] else None

    def scoped(self):
        return len(self.defs)

    def bad(self, group, what, k, spans=()):
        """record a failure; attribute it to F2 only if it concerns a span a mis-routed release touched"""
        finding = None
        if self.misroutes and spans and all(q in self.tainted for q in spans):
            finding = "F2"
        self.fail.append((group, what, finding, k))

    def bad_or_f2(self, f2, group, what, k, spans=()):
        """a deviation on a span whose life cycle a mis-routed release disturbed is finding F2 re-observed"""
        if f2 and self.misroutes:
            self.fail.append((group, what + " (after a release was routed to a collector that is not the span's own)", "F2", k))
        else:
            self.bad(group, what, k, spans)

    def ancestors(self, q):
        out = []
        while q is not None:
            out.append(q)
            q = self.spans[q].parent
        return out

    def descendants(self, q):
        out = [q]
        for c in self.spans[q].children:
            out += self.descendants(c)
        return out

    def taint_leak(self, q):
        self.tainted.update(self.ancestors(q))

    def misroute(self, k, q, d):
        """the release of one reference of span q was routed to dispatcher d != its own collector"""
        self.misroutes.append((k, q, d))
        self.taint_leak(q)
        if d is not None:
            self.foreign_victim = True      # a foreign registry received a close for an id that is not its own
            raw = self.spans[q].raw
            for v in self.spans.values():
                if v.inst == d and v.raw == raw and not v.closed:
                    for x in self.descendants(v.q):
                        self.tainted.update(self.ancestors(x))

    def all_gone(self, s):
        return s.handles == 0 and not any(s.entries.values()) and s.open_children == 0

    def current(self, inst, t):
        """(known, q): the most recently entered, not yet exited span; unknown while a re-entry is on the stack"""
        e = self.ene.get((inst, t), [])
        if len(set(e)) != len(e):
            return False, None
        return True, (e[-1] if e else None)

    def release(self, k, q, t, nested, expect):
        """a reference of q is gone; if q is now all gone it must close, then its parent loses a child"""
        s = self.spans[q]
        if s.closed or not self.all_gone(s):
            return
        s.closed = True
        expect.append(q)
        if s.children:
            self.stats["closed_with_child"] += 1
        if s.guards > 0:
            # sharded_slab only marks the slot; Clear for DataInner (parent release) runs when the last guard goes
            s.deferred = True
            return
        self.release_parent(k, q, t, nested, expect)

    def release_parent(self, k, q, t, nested, expect):
        s = self.spans[q]
        p = s.parent
        if p is None:
            return
        if len(expect) > 1:
            self.stats["cascade"] += 1
        # sharded.rs releases the parent through dispatch::get_default
        d = self.eff(t)
        if nested and self.scoped() > 0:
            d = None
        if d != s.inst:
            self.misroute(k, p, d)
        self.spans[p].open_children -= 1
        self.release(k, p, t, nested, expect)

    # -- main loop
    def run(self):
        ops = self.case["ops"]
        iops = self.impl["ops"]
        for k, op in enumerate(ops):
            if k >= len(iops):
                break
            raw = iops[k]
            obs = [x for x in (norm_impl_obs(o) for o in raw) if x is not None]
            self.step(k, op, raw, obs)
            if self.off:
                break
        return self

    def step(self, k, op, raw, obs):
        name = op[0]
        expect = []          # spans that must be reported closed during this op, in order
        t = op[1]
        pan = [o for o in obs if o[0] == "panic"]
        if any(o[0] == "foreignparent" for o in obs):
            self.off = True
            return
        if name == "setdef":
            self.defs[t] = op[2]
        elif name == "unsetdef":
            self.defs.pop(t, None)
        elif name == "new":
            self.op_new(k, op, raw, obs)
        elif name == "clone":
            _, _, h, h2 = op
            if h in self.handles and h2 not in self.handles:
                self.handles[h2] = self.handles[h]
                self.hkind[h2] = self.hkind[h]
                if self.handles[h] is not None and not pan:
                    self.spans[self.handles[h]].handles += 1
        elif name == "hold":
            _, _, kk, h = op
            got = [o for o in raw if o["k"] == "hold"]
            q = self.handles.get(h) if self.hkind.get(h) == "S" else None
            if kk not in self.refs and q is not None:
                if got and got[0]["q"] == q:
                    self.refs[kk] = q
                    self.spans[q].guards += 1
                elif not self.spans[q].closed and q not in self.tainted:
                    self.bad("C06", "span %d held by a live handle could not be looked up by its id" % q, k, (q,))
        elif name == "poke":
            q = self.refs.get(op[2])
            if q is not None and not self.spans[q].closed:
                self.poked.add(q)        # written while the span is alive: its layers will read that value at close
        elif name == "release":
            kk = op[2]
            if kk in self.refs:
                q = self.refs.pop(kk)
                s = self.spans[q]
                s.guards -= 1
                if s.guards == 0 and s.deferred:
                    s.deferred = False
                    # Clear for DataInner runs here, on this thread, outside any get_default closure
                    self.release_parent(k, q, t, False, expect)
        elif name in ("drop", "pdrop", "fdrop", "mdrop"):
            h = op[2]
            if name == "mdrop":
                t, h = op[2], op[3]
            if h in self.handles:
                q = self.handles.pop(h)
                if q is not None:
                    s = self.spans[q]
                    s.handles -= 1
                    if s.handles == 0 and any(s.entries.values()):
                        self.stats["drop_while_entered"] += 1
                    self.release(k, q, t, False, expect)
        elif name == "enter":
            h = op[2]
            if self.handles.get(h) is not None and self.hkind[h] == "S":
                self.enter(self.handles[h], t)
        elif name in ("exit", "exith", "pexit"):
            if name in ("exit", "pexit"):
                q = op[2] if op[2] in self.spans else None
            else:
                q = self.handles.get(op[2]) if self.hkind.get(op[2]) == "S" else None
            if q is not None:
                self.exit(k, q, t, expect)
        elif name == "entered":
            _, _, h, g = op
            if self.handles.get(h) is not None and self.hkind[h] == "S" and g not in self.guards:
                q = self.handles[h]
                if not pan:
                    self.spans[q].handles += 1
                self.guards[g] = (t, q)
                self.enter(q, t)
            elif h in self.handles and self.hkind[h] == "S" and g not in self.guards:
                self.guards[g] = (t, None)
        elif name in ("dropguard", "pdropguard"):
            g = op[2]
            if g in self.guards:
                _, q = self.guards.pop(g)
                if q is not None:
                    self.exit(k, q, t, expect)
                    s = self.spans[q]
                    s.handles -= 1
                    if s.handles == 0 and any(s.entries.values()):
                        self.stats["drop_while_entered"] += 1
                    self.release(k, q, t, False, expect)
        elif name == "cur":
            self.op_cur(k, op, obs)
        elif name == "event":
            self.op_event(k, op, obs)
        elif name == "evq":
            self.op_event(k, ("event", t, "q", op[2]), obs)
        elif name == "read":
            self.op_read(k, op, obs)
        self.check_closes(k, obs, expect)
        for o in obs:
            if o[0] == "panic":
                if self.foreign_victim:
                    self.fail.append(("C05", "panic after a release was routed to a foreign collector (no such span there, or its same-id span was closed early): kind %s" % o[1], "F2", k))
                else:
                    self.fail.append(("C05", "panic (kind %s) in a history where every release reached the span's own collector" % o[1], None, k))
            elif o[0] == "closegone":
                self.bad("C05", "on_close at layer %d of instance %d could not look the closing span up" % (o[2], o[1]), k)
            elif o[0] == "newgone":
                self.bad("C05", "on_new_span could not look the new span up", k)
            elif o[0] == "stalenote":
                self.bad("C05", "new span %d was born with an extension (%d) that an earlier occupant's guard wrote into its storage" % (o[2], o[3]), k)

    def enter(self, q, t):
        s = self.spans[q]
        e = self.ene.setdefault((s.inst, t), [])
        if q in e:
            self.stats["reentry"] += 1
        if any(n and tt != t for tt, n in s.entries.items()):
            self.stats["two_threads"] += 1
        e.append(q)
        s.entries[t] = s.entries.get(t, 0) + 1

    def exit(self, k, q, t, expect):
        s = self.spans[q]
        e = self.ene.get((s.inst, t), [])
        if q not in e:
            return
        if e[-1] != q:
            self.stats["ooo_exit"] += 1
        idx = len(e) - 1 - e[::-1].index(q)
        del e[idx]
        s.entries[t] -= 1
        if s.entries[t] == 0:
            # the entry's reference is released through dispatch::get_default
            d = self.eff(t)
            if d != s.inst:
                self.misroute(k, q, d)
            self.release(k, q, t, True, expect)

    def op_new(self, k, op, raw, obs):
        _, t, h, kind, hp = op[:5]
        dbg = op[5] if len(op) > 5 else 0
        if h in self.handles:
            return
        i = self.eff(t)
        if i is None:
            self.handles[h] = None
            self.hkind[h] = "S"
            return
        if any(o[0] == "panic" for o in obs):
            return
        alloc = [o for o in raw if o["k"] == "alloc"]
        if not alloc:
            self.fail.append(("C05", "span creation on instance %d reported no id" % i, None, k))
            self.off = True
            return
        q = alloc[0]["q"]
        rawid = alloc[0]["raw"]
        known = True
        if kind == "r":
            parent = None
        elif kind == "c":
            known, parent = self.current(i, t)
        else:
            parent = self.handles.get(hp)
        news = [o for o in obs if o[0] == "new"]
        if not known:
            # re-entry on the stack: the 'current' clause is excluded; take what the registry stored
            parent = news[0][5] if news and news[0][5] is not None and news[0][5] >= 0 else None
        if parent is not None and self.spans[parent].closed and parent not in self.tainted:
            self.bad("C06", "span %d created with parent %d which the specification says is closed" % (q, parent), k)
        s = Span(q, i, parent, rawid, dbg)
        # C05 unique ids: no live span of the same instance has this id
        for v in self.spans.values():
            if v.inst == i and v.raw == rawid:
                if not v.closed and v.q not in self.tainted:
                    self.bad("C05", "span %d got id %d which live span %d of the same registry still has" % (q, rawid, v.q), k, (v.q,))
        key = (i, (rawid - 1) & ((1 << GEN_SHIFT) - 1))
        if key in self.seen_raw:
            self.stats["reuse"] += 1
        self.seen_raw[key] = q
        self.spans[q] = s
        self.nq = max(self.nq, q + 1)
        if parent is not None:
            self.spans[parent].open_children += 1
            self.spans[parent].children.append(q)
        self.handles[h] = q
        self.hkind[h] = "S"
        self.stats["max_depth"] = max(self.stats["max_depth"], len(self.ancestors(q)))
        n = self.case["n0"] if i == 0 else self.case["n1"]
        if sorted(o[2] for o in news) != list(range(1, n + 1)):
            self.bad("C05", "on_new_span of span %d seen by layers %s of %d" % (q, [o[2] for o in news], n), k)
        for o in news:
            if o[4] is not None:
                self.bad("C05", "new span %d found stale extension data (%s) of an earlier span in its slot" % (q, o[4]), k)
            want = parent
            got = o[5]
            if got != want and not (want is not None and want in self.tainted):
                self.bad("C06", "span %d (%s parent) stored parent %s, expected %s" % (q, {"r": "root", "c": "contextual", "e": "explicit"}[kind], got, want), k)

    def op_cur(self, k, op, obs):
        _, t, h, tr = op
        if h in self.handles:
            return
        if any(o[0] == "panic" for o in obs):
            return
        i = self.eff(t)
        got = [o for o in obs if o[0] == "cur"]
        q = got[0][1] if got else None
        if i is not None:
            known, want = self.current(i, t)
            if known and q != want:
                self.bad_or_f2(want is not None and want in self.tainted, "C06",
                               "Span::current() on thread %d is %s, most recently entered and not exited is %s" % (t, q, want), k)
        elif q is not None:
            self.bad("C06", "Span::current() is %s with no collector" % q, k)
        self.handles[h] = q
        self.hkind[h] = "T" if tr else "S"
        if q is not None:
            self.spans[q].handles += 1

    def chain_ok(self, q):
        return not any(a in self.tainted for a in self.ancestors(q))

    def op_event(self, k, op, obs):
        _, t, kind, hp = op
        i = self.eff(t)
        evs = [o for o in obs if o[0] == "event"]
        if i is None:
            if evs:
                self.bad("C06", "an event was delivered with no collector", k)
            return
        if not evs:
            self.bad("C06", "event not delivered to layer 1 of instance %d" % i, k)
            return
        _, ei, cur, espan, escope, efr, dump = evs[0]
        known, want = self.current(i, t)
        if known and cur != want:
            self.bad_or_f2(want is not None and want in self.tainted, "C06",
                           "lookup_current on thread %d is %s, most recently entered and not exited is %s" % (t, cur, want), k)
        if kind == "r":
            wspan, wk = None, True
        elif kind == "c":
            wspan, wk = want, known
        else:
            # explicit parent: through a live handle ("e") or by the retained id of span number hp ("q", possibly stale)
            pspan = (self.handles.get(hp) if self.hkind.get(hp) == "S" else None) if kind == "e" else (hp if hp in self.spans else None)
            wspan, wk = pspan, True
            if pspan is not None and self.spans[pspan].inst != i:
                wk = False      # parent from another collector: not covered
            elif pspan is not None and self.spans[pspan].closed:
                wspan = None    # the id does not resolve any more: the explicit parent still overrides the contextual one
        if wk:
            f2 = (wspan is not None and not self.chain_ok(wspan)) or (kind in ("e", "q") and pspan is not None and (pspan in self.tainted or not self.chain_ok(pspan)))
            if espan != wspan:
                self.bad_or_f2(f2, "C06", "event_span is %s, expected %s (%s%s)" % (espan, wspan, kind,
                               ": the explicit parent %s has closed, its id does not resolve, and an explicit parent is never replaced by the current span" % pspan
                               if kind in ("e", "q") and wspan is None and pspan is not None else ""), k)
            else:
                wsc = tuple(self.ancestors(wspan)) if wspan is not None else ()
                if escope != wsc:
                    self.bad_or_f2(f2, "C06", "event_scope is %s, ancestors leaf to root are %s" % (list(escope), list(wsc)), k)
                if efr != tuple(reversed(wsc)):
                    self.bad_or_f2(f2, "C06", "event_scope().from_root() is %s, ancestors root to leaf are %s" % (list(efr), list(reversed(wsc))), k)
        # ---- the same event as the FILTERED layer sees it (per-subscriber filter: DEBUG spans do not exist for it):
        # its current span is the most recently entered, not yet exited span on this thread THAT ITS FILTER ENABLES
        fevs = [o for o in self.impl["ops"][k] if o["k"] == "fevent"]
        if not fevs:
            self.bad("C06", "event not delivered to the filtered layer of instance %d" % i, k)
        elif known or kind in ("e", "q", "r"):
            fe = fevs[0]
            ent = self.ene.get((i, t), [])
            vis = [q for q in ent if not self.spans[q].dbg]
            fwant = vis[-1] if vis else None
            f2 = any(q in self.tainted or not self.chain_ok(q) for q in ent)
            if known and fe["cur"] != fwant:
                self.bad_or_f2(f2, "C06", "filtered layer: lookup_current on thread %d is %s; entered and not exited are %s of which its filter enables %s, "
                               "so the most recently entered enabled one is %s" % (t, fe["cur"], ent, vis, fwant), k)
            if kind == "r":
                fspan, fk = None, True
            elif kind == "c":
                fspan, fk = fwant, True
            else:
                fp = (self.handles.get(hp) if self.hkind.get(hp) == "S" else None) if kind == "e" else (hp if hp in self.spans else None)
                fspan, fk = fp, True
                if fp is not None and self.spans[fp].inst != i:
                    fk = False
                elif fp is not None and (self.spans[fp].closed or self.spans[fp].dbg):
                    fspan = None     # closed (id does not resolve) or disabled by this layer's filter: no span, never the current one
                if fp is not None and (fp in self.tainted or not self.chain_ok(fp)):
                    f2 = True
            if fk:
                if fe["espan"] != fspan:
                    self.bad_or_f2(f2 or (fspan is not None and not self.chain_ok(fspan)), "C06",
                                   "filtered layer: event_span is %s, expected %s (%s%s)" % (fe["espan"], fspan, kind,
                                   ": the explicit parent %s is %s for this layer, and an explicit parent is never replaced by the current span"
                                   % (fp, "closed" if self.spans[fp].closed else "filtered out") if kind in ("e", "q") and fspan is None and fp is not None else ""), k)
                else:
                    fsc = [a for a in self.ancestors(fspan) if not self.spans[a].dbg] if fspan is not None else []
                    if list(fe["escope"]) != fsc:
                        self.bad_or_f2(f2 or (fspan is not None and not self.chain_ok(fspan)), "C06",
                                       "filtered layer: event_scope is %s, enabled ancestors leaf to root are %s" % (fe["escope"], fsc), k)
                    if list(fe["efromroot"]) != list(reversed(fsc)):
                        self.bad_or_f2(f2 or (fspan is not None and not self.chain_ok(fspan)), "C06",
                                       "filtered layer: event_scope().from_root() is %s, expected %s" % (fe["efromroot"], list(reversed(fsc))), k)
        # the dump: every span of this instance created so far
        rawdump = [o for o in self.impl["ops"][k] if o["k"] == "event"][0]["dump"]
        for q, sc, fr, chain in rawdump:
            s = self.spans.get(q)
            if s is None:
                continue
            f2 = (not self.chain_ok(q)) or q in self.tainted
            if s.closed:
                if sc is not None:
                    self.bad_or_f2(f2, "C05", "span %d is still found by its id after it was reported closed / should be gone" % q, k, (q,))
                continue
            if sc is None:
                # alive by the specification (a handle, an entry, a child or a captured trace keeps it)
                self.bad_or_f2(f2, "C06", "span %d is not readable although %s" % (q, self.why_alive(q)), k, (q,))
                continue
            want_sc = self.ancestors(q)
            if list(sc) != want_sc:
                self.bad_or_f2(f2, "C06", "scope of span %d is %s, ancestors leaf to root are %s" % (q, sc, want_sc), k, (q,))
            if list(fr) != list(reversed(want_sc)):
                self.bad_or_f2(f2, "C06", "scope().from_root() of span %d is %s, expected %s" % (q, fr, list(reversed(want_sc))), k, (q,))
            if list(chain) != want_sc:
                self.bad_or_f2(f2, "C06", "SpanRef::parent chain of span %d is %s, expected %s" % (q, chain, want_sc), k, (q,))

    def why_alive(self, q):
        s = self.spans[q]
        return "handles=%d entered_on=%s open_children=%d" % (s.handles, [t for t, n in s.entries.items() if n], s.open_children)

    def op_read(self, k, op, obs):
        h = op[2]
        if h not in self.handles:
            return
        q = self.handles[h]
        got = [o for o in obs if o[0] == "trace"]
        if not got:
            self.bad("C06", "reading a span trace produced nothing", k)
            return
        r = got[0][1]
        if q is None:
            if r != ():
                self.bad("C06", "a disabled span has a span trace %s" % (r,), k)
            return
        f2 = not self.chain_ok(q)
        want = tuple(self.ancestors(q))
        if r is None:
            self.bad_or_f2(f2, "C06", "span %d held by a live handle / captured trace is not readable" % q, k, (q,))
        elif r != want:
            self.bad_or_f2(f2, "C06", "span trace / scope through the handle of span %d is %s, ancestors are %s" % (q, list(r), list(want)), k, (q,))

    def check_closes(self, k, obs, expect):
        closes = [o for o in obs if o[0] == "close"]
        self.stats["closes"] += len(expect)
        by = {}
        for o in closes:
            by.setdefault((o[1], o[2]), []).append(o)
        insts = set(self.spans[q].inst for q in expect) | set(o[1] for o in closes)
        for i in sorted(insts):
            n = self.case["n0"] if i == 0 else self.case["n1"]
            want_all = [q for q in expect if self.spans[q].inst == i]
            want = [q for q in want_all if q not in self.tainted]
            for l in range(1, n + 1):
                got_objs = by.get((i, l), [])
                got_all = [o[3] for o in got_objs]
                got = [q for q in got_all if q not in self.tainted]
                for o in got_objs:
                    if o[4] != o[3]:
                        self.bad("C05", "layer %d closing span %d read extension %s instead of its own data" % (l, o[3], o[4]), k, (o[3],))
                if got_all == want_all:
                    continue
                if got == want:
                    # the difference concerns only spans disturbed by a mis-routed release: finding F2
                    early = [q for q in got_all if q not in want_all]
                    missing = [q for q in want_all if q not in got_all]
                    if early:
                        self.bad("C05", "span %d reported closed to layer %d while %s (a release was routed to a collector that is not the span's own)"
                                 % (early[0], l, self.why_alive(early[0])), k, (early[0],))
                    if missing:
                        self.bad("C05", "span %d never reported closed to layer %d: its last release was routed to a collector that is not its own"
                                 % (missing[0], l), k, (missing[0],))
                    continue
                for q in got:
                    s = self.spans.get(q)
                    if got.count(q) > 1:
                        self.bad("C05", "span %d reported closed twice to layer %d in one operation" % (q, l), k)
                    elif s is None:
                        self.bad("C05", "unknown span %s reported closed" % q, k)
                    elif q not in want:
                        if s.closed:
                            self.bad("C05", "span %d reported closed again to layer %d (already closed earlier)" % (q, l), k)
                        else:
                            self.bad("C05", "span %d reported closed to layer %d too early: %s" % (q, l, self.why_alive(q)), k)
                for q in want:
                    if q not in got:
                        self.bad("C05", "span %d not reported closed to layer %d of instance %d when its last reference/child went away" % (q, l, i), k)
                if sorted(got) == sorted(want) and got != want:
                    self.bad("C05", "close order at layer %d is %s, children-first order is %s" % (l, got, want), k)


def nontrivial_c05(st):
    return st["closed_with_child"] >= 1 and (st["ooo_exit"] >= 1 or st["drop_while_entered"] >= 1)


def nontrivial_c06(st):
    return (st["ooo_exit"] >= 1 and st["max_depth"] >= 3) or st["two_threads"] >= 1


# ------------------------------------------------------------------------------------------------
# the check shared by C05 and C06

CORPUS = os.path.join(vlib.VERIF, "corpus")


def load_corpus(prop):
    out = []
    for p in ("C05", "C06"):
        d = os.path.join(CORPUS, p)
        if not os.path.isdir(d):
            continue
        for f in sorted(os.listdir(d)):
            if f.endswith(".case"):
                cs = parse_case_text(vlib.read(os.path.join(d, f)))
                for c in cs:
                    c["id"] = "corpus-%s-%s" % (f[:-5], c["id"])
                    c["mode"] = "corpus"
                out += cs
    return out


def oracle_failures(case, impl, prop):
    o = Oracle(case, impl).run()
    if impl.get("aborted"):
        k = len(impl["ops"])
        what = "the process executing this history died (abort = panic while panicking, overflow or timeout) during op %d" % k
        if o.foreign_victim:
            o.fail.append(("C05", what + " after a release was routed to a foreign collector", "F2", k))
        else:
            o.fail.append(("C05", what, None, k))
    return o, [f for f in o.fail if f[0] == prop]


def shrink(ctx, binpath, case, prop, what):
    """greedy op removal keeping a failure of the same kind (same leading words); implementation only"""
    key = " ".join(what.split()[:4])
    key = "".join(ch for ch in key if not ch.isdigit())

    def fails(c):
        res, errs = run_impl(ctx, binpath, [c])
        r = res.get(c["id"])
        if r is None or "complete" not in r:
            return False
        _, fs = oracle_failures(c, r, prop)
        return any("".join(ch for ch in " ".join(f[1].split()[:4]) if not ch.isdigit()) == key and f[2] is None for f in fs)

    cur = dict(case)
    budget = 160
    changed = True
    while changed and budget > 0:
        changed = False
        k = len(cur["ops"]) - 1
        while k >= 0 and budget > 0:
            cand = dict(cur)
            cand["ops"] = cur["ops"][:k] + cur["ops"][k + 1:]
            budget -= 1
            if fails(cand):
                cur = cand
                changed = True
            k -= 1
    return cur


def run_common(ctx, prop, rep, proof_targets):
    # ---- translator (every run): constants and shapes of the mirrored functions -> coq/gen/Gen_registry.v
    text, unrec = shapes_tr.main(ctx.repo, None)
    gen_if_changed(os.path.join(vlib.COQ, "gen", "Gen_registry.v"), text)
    rep.tie("translator:Gen_registry", not unrec, "; ".join(unrec[:4]), unrec[:1] or None)
    rep.proof = vlib.coq_prove(ctx, prop, proof_targets)
    ok, paths, log = vlib.cargo_build(ctx, "registry", ["h_registry"])
    if not ok:
        rep.tie("build:h_registry", False, vlib.last_error(log))
        return rep
    binpath = paths["h_registry"]
    n = 600 if not ctx.thorough() else 5000
    cases = load_corpus(prop) + gen_cases(ctx, n)
    rep.count("cases:corpus", sum(1 for c in cases if c["mode"] == "corpus"))
    impl, errs = run_impl(ctx, binpath, cases)
    if errs:
        rep.tie("run:h_registry", False, "; ".join(errs[:3]))
    missing = [c["id"] for c in cases if c["id"] not in impl or "complete" not in impl[c["id"]]]
    if missing:
        rep.tie("run:h_registry:complete", False, "%d cases produced no complete output, first %s" % (len(missing), missing[0]),
                {"case": missing[0], "text": case_text([c for c in cases if c["id"] == missing[0]][0])})
    cases = [c for c in cases if c["id"] not in missing]
    ctx.log("implementation ran %d cases" % len(cases))
    # ---- model on the same cases
    mcases = cases
    rep.count("cases:with slab guards (hold / poke / peek / release), in the correspondence",
              sum(1 for c in cases if any(op[0] == "hold" for op in c["ops"])))
    model = None
    try:
        model = run_model(ctx, mcases, impl)
    except Exception as ex:
        rep.tie("model-eval", False, str(ex)[:400])
    disagree = []
    n_route_bad = 0
    if model is not None:
        for c in mcases:
            d = diff_case(c, impl[c["id"]], model[c["id"]])
            if d:
                disagree.append(d)
            for o in model[c["id"]]["ops"]:
                for x in o:
                    if x[0] in ("badalloc", "fuel"):
                        disagree.append({"case": c["id"], "model_says": x[0], "text": case_text(c)})
        rep.tie("correspondence:registry-histories", not disagree, "%d of %d cases disagree" % (len(disagree), len(mcases)), disagree[:1] or None)
        rep.traces_validated += len(mcases) - len(disagree)
    ctx.log("model ran; %d disagreements" % len(disagree))
    # ---- oracle on the implementation's observations
    shrunk = 0
    for c in cases:
        r = impl[c["id"]]
        o, fails = oracle_failures(c, r, prop)
        rep.evaluations += 1
        st = o.stats
        nt = nontrivial_c05(st) if prop == "C05" else nontrivial_c06(st)
        if nt:
            rep.nontrivial.add(c["id"])
        rep.count("mode:" + c["mode"])
        rep.count("threads:%d" % c["threads"])
        rep.count("global" if c["global"] else "scoped-only")
        rep.count("len:%d" % (10 * (len(c["ops"]) // 10)))
        for op in c["ops"]:
            rep.count("op:" + op[0])
        for key in ("closes", "cascade", "ooo_exit", "drop_while_entered", "reentry", "two_threads", "reuse", "closed_with_child"):
            rep.count("spec:" + key, st[key])
        rep.count("depth:%d" % st["max_depth"])
        if o.misroutes:
            rep.count("cases-with-misrouted-release(F2 class)")
        if model is not None and c["id"] in model:
            mflat = [x for oo in model[c["id"]]["ops"] for x in oo]
            if all(own == to for (_, own, to) in model[c["id"]]["routes"]) and not any(x[0] in ("ill", "foreignparent", "badalloc") for x in mflat):
                rep.count("model: WellFormed and OwnDefault hold (the theorems apply to this history)")
        if o.off:
            rep.count("cases-ill-formed(foreign parent): correspondence only")
        if r["stopped"]:
            rep.count("cases-stopped-by-panic")
        if model is not None and prop == "C05" and c["id"] in model:
            # the model's OwnDefault predicate and the oracle's mis-route detection must agree
            mr = any(own != to for (_, own, to) in model[c["id"]]["routes"])
            if mr != bool(o.misroutes) and not o.off and not r["stopped"]:
                n_route_bad += 1
                if n_route_bad == 1:
                    rep.tie("own-default-classification", False, "model routes %s vs oracle misroutes %s" % (model[c["id"]]["routes"], o.misroutes),
                            {"case": c["id"], "text": case_text(c)})
        seen = set()
        for grp, what, finding, k in fails:
            sig = "".join(ch for ch in what if not ch.isdigit())
            if sig in seen:
                continue
            seen.add(sig)
            cc = c
            if finding is None and shrunk < 3:
                shrunk += 1
                try:
                    cc = shrink(ctx, binpath, c, prop, what)
                except Exception as ex:       # shrinking is best effort
                    ctx.log("shrink failed: %s" % ex)
            rep.violation(sig.strip(), {"what": what, "at_op": k, "case_id": c["id"], "case": case_text(cc), "original_case": case_text(c) if cc is not c else None,
                                        "replay": "h_registry <file with the text of `case`>"}, finding=finding)
    if model is not None and prop == "C05" and n_route_bad == 0:
        rep.tie("own-default-classification", True, "model ORoute vs oracle mis-route detection agree on every case")
    # ---- a slice of the same histories on a build WITHOUT debug assertions (release profile): what is compiled out with
    #      debug_assert! must not matter.  Oracle on its observations + equality with the debug build's observations.
    okr, pathsr, logr = vlib.cargo_build(ctx, "registry", ["h_registry"], release=True)
    if not okr:
        rep.tie("build:h_registry --release", False, vlib.last_error(logr))
    else:
        nslice = 110 if not ctx.thorough() else 1200
        rcases = [c for c in cases if c["mode"] == "corpus"] + [c for c in cases if c["mode"] != "corpus"][:nslice]
        rimpl, rerrs = run_impl(ctx, pathsr["h_registry"], rcases)
        if rerrs:
            rep.tie("run:h_registry --release", False, "; ".join(rerrs[:3]))
        rdis = []
        seen = set()
        for c in rcases:
            r = rimpl.get(c["id"])
            if r is None or "complete" not in r:
                continue
            rep.count("cases:release-build slice")
            rep.evaluations += 1
            a = [[x for x in (norm_impl_obs(o) for o in ops) if x is not None] for ops in r["ops"]]
            b = [[x for x in (norm_impl_obs(o) for o in ops) if x is not None] for ops in impl[c["id"]]["ops"]]
            if a != b or bool(r["stopped"]) != bool(impl[c["id"]]["stopped"]):
                k = next((i for i in range(min(len(a), len(b))) if a[i] != b[i]), min(len(a), len(b)))
                rdis.append({"case": c["id"], "op_index": k, "op": list(c["ops"][k]) if k < len(c["ops"]) else None,
                             "release": a[k] if k < len(a) else None, "debug": b[k] if k < len(b) else None, "text": case_text(c)})
            o, fails = oracle_failures(c, r, prop)
            for grp, what, finding, k in fails:
                sig = "[build without debug assertions] " + "".join(ch for ch in what if not ch.isdigit())
                if sig in seen:
                    continue
                seen.add(sig)
                cc = c
                if finding is None and shrunk < 5:
                    shrunk += 1
                    try:
                        cc = shrink(ctx, pathsr["h_registry"], c, prop, what)
                    except Exception as ex:       # noqa: BLE001
                        ctx.log("shrink failed: %s" % ex)
                rep.violation(sig.strip(), {"what": what, "at_op": k, "case_id": c["id"], "case": case_text(cc), "build": "release (no debug assertions)",
                                            "replay": "h_registry (cargo build --release) <file with the text of `case`>"}, finding=finding)
        rep.tie("release-build-vs-debug-build observations", not rdis, "%d of %d histories differ between the two builds" % (len(rdis), len(rcases)), rdis[:1] or None)
    # ---- forced schedules of the reference-count micro-steps (needs the H3 registry yield points)
    if prop == "C05":
        import props.regsched as S
        ok2, paths2, log2 = vlib.cargo_build(ctx, "registry", ["h_registry_sched"])
        if not ok2:
            rep.tie("build:h_registry_sched", False, vlib.last_error(log2))
        else:
            fixed = bool(shapes_tr.analyse(ctx.repo)[3].get("clear_resets"))
            rep.count("sched: Clear for DataInner variant = %s" % ("CLOSE_COUNT reset (F51 repaired)" if fixed else "as found (F51)"))
            S.run_leg(ctx, rep, paths2["h_registry_sched"], fixed)
    return rep


def replay_common(ctx, prop, rep, payload, proof_targets):
    """./check Cxx --replay FILE: re-run just the recorded failing input (a history, or a forced-schedule scenario)."""
    case = payload.get("case") if isinstance(payload.get("case"), dict) else None
    if payload.get("kind") != "failing-input" or case is None:
        return run_common(ctx, prop, rep, proof_targets)
    text, unrec = shapes_tr.main(ctx.repo, None)
    gen_if_changed(os.path.join(vlib.COQ, "gen", "Gen_registry.v"), text)
    rep.tie("translator:Gen_registry", not unrec, "; ".join(unrec[:4]), unrec[:1] or None)
    rep.proof = vlib.coq_prove(ctx, prop, proof_targets)
    if "scenario" in case:
        import props.regsched as S
        ok2, paths2, log2 = vlib.cargo_build(ctx, "registry", ["h_registry_sched"])
        if not ok2:
            rep.tie("build:h_registry_sched", False, vlib.last_error(log2))
            return rep
        fixed = bool(shapes_tr.analyse(ctx.repo)[3].get("clear_resets"))
        S.replay_scenario(ctx, rep, paths2["h_registry_sched"], fixed, case["scenario"], case.get("run"))
        return rep
    ok, paths, log = vlib.cargo_build(ctx, "registry", ["h_registry"], release=str(case.get("build", "")).startswith("release"))
    if not ok:
        rep.tie("build:h_registry", False, vlib.last_error(log))
        return rep
    cases = parse_case_text(case["case"])
    impl, errs = run_impl(ctx, paths["h_registry"], cases)
    for c in cases:
        r = impl.get(c["id"])
        if r is None:
            rep.tie("run:h_registry", False, "; ".join(errs[:2]))
            continue
        rep.evaluations += 1
        try:
            model = run_model(ctx, [c], impl, tag="replay")
            d = diff_case(c, r, model[c["id"]])
            rep.tie("correspondence:registry-histories", d is None, "replayed case", d)
        except Exception as ex:      # noqa: BLE001
            rep.tie("model-eval", False, str(ex)[:300])
        o, fails = oracle_failures(c, r, prop)
        seen = set()
        for grp, what, finding, k in fails:
            sig = "".join(ch for ch in what if not ch.isdigit())
            if sig in seen:
                continue
            seen.add(sig)
            rep.violation(sig.strip(), {"what": what, "at_op": k, "case_id": c["id"], "case": case_text(c)}, finding=finding)
    return rep
