"""C11 — Filter directives: the most specific match wins, and filters round-trip.

Leg A: theorems of coq/theories/Properties/C11.v over Directive/Model.v (static directives, Targets, the EnvFilter
       tables and the per-thread scope stack).
Leg B: translators/directive.py (shape of DirectiveSet::add, of MatchDebug::debug_matches, the three regex texts)
       + correspondence: the same generated directive strings / metadata pool / span histories are run through the
       real crates (harness/directive h_directive) and through the model under vm_compute; every observation is diffed.
Leg C: oracle = a brute-force reference written here from the property text (longest matching target prefix, then
       more field constraints; last duplicate wins; Targets == EnvFilter on the common grammar; would_enable ==
       filtering; Display re-parses to the same filter; span directives raise the level exactly while a matching
       span is entered on the thread), evaluated on the implementation's observations only."""
import json
import os
import re
import subprocess
import sys

import vlib
from vlib import Report, coq_prove, cargo_build, coq_eval, gen_if_changed, coq_bytes

sys.path.insert(0, os.path.join(vlib.VERIF, "translators"))
import directive as directive_tr  # noqa: E402

LVN = ["off", "error", "warn", "info", "debug", "trace"]
LV_COQ = [None, "Error", "Warn", "Info", "Debug", "Trace"]
LEVEL_BY_NAME = {"ERROR": 1, "WARN": 2, "INFO": 3, "DEBUG": 4, "TRACE": 5}


def h(s):
    return s.encode("utf-8").hex()


def unh(x):
    return bytes.fromhex(x).decode("utf-8", "replace")


# ------------------------------------------------------------------------------------------------ generator
TARGETS = ["a", "ab", "a::b", "app", "application", "app::db", "app::db::pool", "other", "b", "target-name",
           "crate1::mod1", "crate1::mod2", "crate1"]
LEVELISH_TARGETS = ["warn", "off", "ERROR", "5", "00", "Info"]     # spell a LevelFilter: finding F23 territory
SPAN_NAMES = ["sp", "sq", "bare", "span-name", "my span"]
FIELD_NAMES = ["x", "y", "z", "req.id"]


def gen_level(rng):
    l = rng.randint(0, 5)
    r = rng.random()
    if r < 0.25:
        return str(l), l
    name = LVN[l]
    if r < 0.55:
        return name, l
    if r < 0.75:
        return name.upper(), l
    return "".join(c.upper() if rng.random() < 0.5 else c for c in name), l


def gen_target(rng, levelish=0.0):
    if rng.random() < levelish:
        return rng.choice(LEVELISH_TARGETS)
    if rng.random() < 0.85:
        return rng.choice(TARGETS)
    return rng.choice(["a", "app", "crate1", "x"]) + "".join(rng.choice(["::m", "_x", "1", "::db", "p"]) for _ in range(rng.randint(1, 2)))


def levelish_text(t):
    return t.lower() in LVN or (t.isdigit() and t.isascii() and int(t) <= 5)


def gen_static_dir(rng, levelish=0.0):
    """-> (text, (target|None, level))"""
    r = rng.random()
    if r < 0.15:
        t, l = gen_level(rng)
        return t, (None, l)
    tg = gen_target(rng, levelish)
    if r < 0.3 and not levelish_text(tg):
        return tg, (tg, 5)
    t, l = gen_level(rng)
    return tg + "=" + t, (tg, l)


def gen_static_list(rng, levelish=0.0):
    n = rng.choice([1, 1, 2, 2, 3, 3, 4, 5, 6, 8])
    items = [gen_static_dir(rng, levelish) for _ in range(n)]
    # duplicates / conflicting entries, shared prefixes
    for _ in range(rng.randint(0, 2)):
        if items and rng.random() < 0.7:
            _, (tg, _) = rng.choice(items)
            if tg is None:
                t, l = gen_level(rng)
                items.append((t, (None, l)))
            else:
                t, l = gen_level(rng)
                items.append((tg + "=" + t, (tg, l)))
    rng.shuffle(items)
    return ",".join(t for t, _ in items), [s for _, s in items]


VALUE_KINDS = ["bool", "u64", "i64", "f64", "lit", "pat"]


def gen_value(rng, regex):
    """-> (text, spec) where spec = ('bool', b) | ('u64', n) | ('i64', n) | ('f64', x) | ('lit', text) | ('pat', regex)"""
    k = rng.choice(["bool", "u64", "u64", "i64", "f64", "str", "str"])
    if k == "bool":
        b = rng.random() < 0.5
        return ("true" if b else "false"), ("bool", b)
    if k == "u64":
        n = rng.choice([0, 1, 2, 7, 42, 2 ** 63, 2 ** 64 - 1, rng.randint(0, 1000)])
        return str(n), ("u64", n)
    if k == "i64":
        n = -rng.choice([1, 2, 7, 42, 2 ** 63, rng.randint(1, 1000)])
        return str(n), ("i64", n)
    if k == "f64":
        x = rng.choice([1.5, 0.25, -2.5, 100.125])
        return repr(x), ("f64", x)
    if regex:
        p = rng.choice(["abc", "a.*", "[0-9]+", "ab|cd", "x1", '"bob"', "Some\\(.*\\)"])
        return p, ("pat", p)
    p = rng.choice(["abc", '"bob"', '"al ice"', "Foo(1)", "x1", "1a", '"bo', "Some(3)"])
    return p, ("lit", p)


def gen_env_dir(rng, regex, dyn_p=0.6):
    """-> (text, struct) with struct = {'target','span','fields':[(name, valspec|None)],'level'}"""
    if rng.random() > dyn_p:
        t, (tg, l) = gen_static_dir(rng)
        return t, {"target": tg, "span": None, "fields": [], "level": l}
    tg = gen_target(rng) if rng.random() < 0.55 else None
    sp = rng.choice(SPAN_NAMES[:3]) if rng.random() < 0.7 else (rng.choice(SPAN_NAMES) if rng.random() < 0.5 else None)
    fields = []
    if rng.random() < (0.55 if sp else 0.9):
        name = rng.choice(FIELD_NAMES[:2]) if rng.random() < 0.8 else rng.choice(FIELD_NAMES)
        if rng.random() < 0.7:
            vt, vs = gen_value(rng, regex)
            fields.append((name, vt, vs))
        else:
            fields.append((name, None, None))
    if sp is None and not fields:
        sp = "sp"
    txt = (tg or "") + "[" + (sp or "")
    if fields:
        txt += "{" + ",".join(n + ("=" + vt if vt is not None else "") for n, vt, _ in fields) + "}"
    txt += "]"
    if rng.random() < 0.8:
        t, l = gen_level(rng)
        txt += "=" + t
    else:
        l = 5
    return txt, {"target": tg, "span": sp, "fields": [(n, vs) for n, _, vs in fields], "level": l}


def gen_env_list(rng, regex, dyn_p=0.6):
    n = rng.choice([1, 2, 2, 3, 3, 4, 5])
    items = [gen_env_dir(rng, regex, dyn_p) for _ in range(n)]
    for _ in range(rng.randint(0, 2)):
        if rng.random() < 0.6:
            t, s = rng.choice(items)
            # same key, another level
            base = t.split("=")[0] if ("]=" in t or ("[" not in t and "=" in t)) else t
            if s["target"] is None and s["span"] is None and not s["fields"]:
                lt, l = gen_level(rng)
                items.append((lt, dict(s, level=l)))
            else:
                if "]" in t:
                    base = t[:t.rindex("]") + 1]
                lt, l = gen_level(rng)
                items.append((base + "=" + lt, dict(s, level=l)))
    rng.shuffle(items)
    return ",".join(t for t, _ in items), [s for _, s in items]


MAL_ALPHA = list("=,[]{}:-_ aApPzZ09+\"'.\\") + ["é", "\n", "ſ"]


def mutate(rng, s):
    s = list(s)
    for _ in range(rng.randint(1, 3)):
        op = rng.randint(0, 3)
        pos = rng.randint(0, len(s))
        if op == 0 and s:
            s[pos % len(s)] = rng.choice(MAL_ALPHA)
        elif op == 1:
            s.insert(pos, rng.choice(MAL_ALPHA))
        elif op == 2 and s:
            del s[pos % len(s)]
        elif s:
            i = pos % len(s)
            s.insert(i, s[i])
    return "".join(s)


FIXED_MALFORMED = ["", ",", "a,,b", "=info", "a=", "crate2=", "a=b=c", "foo[{a,b}]=info", "foo[{a}]=info", "foo[{}]=info", "foo[{a}=info",
                   "foo[{a}]x=info", "x[{y", "a[{b[{c}]=info", "+3", "a=+3", "a=003", "a=6", "a=warning", "00", "03", "info=debug",
                   "error=debug", "[sp]foo=debug", "[a][b]=info", "foo[]=info", "[[a]=info", "[a[]=info", "[a{x}junk]", "[{!!x=1}]",
                   "[{x=1=2}]", "[{a b=1}]", "[{a=}]", "info[sp]", "[a]x[b]", "a[b]c", "[sp{x}", "[sp{x=1}", "[]", "[{}]", "a[]", "[]=off",
                   "app[sp]=", "[sp{x=-0}]", "[sp{x=+5}]=debug", "[sp{x=18446744073709551616}]", "[sp{x=-9223372036854775809}]",
                   "[sp{x=true}]=WaRn", "target-name[span-name]=2", "a::b=Trace,a=OFF,ab=3", "app=info,application=off"]


# ------------------------------------------------------------------------------------------------ metadata pool
def make_pool(rng):
    metas = []
    tg = ["a", "ab", "a::b", "app", "application", "app::db", "app::db::pool", "other", "b", "", "target-name", "crate1::mod1", "crate1::mod2::x", "warn", "ap"]
    for t in tg:
        for l in range(1, 6):
            metas.append({"t": t, "l": l, "kind": "e", "n": "event x", "f": []})
    for t in ["app", "application", "app::db", "other", "a::b", "crate1::mod1"]:
        for l in (1, 3, 4, 5):
            metas.append({"t": t, "l": l, "kind": "s", "n": rng.choice(["sp", "sq"]), "f": rng.choice([[], ["x"], ["x", "y"]])})
            metas.append({"t": t, "l": l, "kind": "e", "n": "event y", "f": rng.choice([["x"], ["x", "y"], ["y"], ["req.id", "x"]])})
    for l in (2, 4, 5):
        metas.append({"t": "app", "l": l, "kind": "h", "n": "hint", "f": ["x"]})
        metas.append({"t": "app", "l": l, "kind": "s", "n": "sp", "f": ["x", "y"]})
        metas.append({"t": "other", "l": l, "kind": "s", "n": "bare", "f": []})
        metas.append({"t": "app", "l": l, "kind": "s", "n": "span-name", "f": ["z"]})
    return metas, tg


def coq_meta(m):
    kind = {"e": "KEvent", "s": "KSpan", "h": "KHint"}[m["kind"]]
    return "(mk_meta %s %s %s %s [%s])" % (coq_bytes(m["t"].encode()), LV_COQ[m["l"]], kind, coq_bytes(m["n"].encode()),
                                           "; ".join(coq_bytes(f.encode()) for f in m["f"]))


# ------------------------------------------------------------------------------------------------ reference semantics (oracle)
def survivors(entries, key):
    out = {}
    for e in entries:
        out[key(e)] = e           # a later duplicate wins
    return list(out.values())


def spec_len(t):
    return -1 if t is None else len(t.encode("utf-8"))


def best_static(dirs, m):
    """dirs: [(target|None, fieldnames tuple, level)] -> (decision|None when a tie on (len, #fields) with different levels)"""
    mt = m["t"].encode()
    cares = []
    for (t, fs, l) in dirs:
        if t is not None and not mt.startswith(t.encode()):
            continue
        if m["kind"] == "e" and any(f not in m["f"] for f in fs):
            continue
        cares.append((t, fs, l))
    if not cares:
        return False, None
    top = max((spec_len(t), len(fs)) for t, fs, l in cares)
    winners = [c for c in cares if (spec_len(c[0]), len(c[1])) == top]
    if len(set(w[2] for w in winners)) > 1:
        return None, winners
    return m["l"] <= winners[0][2], winners[0]


def parse_display(txt):
    """Parse what Display printed (the documented syntax target[span{field=value}]=level, comma list, lower-case levels)."""
    out = []
    if txt == "":
        return out
    for piece in txt.split(","):
        m = re.fullmatch(r"(?s)(?:([^\[\]=]*?)(\[(.*)\])?=)?(off|error|warn|info|debug|trace)", piece)
        if not m:
            return None
        tgt, br, inner, lvl = m.group(1), m.group(2), m.group(3), m.group(4)
        if m.group(1) is None and m.group(2) is None:
            out.append({"target": None, "span": None, "fields": [], "level": LVN.index(lvl), "has_eq": False})
            continue
        span, fields = None, []
        if br is not None:
            mm = re.fullmatch(r"(?s)([^{]*)(?:\{(.*)\})?", inner)
            if mm is None:
                return None
            span = mm.group(1) or None
            if mm.group(2) is not None:
                for f in mm.group(2).split(","):
                    n, _, v = f.partition("=")
                    fields.append((n, v if "=" in f else None))
        out.append({"target": tgt if tgt != "" or br is None else None, "span": span, "fields": fields, "level": LVN.index(lvl), "has_eq": True})
    return out


def val_text(vs):
    k, v = vs
    if k == "bool":
        return "true" if v else "false"
    if k == "f64":
        return repr(v)
    return str(v)


def value_matches(vs, rv, exact_debug=True, prefix=False):
    """vs: matcher spec; rv: recorded value {'b'|'u'|'i'|'s'|'d'|'f': ..}.  The documented meaning: numeric / bool literals match
    only that value; otherwise the Debug output (pattern: whole-string regex; literal: the precise text)."""
    k, v = vs
    if k == "bool":
        return "b" in rv and rv["b"] == v
    if k == "u64":
        return ("u" in rv and rv["u"] == v) or ("i" in rv and rv["i"] == v)
    if k == "i64":
        return ("i" in rv and rv["i"] == v)
    if k == "f64":
        return "f" in rv and abs(rv["f"] - v) < 2.220446049250313e-16
    if "p" in rv:
        return False
    if "s" in rv:
        dbg, raw = '"' + unh(rv["s"]) + '"', unh(rv["s"])
    elif "d" in rv:
        dbg, raw = unh(rv["d"]), unh(rv["d"])
    else:
        return False
    if k == "lit":
        return v.startswith(dbg) if prefix else dbg == v
    if k == "pat":
        try:
            return re.fullmatch(v, raw, re.S) is not None
        except re.error:
            return False
    return False


def dyn_cares(d, m):
    if d["target"] is not None and not m["t"].encode().startswith(d["target"].encode()):
        return False
    if d["span"] is not None and d["span"] != m["n"]:
        return False
    return all(n in m["f"] for n, _ in d["fields"])


def is_dynamic(d):
    return d["span"] is not None or bool(d["fields"])


def is_static(d):
    return d["span"] is None and not any(v is not None for _, v in d["fields"])


def env_tables(struct):
    stat_in = [d for d in struct if not is_dynamic(d)] + [d for d in struct if is_dynamic(d) and is_static(d)]
    statics = survivors([(d["target"], tuple(n for n, _ in d["fields"]), d["level"]) for d in stat_in], lambda e: (e[0], e[1]))
    dyn = survivors([d for d in struct if is_dynamic(d)],
                    lambda d: (d["target"], d["span"], tuple((n, None if v is None else (v[0], val_text(v))) for n, v in d["fields"])))
    return statics, dyn


# ------------------------------------------------------------------------------------------------ histories
HIST_VALUES = {
    # matcher text -> (spec, [recorded values that match], [near misses])
    False: [("true", ("bool", True), [{"b": True}], [{"b": False}, {"s": h("true")}]),
            ("false", ("bool", False), [{"b": False}], [{"b": True}]),
            ("1", ("u64", 1), [{"u": 1}, {"i": 1}], [{"u": 2}, {"d": h("1")}, {"f": 1.5}]),
            ("42", ("u64", 42), [{"u": 42}, {"i": 42}], [{"i": -42}, {"s": h("42")}]),
            ("18446744073709551615", ("u64", 2 ** 64 - 1), [{"u": 2 ** 64 - 1}], [{"i": -1}]),
            ("-7", ("i64", -7), [{"i": -7}], [{"u": 7}, {"i": 7}]),
            ("1.5", ("f64", 1.5), [{"f": 1.5}], [{"f": 0.25}, {"u": 1}]),
            ("abc", ("lit", "abc"), [{"d": h("abc")}], [{"d": h("ab")}, {"d": h("abcd")}, {"s": h("abc")}]),
            ('"bob"', ("lit", '"bob"'), [{"s": h("bob")}, {"d": h('"bob"')}], [{"s": h("bo")}, {"d": h('"bo')}, {"s": h("bobby")}]),
            ("1a", ("lit", "1a"), [{"d": h("1a")}], [{"d": h("1")}, {"d": h("1ab")}]),
            ("Some(3)", ("lit", "Some(3)"), [{"d": h("Some(3)")}], [{"d": h("Some(")}, {"d": h("Some(4)")}]),
            ('"al ice"', ("lit", '"al ice"'), [{"s": h("al ice")}], [{"s": h("al")}, {"s": h("alice")}])],
    True: [("true", ("bool", True), [{"b": True}], [{"b": False}]),
           ("7", ("u64", 7), [{"u": 7}, {"i": 7}], [{"u": 8}]),
           ("-42", ("i64", -42), [{"i": -42}], [{"u": 42}]),
           ("0.25", ("f64", 0.25), [{"f": 0.25}], [{"f": 1.5}]),
           ("a.*", ("pat", "a.*"), [{"s": h("abc")}, {"d": h("abc")}, {"s": h("a")}], [{"s": h("bca")}, {"d": h("x1")}]),
           ("[0-9]+", ("pat", "[0-9]+"), [{"s": h("12")}, {"d": h("12")}], [{"s": h("x1")}, {"d": h("1a")}]),
           ("ab|cd", ("pat", "ab|cd"), [{"s": h("cd")}, {"d": h("ab")}], [{"s": h("abc")}, {"s": h("bo")}]),
           ("abc", ("pat", "abc"), [{"s": h("abc")}, {"d": h("abc")}], [{"s": h("ab")}, {"d": h("abcd")}])],
}


def gen_hist_filter(rng, regex):
    """a directive list aimed at the harness's macro callsite pools (targets app / app::db / application / other / ab / a::b,
    span names sp / sq / bare, fields x / y)"""
    items = []
    for _ in range(rng.choice([1, 1, 2, 2, 3, 4])):
        if rng.random() < 0.2:
            items.append(gen_static_dir(rng))
            t, (tg, l) = items[-1]
            items[-1] = (t, {"target": tg, "span": None, "fields": [], "level": l})
            continue
        tg = rng.choice([None, None, "app", "app", "app::db", "a", "other", "application", "ap"])
        sp = rng.choice(["sp", "sp", "sq", "bare", None])
        fields = []
        if sp is None or rng.random() < 0.55:
            name = rng.choice(["x", "x", "y"])
            if rng.random() < 0.8:
                vt, vs, _, _ = rng.choice(HIST_VALUES[regex])
                fields.append((name, vt, vs))
            else:
                fields.append((name, None, None))
        txt = (tg or "") + "[" + (sp or "")
        if fields:
            txt += "{" + ",".join(n + ("=" + vt if vt is not None else "") for n, vt, _ in fields) + "}"
        txt += "]"
        if rng.random() < 0.85:
            l = rng.choice([1, 2, 3, 3, 4, 4, 5, 5])
            lt = rng.choice([LVN[l], LVN[l].upper(), str(l)])
            txt += "=" + lt
        else:
            l = 5
        items.append((txt, {"target": tg, "span": sp, "fields": [(n, vs) for n, _, vs in fields], "level": l}))
    if rng.random() < 0.3 and items:
        t, st = rng.choice(items)
        if "]" in t:
            l = rng.randint(0, 5)
            items.append((t[:t.rindex("]") + 1] + "=" + LVN[l], dict(st, level=l)))
    rng.shuffle(items)
    return ",".join(t for t, _ in items), [st for _, st in items]


def same_type_miss(rng, vs, good):
    """a value of the same Rust type as `good` (so it reaches the same Visit method and the same matcher arm) that does not match"""
    k, v = vs
    if "b" in good:
        return {"b": not good["b"]}
    if "u" in good:
        return {"u": (good["u"] + 1) % (2 ** 64) if good["u"] != 2 ** 64 - 1 else 3}
    if "i" in good:
        return {"i": good["i"] + 1 if good["i"] < 2 ** 62 else good["i"] - 1}
    if "f" in good:
        return {"f": good["f"] + 1.0}
    if "s" in good:
        return {"s": h("zz" + unh(good["s"])[:1] + "q")}
    return {"d": h("Zz(" + unh(good["d"])[:1])}


def gen_overwrite_history(rng, pools, regex):
    """Targeted at the per-field `matched` flags: on ONE span a matching value is recorded and later overwritten by a
    non-matching value of the same type (or the other way round), with or without an enter/exit in between; then the span is
    entered and events at the directive's level are probed.  -> (string, struct, ops)"""
    vt, vs, good, _bad = rng.choice(HIST_VALUES[regex])
    g = rng.choice(good)
    miss = same_type_miss(rng, vs, g)
    field = rng.choice(["x", "x", "y"])
    l = rng.choice([3, 4, 4, 5])
    tg = rng.choice([None, None, "app", "ap"])
    sp = rng.choice(["sp", "sp", "sq", None])
    txt = (tg or "") + "[" + (sp or "") + "{" + field + "=" + vt + "}]=" + rng.choice([LVN[l], LVN[l].upper(), str(l)])
    struct = [{"target": tg, "span": sp, "fields": [(field, vs)], "level": l}]
    if rng.random() < 0.5:
        st = rng.choice([1, 2])
        txt = rng.choice([txt + "," + LVN[st], LVN[st] + "," + txt])
        struct.append({"target": None, "span": None, "fields": [], "level": st})
    fit = [p for p in pools["spans"] if p[1].startswith(tg or "") and (sp is None or p[3] == sp) and LEVEL_BY_NAME[p[2]] <= 3]
    cs = rng.choice(fit or [p for p in pools["spans"] if p[1].startswith(tg or "") and (sp is None or p[3] == sp)])[0]
    probes = [e[0] for e in pools["events"] if LEVEL_BY_NAME[e[2]] == l] or [3]
    ev = lambda t=0: ["event", t, rng.choice(probes)]
    first, second = (g, miss) if rng.random() < 0.75 else (miss, g)
    at_creation = rng.random() < 0.5
    ops = [["span", 0, cs, 1, [[field, first]] if at_creation else []]]
    if not at_creation:
        ops.append(["record", 0, 1, [[field, first]]])
    if rng.random() < 0.5:                       # an enter / exit between the two records
        ops += [["enter", 0, 1], ev(), ["exit", 0, 1]]
    ops.append(["record", 0, 1, [[field, second]]])
    if rng.random() < 0.3:                       # a third record, of yet another type
        ops.append(["record", 0, 1, [[field, rng.choice([{"b": True}, {"u": 77}, {"s": h("other")}])]]])
    ops += [["enter", 0, 1], ev(), ev(1), ["exit", 0, 1], ev()]
    if rng.random() < 0.5:
        ops += [["enter", 0, 1], ev(), ["exit", 0, 1]]
    ops += [["drop", 0, 1], ev()]
    return txt, struct, ops


def gen_panic_history(rng, pools, regex):
    """A span whose field value's Debug impl PANICS while the filter builds its span match (creation unwinds; the harness
    catches it as an application would), followed by ordinary matching spans: the directive must keep working for them."""
    pats = [(t, vs, good) for t, vs, good, _ in HIST_VALUES[regex] if vs[0] in ("lit", "pat")]
    vt, vs, good = rng.choice(pats)
    field = rng.choice(["x", "x", "y"])
    l = rng.choice([3, 4, 4, 5])
    tg = rng.choice([None, None, "app", "ap"])
    sp = rng.choice(["sp", "sp", "sq", None])
    txt = (tg or "") + "[" + (sp or "") + "{" + field + "=" + vt + "}]=" + rng.choice([LVN[l], LVN[l].upper(), str(l)])
    struct = [{"target": tg, "span": sp, "fields": [(field, vs)], "level": l}]
    if rng.random() < 0.4:
        st = rng.choice([1, 2])
        txt = rng.choice([txt + "," + LVN[st], LVN[st] + "," + txt])
        struct.append({"target": None, "span": None, "fields": [], "level": st})
    fit = [p for p in pools["spans"] if p[1].startswith(tg or "") and (sp is None or p[3] == sp)]
    low = [p for p in fit if LEVEL_BY_NAME[p[2]] <= 3] or fit
    probes = [e[0] for e in pools["events"] if LEVEL_BY_NAME[e[2]] == l] or [3]
    ev = lambda t=0: ["event", t, rng.choice(probes)]
    ops = []
    nid = [0]

    def span(t, vals, pool=None):
        nid[0] += 1
        ops.append(["span", t, rng.choice(pool or low)[0], nid[0], vals])
        return nid[0]
    if rng.random() < 0.5:                        # an ordinary matching span first, left entered or not
        a = span(0, [[field, rng.choice(good)]])
        ops += [["enter", 0, a], ev(), ["exit", 0, a]]
    pt = rng.choice([0, 0, 1])
    span(pt, [[field, {"p": 1}]], pool=fit)      # creation unwinds if the filter formats the value
    ops.append(ev(pt))
    b = span(0, [[field, rng.choice(good)]])
    ops += [["enter", 0, b], ev(), ev(1), ["exit", 0, b], ev()]
    if rng.random() < 0.5:
        c = span(1, [])
        ops += [["record", 1, c, [[field, rng.choice(good)]]], ["enter", 1, c], ev(1), ["exit", 1, c], ev(1)]
    ops += [["drop", 0, b], ev()]
    return txt, struct, ops


def gen_history(rng, pools, struct, regex, wellnested=True, nthreads=2):
    """-> ops list (harness format).  Well-nested: per thread LIFO enter/exit, every enter exited, span handles dropped only
    when the span is not entered; values recorded at creation or later (also while entered)."""
    ops = []
    live = {}
    stacks = {t: [] for t in range(nthreads)}
    next_id = 1
    n = rng.randint(5, 16)
    dyn = [d for d in struct if is_dynamic(d)]
    table = {vs: (good, bad) for _, vs, good, bad in HIST_VALUES[regex]}

    def rand_val(field):
        cands = [vs for d in dyn for nme, vs in d["fields"] if nme == field and vs is not None and vs in table]
        r = rng.random()
        if cands and r < 0.8:
            good, bad = table[rng.choice(cands)]
            return rng.choice(good) if r < 0.55 else rng.choice(bad)
        _, _, good, bad = rng.choice(HIST_VALUES[regex])
        return rng.choice(good + bad)

    def pick_span():
        pool = pools["spans"]
        if dyn and rng.random() < 0.75:
            d = rng.choice(dyn)
            fit = [p for p in pool if (d["target"] is None or p[1].startswith(d["target"])) and (d["span"] is None or p[3] == d["span"])]
            if fit:
                return "span", rng.choice(fit)[0]
            fit0 = [p for p in pools["spans0"] if (d["target"] is None or p[1].startswith(d["target"])) and (d["span"] is None or p[3] == d["span"])]
            if fit0 and not d["fields"]:
                return "span0", rng.choice(fit0)[0]
        if rng.random() < 0.85:
            return "span", rng.choice(pool)[0]
        return "span0", rng.choice(pools["spans0"])[0]

    for _ in range(n):
        tid = rng.randrange(nthreads) if rng.random() < 0.3 else 0
        r = rng.random()
        if r < 0.2 or not live:
            kind, cs = pick_span()
            if kind == "span":
                vals = []
                for f in ("x", "y"):
                    if rng.random() < 0.5:
                        vals.append([f, rand_val(f)])
                ops.append(["span", tid, cs, next_id, vals])
            else:
                ops.append(["span0", tid, cs, next_id])
            live[next_id] = {"entered": 0}
            next_id += 1
        elif r < 0.4:
            sid = rng.choice(list(live))
            ops.append(["enter", tid, sid])
            stacks[tid].append(sid)
            live[sid]["entered"] += 1
        elif r < 0.52:
            if wellnested:
                if stacks[tid]:
                    sid = stacks[tid].pop()
                    ops.append(["exit", tid, sid])
                    live[sid]["entered"] -= 1
            else:
                sid = rng.choice(list(live))
                ops.append(["exit", tid, sid])
                if sid in stacks[tid]:
                    stacks[tid].reverse()
                    stacks[tid].remove(sid)
                    stacks[tid].reverse()
                    live[sid]["entered"] -= 1
        elif r < 0.64:
            sid = rng.choice(list(live))
            f = rng.choice(["x", "y"])
            ops.append(["record", tid, sid, [[f, rand_val(f)]]])
        elif r < 0.68:
            sid = rng.choice(list(live))
            if not wellnested or live[sid]["entered"] == 0:
                ops.append(["drop", tid, sid])
                del live[sid]
                if not wellnested:
                    for t in stacks:
                        stacks[t] = [x for x in stacks[t] if x != sid]
        else:
            if rng.random() < 0.9:
                ops.append(["event", tid, rng.choice(pools["events"])[0]])
            else:
                ops.append(["eventx", tid, rng.choice(pools["eventsx"])[0], rand_val("x")])
    # unwind, probing after every exit that nothing leaks
    if wellnested:
        for t in stacks:
            while stacks[t]:
                sid = stacks[t].pop()
                ops.append(["exit", t, sid])
                ops.append(["event", t, rng.choice(pools["events"])[0]])
    for t in range(nthreads):
        ops.append(["event", t, rng.choice([3, 4, 8, 9, 17, 18])])
    return ops


def hist_meta(op, pools):
    k = op[0]
    if k == "span":
        _, t, l, n = pools["spans"][op[2]]
        return {"t": t, "l": LEVEL_BY_NAME[l], "kind": "s", "n": n, "f": ["x", "y"]}, op[2]
    if k == "span0":
        _, t, l, n = pools["spans0"][op[2]]
        return {"t": t, "l": LEVEL_BY_NAME[l], "kind": "s", "n": n, "f": []}, 100 + op[2]
    if k == "event":
        _, t, l = pools["events"][op[2]]
        return {"t": t, "l": LEVEL_BY_NAME[l], "kind": "e", "n": "event ?", "f": ["message"]}, 1000 + op[2]
    if k == "eventx":
        _, t, l = pools["eventsx"][op[2]]
        return {"t": t, "l": LEVEL_BY_NAME[l], "kind": "e", "n": "event ?", "f": ["x"]}, 2000 + op[2]
    return None, None


def coq_rval(v):
    if "b" in v:
        return "(RBool %s)" % ("true" if v["b"] else "false")
    if "u" in v:
        return "(RU64 %d)" % v["u"]
    if "i" in v:
        return "(RI64 (%d)%%Z)" % v["i"]
    if "s" in v:
        return "(RStr %s)" % coq_bytes(bytes.fromhex(v["s"]))
    if "d" in v:
        return "(RDebug %s)" % coq_bytes(bytes.fromhex(v["d"]))
    if "p" in v:
        # a Debug impl that panics when formatted: where the creation did not unwind, nobody formatted it, i.e. no Debug
        # matcher looked at the field; any Debug text no generated matcher equals stands for it
        return "(RDebug %s)" % coq_bytes(b"<never formatted>")
    return None


def coq_vals(vals):
    out = []
    for n, v in vals:
        c = coq_rval(v)
        if c is None:
            return None
        out.append("(%s, %s)" % (coq_bytes(n.encode()), c))
    return "[" + "; ".join(out) + "]"


def coq_ops(ops, obs, pools):
    """Model ops for a history; the registry's close notifications observed in the run are replayed as OClose (a close that
    happens inside `exit` precedes the filter's on_exit)."""
    out = []
    for op, ob in zip(ops, obs):
        k = op[0]
        closes = ["OClose %d" % c for c in ob.get("closed", [])]
        if k in ("span", "span0"):
            m, cs = hist_meta(op, pools)
            vals = coq_vals(op[4]) if k == "span" else "[]"
            if vals is None:
                return None
            if ob.get("panicked"):
                out.append("OSpanAbort %d %d %s" % (op[1], cs, coq_meta(m)))       # creation unwound: nothing was stored
            else:
                out.append("OSpan %d %d %d %s %s" % (op[1], cs, op[3], coq_meta(m), vals))
            out += closes
        elif k == "record":
            vals = coq_vals(op[3])
            if vals is None:
                return None
            out.append("ORecord %d %s" % (op[2], vals))
        elif k == "enter":
            out.append("OEnter %d %d" % (op[1], op[2]))
        elif k == "exit":
            out += closes
            out.append("OExit %d %d" % (op[1], op[2]))
        elif k == "drop":
            out += closes
        elif k in ("event", "eventx"):
            m, cs = hist_meta(op, pools)
            out.append("OEvent %d %d %s" % (op[1], cs, coq_meta(m)))
    return "[" + "; ".join(out) + "]"


def spec_history(struct, ops, pools, regex, created):
    """Reference for a well-nested history: per span/event op the expected decision, or None where the property text does not decide.
    Returns list of dicts {'want': True|False|None, 'why': str, 'snap': bool (decision under enter-time snapshots),
    'prefix': bool (decision if Debug literals matched by prefix)}."""
    statics, dyn = env_tables(struct)
    spans = {}      # id -> {'meta', 'vals': [(name, rv, seq)], 'alive'}
    stacks = {}     # tid -> [(id, seq at enter)]
    seq = 0
    res = []

    def matched(d, sp, upto=None, prefix=False):
        for n, vs in d["fields"]:
            if vs is None:
                continue
            if not any(nm == n and (upto is None or s <= upto) and value_matches(vs, rv, prefix=prefix) for nm, rv, s in sp["vals"]):
                return False
        return True

    def scope_level(tid, snap, prefix):
        best = 0
        for sid, at in stacks.get(tid, []):
            sp = spans.get(sid)
            if sp is None:
                continue
            for d in dyn:
                if dyn_cares(d, sp["meta"]) and matched(d, sp, at if snap else None, prefix):
                    best = max(best, d["level"])
        return best

    for opi, op in enumerate(ops):
        seq += 1
        k = op[0]
        if k in ("span", "span0", "event", "eventx"):
            m, _ = hist_meta(op, pools)
            tid = op[1]
            st, _w = best_static(statics, m)
            # static field-name directives on spans: the text does not say whether `t[{x}]` speaks about spans
            vague = st is None or (m["kind"] == "s" and any(fs for (t, fs, l) in statics if t is None or m["t"].encode().startswith(t.encode())))
            row = {}
            for name, snap, prefix in (("want", False, False), ("snap", True, False), ("prefix", False, True), ("snap_prefix", True, True)):
                row[name] = bool(st) or m["l"] <= scope_level(tid, snap, prefix)
            row["self"] = None
            if k in ("span", "span0"):
                caring = [d for d in dyn if dyn_cares(d, m)]
                sp_tmp = {"meta": m, "vals": [(n, v, seq) for n, v in (op[4] if k == "span" else []) if v is not None]}
                full = [d for d in caring if matched(d, sp_tmp) and m["l"] <= d["level"]]
                row["self"] = "must" if full else ("may" if caring else "no")
                row["self_level_ok"] = any(m["l"] <= d["level"] for d in caring)
            row["vague"] = vague
            res.append(row)
            if k in ("span", "span0") and created[opi]:        # a span the filter disabled does not exist
                spans[op[3]] = {"meta": m, "vals": [(n, v, seq) for n, v in (op[4] if k == "span" else [])]}
        else:
            res.append(None)
            if k == "record" and op[2] in spans:
                for n, v in op[3]:
                    spans[op[2]]["vals"].append((n, v, seq))
            elif k == "enter" and op[2] in spans:
                stacks.setdefault(op[1], []).append((op[2], seq))
            elif k == "exit" and op[2] in spans:
                s = stacks.get(op[1], [])
                for i in range(len(s) - 1, -1, -1):
                    if s[i][0] == op[2]:
                        del s[i]
                        break
            elif k == "drop":
                pass
    return res


# ------------------------------------------------------------------------------------------------ running the harness
def run_harness(path, lines, timeout=900):
    p = subprocess.run([path], input="\n".join(json.dumps(l) for l in lines) + "\n", stdout=subprocess.PIPE,
                       stderr=subprocess.DEVNULL, timeout=timeout, text=True)
    out = [json.loads(l) for l in p.stdout.splitlines() if l.startswith("{")]
    return p.returncode, out


def chunks(l, n):
    for i in range(0, len(l), n):
        yield i, l[i:i + n]


def is_commonish(s):
    """modelled subset check for sending a Targets string to EnvFilter as well"""
    return True


def run(ctx):
    rep = Report(ctx)
    rng = ctx.rng
    rep.rule = ("cases = directive strings from a grammar-based generator (targets with :: paths and shared prefixes a/ab/a::b/app/application, "
                "levels by name in any case or digit, bare level / bare target, field-name lists, span names, value matchers, duplicates and "
                "conflicting entries shuffled) + a malformed stream (fixed list + 1-3 character mutations), each evaluated on a pool of "
                "hand-built metadata, in the default build and again in a build of `tracing` with the compile-time cap max_level_info (filters must not depend on it); span histories through the real macros on 1-3 threads.  non-trivial = a (string, metadata) pair where "
                ">= 2 surviving directives with targets in prefix relation both match the metadata, or a history op decided by an entered "
                "span's directive; distinct = distinct (string, metadata) / (string, history, op index)")
    rep.trusted_base = [
        "Coq 8.16.1 kernel + vm_compute", "translators/directive.py + rsparse.py (shape of DirectiveSet::add and MatchDebug::debug_matches, regex texts; fails closed)",
        "harness h_directive.rs (hand-built metadata, probe wrappers that only forward and log)",
        "std: slice::binary_search on a vector sorted by a total order (modelled as a linear search), str::split / strip_suffix / starts_with, integer FromStr",
        "the `regex` crate: the model's recogniser of the three directive regexes is hand-derived (pinned texts) and tied by the correspondence only",
        "Python oracle (reference semantics written from the property text)"]
    rep.assumptions = [
        "directive strings are valid UTF-8; EnvFilter directives outside ASCII, with a comma inside a field list, float-looking values or regex patterns are outside the model (PUnmodelled): correspondence skips them, the oracle still checks them",
        "field names in a callsite's FieldSet are distinct", "sequentially consistent execution; histories are driven one op at a time",
        "value matchers in theorems: bool / u64 / i64 / Debug literal; floats and regex patterns by correspondence+oracle only",
        "the registry reports a span closed when its handle is dropped and it is not entered (C05); observed close notifications are replayed into the model"]
    # ---- leg B1: translator
    text, unrec = directive_tr.main(ctx.repo, None)
    gen_if_changed(os.path.join(vlib.COQ, "gen", "Gen_directive.v"), text)
    rep.tie("translator:Gen_directive", not unrec, "; ".join(unrec[:3]), unrec[:1] or None)
    fixed_f21 = "gen_add_recomputes_max : bool := true" in text
    fixed_f25 = "gen_debug_match_exact : bool := true" in text
    fixed_f22 = "gen_valuematch_eq_debug : bool := true" in text
    # ---- leg A
    rep.proof = coq_prove(ctx, "C11", ["theories/Properties/C11.vo"])
    # ---- build
    builds = [False] + ([True] if ctx.thorough() else [])
    bins = {}
    for rel in builds:
        ok, paths, log = cargo_build(ctx, "directive", ["h_directive"], release=rel)
        if not ok:
            rep.tie("build:h_directive" + ("-release" if rel else ""), False, vlib.last_error(log))
            return rep
        bins["release" if rel else "debug"] = paths["h_directive"]
    # the same harness against `tracing` with the compile-time cap max_level_info: filters must not depend on the cap
    ok, paths, log = cargo_build(ctx, "directive_static", ["h_directive_static"], release=False)
    if not ok:
        rep.tie("build:h_directive_static", False, vlib.last_error(log))
        return rep
    static_bin = paths["h_directive_static"]
    rc, out = run_harness(static_bin, [{"k": "static_max"}])
    cap = out[0].get("level") if (rc == 0 and out) else None
    rep.tie("build:h_directive_static has STATIC_MAX_LEVEL = INFO", cap == 3, "STATIC_MAX_LEVEL code %r (3 = info)" % (cap,), None if cap == 3 else {"cap": cap})
    rc, out = run_harness(bins["debug"], [{"k": "static_max"}])
    cap0 = out[0].get("level") if (rc == 0 and out) else None
    rep.tie("build:h_directive has no static cap", cap0 == 5, "STATIC_MAX_LEVEL code %r (5 = trace)" % (cap0,), None if cap0 == 5 else {"cap": cap0})
    rc, out = run_harness(bins["debug"], [{"k": "pools"}])
    if rc != 0 or not out:
        rep.tie("run:h_directive", False, "pools rc=%d" % rc)
        return rep
    pools = out[0]

    # ---- cases
    scale = 4 if ctx.thorough() else 1
    cases = []
    cid = [0]

    def add(c):
        cid[0] += 1
        c["id"] = cid[0]
        cases.append(c)
        return c

    # corpus / replay first
    extra = []
    if ctx.replay:
        rp = json.load(open(ctx.replay))
        extra = [rp["case"]["case"]] if "case" in rp.get("case", {}) else []
    cdir = os.path.join(vlib.VERIF, "corpus", "C11")
    if os.path.isdir(cdir):
        for f in sorted(os.listdir(cdir)):
            if f.endswith(".jsonl"):
                for l in open(os.path.join(cdir, f)):
                    if l.strip() and not l.startswith("#"):
                        extra.append(json.loads(l))
    for c in extra:
        add(norm_case(dict(c, origin="corpus")))
    pool_metas, pool_targets = make_pool(rng)
    if not ctx.replay:
        for _ in range(350 * scale):
            s, st = gen_static_list(rng, levelish=0.02)
            add({"k": "targets", "s": s, "struct": st, "common": True})
        for _ in range(80 * scale):
            n = rng.randint(1, 6)
            ent = [[(gen_target(rng) if rng.random() < 0.8 else None), rng.randint(0, 5)] for _ in range(n)]
            if rng.random() < 0.5:
                ent.append([ent[0][0], rng.randint(0, 5)])
            add({"k": "tapi", "entries": ent})
        for _ in range(300 * scale):
            regex = rng.random() < 0.5
            s, st = gen_env_list(rng, regex)
            add({"k": "env", "s": s, "struct": st, "regex": regex, "lossy": False})
        for s in FIXED_MALFORMED:
            add({"k": "targets", "s": s, "struct": None, "common": False, "malformed": True})
            add({"k": "env", "s": s, "struct": None, "regex": False, "lossy": False, "malformed": True})
            add({"k": "env", "s": s, "struct": None, "regex": True, "lossy": True, "malformed": True})
        for _ in range(250 * scale):
            if rng.random() < 0.5:
                s, _ = gen_static_list(rng, levelish=0.05)
            else:
                s, _ = gen_env_list(rng, False)
            s = mutate(rng, s)
            add({"k": "targets", "s": s, "struct": None, "common": False, "malformed": True})
            add({"k": "env", "s": s, "struct": None, "regex": rng.random() < 0.3, "lossy": rng.random() < 0.3, "malformed": True})
        for i in range(260 * scale):
            regex = rng.random() < 0.4
            s, st = gen_hist_filter(rng, regex)
            wn = rng.random() < 0.8
            ops = gen_history(rng, pools, st, regex, wellnested=wn, nthreads=rng.choice([1, 2, 2, 3]))
            add({"k": "hist", "s": s, "struct": st, "regex": regex, "cfg": ["probe", "plain", "filter"][i % 3], "ops": ops, "wellnested": wn})
        for i in range(60 * scale):
            regex = rng.random() < 0.4
            s, st, ops = gen_overwrite_history(rng, pools, regex)
            add({"k": "hist", "s": s, "struct": st, "regex": regex, "cfg": ["probe", "plain", "filter"][i % 3], "ops": ops, "wellnested": True,
                 "overwrite": True})
        for i in range(40 * scale):
            regex = rng.random() < 0.4
            s, st, ops = gen_panic_history(rng, pools, regex)
            add({"k": "hist", "s": s, "struct": st, "regex": regex, "cfg": ["probe", "plain", "filter"][i % 3], "ops": ops, "wellnested": True,
                 "panicval": True})
    ctx.log("generated %d cases" % len(cases))

    # ---- implementation run(s)
    def harness_lines():
        lines = [{"k": "pool", "metas": [dict(m, t=h(m["t"]), n=h(m["n"]), f=[h(f) for f in m["f"]]) for m in pool_metas],
                  "targets": [h(t) for t in pool_targets]}]
        for c in cases:
            if c["k"] == "targets":
                lines.append({"k": "targets", "id": c["id"], "s": h(c["s"])})
                if c.get("common"):
                    lines.append({"k": "env", "id": -c["id"], "s": h(c["s"]), "regex": True, "lossy": False})
            elif c["k"] == "tapi":
                lines.append({"k": "tapi", "id": c["id"], "entries": [[None if t is None else h(t), l] for t, l in c["entries"]]})
            elif c["k"] == "env":
                lines.append({"k": "env", "id": c["id"], "s": h(c["s"]), "regex": c["regex"], "lossy": c["lossy"]})
            elif c["k"] == "hist":
                lines.append({"k": "hist", "id": c["id"], "s": h(c["s"]), "regex": c["regex"], "cfg": c["cfg"], "ops": c["ops"]})
        return lines

    lines = harness_lines()
    if os.environ.get("C11_DUMP"):
        with open(os.environ["C11_DUMP"], "w") as f:
            f.write("\n".join(json.dumps(l) for l in lines) + "\n")
    impl = {}
    for prof, path in bins.items():
        rc, out = run_harness(path, lines)
        if rc != 0:
            rep.tie("run:h_directive:" + prof, False, "rc=%d" % rc)
            return rep
        impl[prof] = {r["id"]: r for r in out if "id" in r and r.get("k") != "pool"}
        missing = [l["id"] for l in lines if "id" in l and l["id"] not in impl[prof]]
        if missing:
            rep.tie("run:h_directive:" + prof, False, "no output for %d cases" % len(missing), {"ids": missing[:5]})
            return rep

    # static-cap build: the probing cases only (the macro callsites of the history cases are what the cap removes)
    slines = [l for l in lines if l.get("k") != "hist"]
    rc, out = run_harness(static_bin, slines)
    if rc != 0:
        rep.tie("run:h_directive_static", False, "rc=%d" % rc)
        return rep
    impl["static-info"] = {r["id"]: r for r in out if "id" in r and r.get("k") != "pool"}
    missing = [l["id"] for l in slines if "id" in l and l["id"] not in impl["static-info"]]
    if missing:
        rep.tie("run:h_directive_static", False, "no output for %d cases" % len(missing), {"ids": missing[:5]})
        return rep

    # ---- model evaluation
    model = None
    try:
        prelude = "Definition pool : list meta := [%s].\nDefinition tpool : list bytes := [%s].\n" % (
            ";\n ".join(coq_meta(m) for m in pool_metas), "; ".join(coq_bytes(t.encode()) for t in pool_targets))
        prelude += ("Definition tapi (es : list (option bytes * option lv)) := fold_left (fun t e => match fst e with Some x => with_target t x (snd e) "
                    "| None => with_default t (snd e) end) es ds_empty.\n"
                    "Definition run_tapi es := let t := tapi es in let d := display_targets t in "
                    "(d, enc_lf (targets_hint t), match parse_targets d with Some t2 => if targets_eqb t t2 then 1 else 0 | None => 2 end, "
                    "map (fun m => enc_b (targets_enabled t m)) pool, flat_map (fun tg => map (fun l => enc_b (would_enable t tg l)) all_lv_list) tpool).\n")
        terms = []
        tcs = [c for c in cases if c["k"] == "targets"]
        for i, ch in chunks(tcs, 60):
            terms.append(("T%d" % i, "map (fun s => run_targets s pool tpool) [%s]" % "; ".join(coq_bytes(c["s"].encode()) for c in ch)))
        for i, ch in chunks([c for c in tcs if c.get("common")], 60):
            terms.append(("TE%d" % i, "map (fun s => run_env true false s pool) [%s]" % "; ".join(coq_bytes(c["s"].encode()) for c in ch)))
        acs = [c for c in cases if c["k"] == "tapi"]
        for i, ch in chunks(acs, 60):
            terms.append(("A%d" % i, "map run_tapi [%s]" % "; ".join(
                "[" + "; ".join("(%s, %s)" % ("None" if t is None else "Some " + coq_bytes(t.encode()), "None" if l == 0 else "Some " + LV_COQ[l])
                                for t, l in c["entries"]) + "]" for c in ch)))
        ecs = [c for c in cases if c["k"] == "env"]
        for i, ch in chunks(ecs, 60):
            terms.append(("E%d" % i, "map (fun c => run_env (fst (fst c)) (snd (fst c)) (snd c) pool) [%s]" % "; ".join(
                "(%s, %s, %s)" % ("true" if c["regex"] else "false", "true" if c["lossy"] else "false", coq_bytes(c["s"].encode())) for c in ch)))
        pcs = [c for c in cases if c["k"] in ("env", "hist")]
        for i, ch in chunks(pcs, 150):
            terms.append(("P%d" % i, "map (fun c => run_env_panics (fst (fst c)) (snd (fst c)) (snd c)) [%s]" % "; ".join(
                "(%s, %s, %s)" % ("true" if c["regex"] else "false", "true" if c.get("lossy") else "false", coq_bytes(c["s"].encode())) for c in ch)))
        hcs = [c for c in cases if c["k"] == "hist"]
        hmod = []
        for c in hcs:
            r = impl["debug"][c["id"]]
            if not r.get("ok") or r.get("panic"):
                c["coq_ops"] = None
                continue
            c["coq_ops"] = coq_ops(c["ops"], r["obs"], pools)
            if c["coq_ops"] is not None:
                hmod.append(c)
        for i, ch in chunks(hmod, 40):
            terms.append(("H%d" % i, "map (fun c => run_env_history (fst (fst c)) (snd (fst c)) (snd c)) [%s]" % "; ".join(
                "(%s, %s, %s)" % ("true" if c["regex"] else "false", coq_bytes(c["s"].encode()), c["coq_ops"]) for c in ch)))
        res = coq_eval(ctx, "From TV Require Import Directive.Model.\nLocal Open Scope N_scope.", terms, prelude=prelude, tag="c11cases")
        model = {}
        for i, ch in chunks(tcs, 60):
            for c, r in zip(ch, res["T%d" % i]):
                model[c["id"]] = r
        for i, ch in chunks([c for c in tcs if c.get("common")], 60):
            for c, r in zip(ch, res["TE%d" % i]):
                model[-c["id"]] = r
        for i, ch in chunks(acs, 60):
            for c, r in zip(ch, res["A%d" % i]):
                model[c["id"]] = r
        for i, ch in chunks(ecs, 60):
            for c, r in zip(ch, res["E%d" % i]):
                model[c["id"]] = r
        for i, ch in chunks(hmod, 40):
            for c, r in zip(ch, res["H%d" % i]):
                model[c["id"]] = r
        for i, ch in chunks(pcs, 150):
            for c, r in zip(ch, res["P%d" % i]):
                model[("panic", c["id"])] = r
    except Exception as ex:
        rep.tie("model-eval", False, str(ex)[:400])
        model = None

    # ---- correspondence + oracle
    for prof in impl:
        disagree = []
        skipped = 0

        def dis(c, what, iv, mv):
            disagree.append({"case": {k: c[k] for k in c if k in ("k", "s", "entries", "regex", "lossy", "cfg", "ops")}, "what": what, "impl": iv, "model": mv})

        dbg_build = prof in ("debug", "static-info")      # debug assertions on
        for c in cases:
            k = c["k"]
            if prof == "static-info" and k == "hist":
                continue
            r = impl[prof][c["id"]]
            if prof == "static-info":
                rep.count("case:static-cap-build:" + k)
            else:
                rep.count("case:" + k + (":malformed" if c.get("malformed") else "") + (":overwrite" if c.get("overwrite") else "") + (":panicking-debug" if c.get("panicval") else ""))
            if k in ("targets", "tapi"):
                check_targets(rep, c, r, pool_metas, pool_targets, prof, fixed_f21)
                if model is not None:
                    mv = model.get(c["id"])
                    if k == "targets" and (mv is None) != (not r.get("ok")):
                        dis(c, "parse ok/err", r.get("ok"), mv is not None)
                    elif r.get("ok"):
                        if k == "targets":
                            mv = mv[1]
                        md, mh, mrt, men, mw = mv
                        for what, iv, m_ in (("display", list(bytes.fromhex(r["display"])), md), ("hint", r["hint"], mh), ("hint_f", r["hint_f"], mh),
                                             ("roundtrip", {1: 1, 0: 0, 2: 2}[r["rt"]], mrt), ("Subscribe::enabled", r["en_sub"], men),
                                             ("Filter::enabled", r["en_filt"], men), ("would_enable", r["would"], mw),
                                             ("interest", r["interest"], [2 * x for x in men]), ("interest_f", r["interest_f"], [2 * x for x in men])):
                            if iv != m_:
                                dis(c, what, iv, m_)
                                break
                    rep.traces_validated += 1
                if k == "targets" and c.get("common"):
                    re_ = impl[prof][-c["id"]]
                    check_agree(rep, c, r, re_, pool_metas, prof)
                    if model is not None:
                        cmp_env(dis, c, re_, model.get(-c["id"]), True)
            elif k == "env":
                if model is not None:
                    mp = model.get(("panic", c["id"]))
                    want_panic = (mp == 1 and dbg_build)
                    if mp in (0, 1) and bool(r.get("panic")) != want_panic:
                        dis(c, "panic while building the filter (debug assertion in Directive::cmp)", bool(r.get("panic")), want_panic)
                if r.get("panic"):
                    dup = c.get("struct") and has_dup_lit(c["struct"])
                    # F22's shape: two directives with the same target, span and field matchers, one a Debug literal.  For a string
                    # without a generator structure the model's parse decides (run_env_panics = the assertion fires on such a pair)
                    model_dup = model is not None and model.get(("panic", c["id"])) == 1
                    f22 = (not fixed_f22) and (not c["regex"]) and dbg_build and (dup or (c.get("malformed") and (model_dup or dup_lit_text(c["s"]))))
                    rep.violation("EnvFilter parse of %r (regex=%s) panicked [%s build]" % (c["s"], c["regex"], prof),
                                  {"case": strip_case(c), "profile": prof}, finding="F22" if f22 else None)
                    continue
                check_env(rep, c, r, pool_metas, prof, fixed_f21)
                if model is not None:
                    if cmp_env(dis, c, r, model.get(c["id"]), False) == "skip":
                        skipped += 1
                    else:
                        rep.traces_validated += 1
            elif k == "hist":
                if model is not None:
                    mp = model.get(("panic", c["id"]))
                    want_panic = (mp == 1 and prof == "debug")
                    if mp in (0, 1) and bool(r.get("panic")) != want_panic:
                        dis(c, "panic while building the filter (debug assertion in Directive::cmp)", bool(r.get("panic")), want_panic)
                if r.get("panic"):
                    dup = has_dup_lit(c["struct"])
                    rep.violation("EnvFilter parse of %r (regex=%s) panicked [%s build]" % (c["s"], c["regex"], prof),
                                  {"case": strip_case(c), "profile": prof},
                                  finding="F22" if (dup and not c["regex"] and prof == "debug" and not fixed_f22) else None)
                    continue
                check_hist(rep, c, r, pools, prof, fixed_f25)
                if model is not None and prof == "debug":
                    mv = model.get(c["id"])
                    if mv is None or mv[0] == 0:
                        skipped += 1
                    elif (mv[0] == 2) != bool(r.get("ok")):
                        dis(c, "parse ok/err", r.get("ok"), mv[0])
                    elif r.get("ok"):
                        want = mv[2] if c["cfg"] == "plain" else mv[1]
                        # model observations are per model op; keep those of span/event ops
                        mo = [x for x in want if x != 2]
                        io = []
                        for op, ob in zip(c["ops"], r["obs"]):
                            if op[0] in ("span", "span0", "event", "eventx"):
                                io.append(int(ob["delivered"]) if c["cfg"] == "plain" else (-1 if ob["en"] is None else int(ob["en"])))
                        if io != mo:
                            idx = next((i for i, (a, b) in enumerate(zip(io, mo)) if a != b), None)
                            dis(c, "history observations (first differing span/event op #%s)" % idx, io, mo)
                        rep.traces_validated += 1
        if model is not None:
            rep.tie("correspondence:" + prof, not disagree, "%d disagreements, %d cases outside the model (skipped)" % (len(disagree), skipped),
                    disagree[:1] or None)
            rep.count("unmodelled-skipped:" + prof, skipped)
    rep.samples = [{"targets": "app=info,application=off", "meta": "application/INFO", "enabled": False},
                   {"env": "[sp{x=1}]=debug", "history": "span sp x=1; enter; debug event; exit; debug event", "obs": [True, True, False]},
                   {"cases": len(cases), "pool": len(pool_metas)}]
    return rep


def norm_case(c):
    """JSON round trip turns tuples into lists; the oracle wants tuples"""
    st = c.get("struct")
    if st is None:
        return c
    if c["k"] == "targets":
        c["struct"] = [(t, l) for t, l in st]
    else:
        c["struct"] = [dict(d, fields=[(n, None if v is None else (v[0], v[1])) for n, v in d["fields"]]) for d in st]
    return c


def strip_case(c):
    return {k: v for k, v in c.items() if k not in ("coq_ops", "id")}


def has_dup_lit(struct):
    seen = set()
    for d in struct or []:
        key = (d["target"], d["span"], tuple((n, None if v is None else (v[0], val_text(v))) for n, v in d["fields"]))
        if any(v is not None and v[0] == "lit" for _, v in d["fields"]):
            if key in seen:
                return True
            seen.add(key)
    return False


def dup_lit_text(s):
    ps = [p.split("]")[0] for p in s.split(",") if "{" in p and "=" in p.split("{", 1)[1]]
    return len(ps) != len(set(ps))


def viol(rep, what, c, r, prof, finding=None, **kw):
    rep.violation(what + " [%s build]" % prof, dict({"case": strip_case(c), "profile": prof}, **kw), finding=finding)


def stale_max(entries, key, level):
    """F21's shape: some replaced (non-surviving) entry had a level above every survivor's."""
    surv = survivors(entries, key)
    top = max([level(e) for e in surv] or [0])
    return any(level(e) > top for e in entries)


def check_targets(rep, c, r, pool_metas, pool_targets, prof, fixed_f21):
    """Oracle for a Targets case."""
    st = c.get("struct")
    if c["k"] == "tapi":
        st = [(t, l) for t, l in c["entries"]]
    if not r.get("ok"):
        if st is not None and not r.get("panic") and c["k"] == "targets":
            viol(rep, "Targets rejected %r, a string of the documented grammar: %s" % (c["s"], r.get("err")), c, r, prof)
        if r.get("panic"):
            viol(rep, "Targets panicked on %r" % c.get("s"), c, r, prof)
        return
    disp = unh(r["display"])
    # read the directive list back through iter() / default_level() (no field lists there) or Display
    back = [(unh(t), l) for t, l in r["iter"]] + ([(None, r["default"])] if r["default"] >= 0 else [])
    pd = parse_display(disp)
    has_fields = pd is None or any(d["fields"] or d["span"] for d in pd)
    if st is not None:
        want = sorted(survivors(st, lambda e: e[0]), key=lambda e: (e[0] is not None, e[0] or ""))
        got = sorted(back, key=lambda e: (e[0] is not None, e[0] or ""))
        if want != got:
            viol(rep, "Targets %r holds %s, expected the last entry per target: %s" % (c.get("s", c.get("entries")), got, want), c, r, prof)
        if pd is None or sorted([(d["target"], d["level"]) for d in pd], key=lambda e: (e[0] is not None, e[0] or "")) != want:
            viol(rep, "Display of Targets %r is %r, which does not denote %s" % (c.get("s", c.get("entries")), disp, want), c, r, prof)
    dirs = [(t, (), l) for t, l in back]
    if not has_fields:
        for i, m in enumerate(pool_metas):
            rep.evaluations += 1
            want, w = best_static(dirs, m)
            if want is None:
                continue
            matching = [d for d in dirs if d[0] is not None and m["t"].encode().startswith(d[0].encode())]
            if len(set(d[0] for d in matching)) >= 2:
                rep.nontrivial.add(("t", c.get("s", str(c.get("entries"))), i))
            for name, got in (("Subscribe::enabled", r["en_sub"][i]), ("Filter::enabled", r["en_filt"][i])):
                if got != int(want):
                    viol(rep, "%s of Targets %r on target=%r level=%s is %s; the most specific matching directive %s says %s" % (
                        name, disp, m["t"], LVN[m["l"]], bool(got), w, want), c, r, prof, meta=m)
            if r["interest"][i] != 2 * int(want) or r["interest_f"][i] != 2 * int(want):
                viol(rep, "register_callsite/callsite_enabled of Targets %r on target=%r level=%s is %s/%s, filtering says %s" % (
                    disp, m["t"], LVN[m["l"]], r["interest"][i], r["interest_f"][i], want), c, r, prof, meta=m)
        j = 0
        for tg in pool_targets:
            for l in range(1, 6):
                want, w = best_static(dirs, {"t": tg, "l": l, "kind": "e", "f": []})
                rep.evaluations += 1
                if want is not None and r["would"][j] != int(want):
                    viol(rep, "would_enable(%r, %s) of Targets %r is %s, filtering decides %s (%s)" % (tg, LVN[l], disp, bool(r["would"][j]), want, w), c, r, prof)
                j += 1
    if has_fields:
        # "would_enable agrees with actual filtering" where the question would_enable can express exists at all: it is asked
        # about (target, level) only, i.e. about metadata WITHOUT fields; a directive with a field list never matches such
        # metadata, whatever else the string contains.  Compared with what the very same Targets value decided, in this run, for
        # the field-less pool metadata of that target and level (no specification in between).  (Seeded C11-I.)
        tix = {tg: k for k, tg in enumerate(pool_targets)}
        for i, m in enumerate(pool_metas):
            if m.get("f") or m.get("kind") != "e" or m["t"] not in tix or not (1 <= m["l"] <= 5):     # events only: for SPAN metadata the code skips the field-name test (C11_would_enable_fieldless_event)
                continue
            j = tix[m["t"]] * 5 + (m["l"] - 1)
            rep.evaluations += 1
            rep.nontrivial.add(("tw", c.get("s", str(c.get("entries"))), i))
            if r["would"][j] != r["en_sub"][i]:
                viol(rep, "would_enable(%r, %s) of Targets %r is %s, but the same filter %s a field-less %s with that target and level" % (
                    m["t"], LVN[m["l"]], disp, bool(r["would"][j]), "enables" if r["en_sub"][i] else "rejects",
                    "event"), c, r, prof, meta=m)
    # round trip (documented grammar only: no field lists, no '[{' inside a bare target)
    if st is not None or (not has_fields and "[{" not in disp):
        if r["rt"] != 1:
            f21 = (not fixed_f21) and r["rt"] == 0 and r["rt_display"] == r["display"] and r["rt_hint"] < r["hint"] and \
                (st is None or stale_max(st, lambda e: e[0], lambda e: e[1]))
            viol(rep, "Targets %r displays as %r, which parses back to a different filter (rt=%s, hint %s -> %s)" % (
                c.get("s", c.get("entries")), disp, r["rt"], r["hint"], r["rt_hint"]), c, r, prof, finding="F21" if f21 else None)
        if st is not None:
            top = max([l for _, l in survivors(st, lambda e: e[0])] or [0])
            if r["hint"] < top:
                viol(rep, "Targets %r: max_level_hint %s is below a directive's level %s" % (disp, r["hint"], top), c, r, prof)


def levelish(t):
    return t is not None and (t.lower() in LVN or (t.isdigit() and t.isascii() and int(t) <= 5))


def check_agree(rep, c, rt, re_, pool_metas, prof):
    """Targets and EnvFilter on a string of the common grammar."""
    if not rt.get("ok") or not re_.get("ok"):
        if re_.get("panic") or rt.get("panic"):
            return
        viol(rep, "common-grammar string %r: Targets ok=%s, EnvFilter ok=%s" % (c["s"], rt.get("ok"), re_.get("ok")), c, rt, prof)
        return
    f23 = any(levelish(t) for t, _ in c["struct"])
    for i, m in enumerate(pool_metas):
        rep.evaluations += 1
        if rt["en_sub"][i] != re_["en"][i]:
            viol(rep, "Targets and EnvFilter disagree on %r for target=%r level=%s kind=%s: %s vs %s" % (
                c["s"], m["t"], LVN[m["l"]], m["kind"], bool(rt["en_sub"][i]), bool(re_["en"][i])), c, rt, prof, finding="F23" if f23 else None, meta=m)
            break


def check_env(rep, c, r, pool_metas, prof, fixed_f21):
    st = c.get("struct")
    if not r.get("ok"):
        if st is not None and not (c["regex"] and any(v is not None and v[0] == "pat" for d in st for _, v in d["fields"])):
            viol(rep, "EnvFilter rejected %r, a string of the documented grammar: %s" % (c["s"], r.get("err")), c, r, prof)
        return
    disp = unh(r["display"])
    pd = parse_display(disp)
    if st is not None:
        statics, dyn = env_tables(st)
        want = sorted([(t, None, tuple((n, None) for n in fs), l) for t, fs, l in statics] +
                      [(d["target"], d["span"], tuple((n, None if v is None else canon_val(v)) for n, v in d["fields"]), d["level"]) for d in dyn], key=repr)
        got = None if pd is None else sorted([(d["target"], d["span"], tuple((n, None if v is None else canon_text(v)) for n, v in d["fields"]), d["level"]) for d in pd], key=repr)
        if want != got:
            viol(rep, "Display of EnvFilter %r is %r, which does not denote the surviving directives %s" % (c["s"], disp, want), c, r, prof)
        # decisions in a fresh state
        for i, m in enumerate(pool_metas):
            rep.evaluations += 1
            sdec, w = best_static(statics, m)
            if sdec is None:
                continue
            if m["kind"] != "s":
                want_en = sdec
                if len(set(d[0] for d in statics if d[0] is not None and m["t"].encode().startswith(d[0].encode()))) >= 2:
                    rep.nontrivial.add(("e", c["s"], i))
            else:
                if any(fs for (t, fs, l) in statics if t is None or m["t"].encode().startswith(t.encode())):
                    continue        # `t[{x}]` on a span: not decided by the text
                caring = [d for d in dyn if dyn_cares(d, m)]
                want_en = sdec or any(m["l"] <= d["level"] for d in caring)
            for name, got_en in (("Subscribe::enabled", r["en"][i]), ("Filter::enabled", r["en_f"][i])):
                if got_en != int(want_en):
                    f12 = m["kind"] == "s" and got_en == 1 and bool([d for d in dyn if dyn_cares(d, m)])
                    viol(rep, "%s of EnvFilter %r on target=%r level=%s kind=%s name=%r fields=%s is %s, expected %s (static: %s)" % (
                        name, disp, m["t"], LVN[m["l"]], m["kind"], m["n"], m["f"], bool(got_en), want_en, w), c, r, prof,
                        finding="F12" if f12 else None, meta=m)
                    break
    # round trip
    rt = r["rt"]
    if st is not None or not c.get("malformed"):
        if not rt.get("ok"):
            viol(rep, "EnvFilter %r displays as %r, which does not parse: %s" % (c["s"], disp, rt.get("err")), c, r, prof)
        else:
            stale = False
            if st is not None:
                statics, dyn = env_tables(st)
                stat_in = [d for d in st if not is_dynamic(d)] + [d for d in st if is_dynamic(d) and is_static(d)]
                dkey = lambda d: (d["target"], d["span"], tuple((n, None if v is None else (v[0], val_text(v))) for n, v in d["fields"]))
                stale = stale_max(stat_in, lambda d: (d["target"], tuple(n for n, _ in d["fields"])), lambda d: d["level"]) or \
                    stale_max([d for d in st if is_dynamic(d)], dkey, lambda d: d["level"])
            if rt["display"] != r["display"]:
                viol(rep, "EnvFilter %r displays as %r, which parses back to a different filter (%r)" % (c["s"], disp, unh(rt["display"])), c, r, prof)
            elif rt["hint"] != r["hint"] or rt["en"] != r["en"]:
                # same directive list, other maxima: the hint, and through `dynamics.max_level >= level` the span-itself decision
                only_lower = rt["hint"] <= r["hint"] and all(a >= b for a, b in zip(r["en"], rt["en"]))
                f21 = (not fixed_f21) and only_lower and (stale or st is None)
                viol(rep, "EnvFilter %r displays as %r, which parses back to the same directives but another filter: max_level_hint %s -> %s, %d decisions on the pool change" % (
                    c["s"], disp, r["hint"], rt["hint"], sum(1 for a, b in zip(r["en"], rt["en"]) if a != b)), c, r, prof, finding="F21" if f21 else None)


def canon_val(v):
    k, x = v
    if k in ("u64", "i64"):
        return str(x)
    if k == "bool":
        return "true" if x else "false"
    if k == "f64":
        return canon_text(repr(x))
    return x


def canon_text(t):
    try:
        if re.fullmatch(r"-?\d+\.\d+", t):
            return repr(float(t))
    except ValueError:
        pass
    return t


def cmp_env(dis, c, r, mv, from_targets):
    if mv is None:
        return "skip"
    code, md, mh, rows = mv
    if code == 0:
        return "skip"
    if (code == 2) != bool(r.get("ok")):
        dis(c, "env parse ok/err", r.get("ok"), code)
        return
    if not r.get("ok"):
        return
    for what, iv, m_ in (("env display", list(bytes.fromhex(r["display"])), md), ("env hint", r["hint"], mh),
                         ("env register_callsite", r["reg"], [a for a, _ in rows]), ("env enabled", r["en"], [b for _, b in rows]),
                         ("env Filter::callsite_enabled", r["reg_f"], [a for a, _ in rows]), ("env Filter::enabled", r["en_f"], [b for _, b in rows])):
        if iv != m_:
            dis(c, what, iv, m_)
            return


def check_hist(rep, c, r, pools, prof, fixed_f25):
    if not r.get("ok"):
        st = c["struct"]
        if not (c["regex"] and any(v is not None and v[0] == "pat" for d in st for _, v in d["fields"])):
            viol(rep, "EnvFilter rejected %r, a string of the documented grammar: %s" % (c["s"], r.get("err")), c, r, prof)
        return
    if not c.get("wellnested"):
        return
    plain = c["cfg"] == "plain"
    # a panic is legitimate only where the case plants one: a span created with a value whose Debug impl panics, enabled by
    # the filter, at a callsite some directive watches with a Debug-literal / pattern matcher on that field (the only
    # matchers that format a Debug value).  It must happen exactly there, and nowhere else — in particular not later.
    _, dyn_dirs = env_tables(c["struct"])
    for i, (op, ob) in enumerate(zip(c["ops"], r["obs"])):
        want_panic = False
        if op[0] == "span":
            pf = [n for n, v in op[4] if isinstance(v, dict) and "p" in v]
            attempted = bool(ob["delivered"]) if plain else bool(ob["en"])
            if pf and (attempted or ob.get("panicked")):
                m, _cs = hist_meta(op, pools)
                want_panic = any(dyn_cares(d, m) and any(n in pf and vs is not None and vs[0] in ("lit", "pat") for n, vs in d["fields"]) for d in dyn_dirs)
        if ob.get("panicked"):
            rep.count("hist:span-creation-unwound")
        if bool(ob.get("panicked")) != want_panic:
            viol(rep, "history op #%d %s under %r (%s): %s" % (i, op, c["s"], c["cfg"],
                 "panicked (no Debug impl of this op panics: the filter is broken by an earlier, caught, panic)" if ob.get("panicked")
                 else "did not unwind although a watched field's Debug impl panics"), c, r, prof, op_index=i)
    spec = spec_history(c["struct"], c["ops"], pools, c["regex"], [bool(ob["delivered"]) and not ob.get("panicked") for ob in r["obs"]])
    for i, (op, ob, sp) in enumerate(zip(c["ops"], r["obs"], spec)):
        if sp is None:
            continue
        if ob.get("panicked"):
            continue            # the creation unwound in the filter's on_new_span; whether a layer saw it first depends on the stack
        rep.evaluations += 1
        got = ob["delivered"] if plain else ob["en"]
        if got is None:
            viol(rep, "history op #%d %s: `enabled` was not consulted" % (i, op), c, r, prof, op_index=i)
            continue
        if not plain and ob["delivered"] != got:
            viol(rep, "history op #%d %s: the filter answered %s but the layer behind it %s the %s" % (
                i, op, got, "received" if ob["delivered"] else "did not receive", op[0]), c, r, prof, op_index=i)
        if sp["vague"]:
            continue
        want = sp["want"]
        if op[0] in ("span", "span0"):
            if sp["self"] == "must":
                want = True
            elif sp["self"] == "may" and not want:
                # the span itself: enabled by its own directive; decided only when its level is within the directive's
                if got and not sp["self_level_ok"]:
                    viol(rep, "history op #%d %s: a span above the level of every directive naming it was enabled (filter %r)" % (i, op, c["s"]),
                         c, r, prof, finding="F12", op_index=i)
                continue
        if want != sp["snap"] or want != sp["prefix"] or sp["snap"] != sp["snap_prefix"]:
            rep.count("hist:decided-by-known-shape")
        if want or sp["snap"]:
            rep.nontrivial.add(("h", c["id"], i))
        if bool(got) == bool(want):
            continue
        finding = None
        if bool(got) == bool(sp["snap"]) and sp["snap"] != want:
            finding = "F24"        # only values recorded before the enter count
        elif (not fixed_f25) and bool(got) == bool(sp["prefix"]) and sp["prefix"] != want:
            finding = "F25"        # Debug literal matched by prefix
        elif (not fixed_f25) and bool(got) == bool(sp["snap_prefix"]):
            finding = "F24" if sp["snap_prefix"] == sp["snap"] else "F25"
        viol(rep, "history op #%d %s under %r (%s): %s=%s, but %s" % (
            i, op, c["s"], c["cfg"], "delivered" if plain else "enabled", got,
            "a matching span is entered on the thread (or a static directive allows it)" if want else "no matching span is entered and no static directive allows it"),
            c, r, prof, finding=finding, op_index=i)
