"""C15 - the non-blocking writer neither loses, duplicates nor reorders accepted lines.

Leg A  coq_prove: Properties/C15.vo + pins (theorems over every schedule / fault set / configuration).
Leg B1 translators/nonblocking.py (every run): the bodies of Worker::{handle_recv, handle_try_recv, work, worker_thread},
       NonBlocking::{create, write, write_all}, Drop for WorkerGuard, ErrorCounter::{incr_saturating, dropped_lines},
       enum Msg are token-for-token the ones the model mirrors; the F11 switch (how work() ends) is read off worker.rs.
Leg B2 correspondence: seeded command scripts are run through the model's harness semantics (Appender/NonBlockingDrive.v:
       every command = the commanded label + the steps that then happen by themselves) and through the real crate
       (harness/nonblocking: scripted underlying writer with five park points, fault script, drop flag; producer
       threads released command by command; drop(guard) on its own thread; quiescence by /proc thread states, no
       sleep decides an outcome).  Compared after EVERY command: where the worker is parked and which line it holds,
       call-log length, dropped_lines(), which producer is blocked, completed writes, state of the guard drop;
       and at the end the whole call log, every write's outcome, the counter.
Leg C  oracle: the property's clauses evaluated on the real observations alone (see `oracle`).
Leg D  storm (truly concurrent; no model comparison): N free-running producer threads x many uniquely numbered lines into a
       small queue over the same scripted writer with the worker free-running or slowed down, then drop(guard).  Judged by
       clauses that hold on EVERY schedule (so the verdict is one-sided and sound whatever the OS scheduler does): written
       lines distinct and offered, per-producer order, exact accounting #write_all calls + dropped_lines() == #offered (lossy)
       / everything written, counter 0 (non-lossy).  Samples schedules the command-by-command driver cannot produce (several
       writes in flight at once, e.g. producers racing for the slot the worker has just freed).
Leg E  bytes (below the model's abstraction "a failing write_all writes nothing, a successful one everything"): an underlying
       writer that implements only `write` (std's default write_all on top) and answers from a byte-level script: short
       writes, WouldBlock, Interrupted, other errors, Ok(0).  Oracle on the real `write` calls: every buffer presented is the
       not-yet-accepted remainder of the current line or a whole next line, the bytes accepted for a line are disjoint and
       form a prefix of it (nothing reaches the writer twice), a line none of whose calls failed is accepted whole, lines in
       acceptance order, final flush and release.
       Also (guard timeouts): a drop(guard) that reports the rendezvous timeout must have lasted at least the timeout the
       source declares (measured around the drop call: an upper bound of the guard's wait, so load can only hide, never
       fake, a violation)."""
import glob
import hashlib
import json
import os
import re
import sys
import time
from concurrent.futures import ThreadPoolExecutor

import vlib
from vlib import Report, coq_prove, cargo_build, coq_eval, gen_if_changed

sys.path.insert(0, os.path.join(vlib.VERIF, "translators"))
import nonblocking as nb_tr  # noqa: E402

REQ = ("From Coq Require Import List NArith Bool.\nImport ListNotations.\n"
       "From TV Require Import Appender.NonBlockingModel Appender.NonBlockingDrive.\nLocal Open Scope N_scope.")

# "Gp": the guard dropped by a contained panic (unwinding) - the model knows one way of dropping the guard
OPS = {"P": "KP", "C": "KC", "W": "KW", "Wp": "KWp", "G": "KG", "Gp": "KG", "T": "KT", "O": "KO", "H": "KH"}


# ------------------------------------------------------------------------------------------------------------------
# cases

def payload(rng, lid, kind=None):
    """bytes of line `lid`: unique (the id is inside), of varied length, not always newline-terminated"""
    kind = kind if kind is not None else rng.randint(0, 9)
    if kind == 0:
        body = b""
    elif kind == 1:
        body = bytes(rng.randrange(256) for _ in range(rng.randint(1, 40)))
    elif kind == 2:
        body = b"x" * rng.choice([255, 256, 1023, 4096, 9000])
    else:
        body = b"event " + b"w" * rng.randint(0, 30) + b"\n"
    return (b"<%d>" % lid + body).hex()


def epilogue(nprod, total, cap):
    k = 3 * total + 3 * cap + 14
    return [["Wp"]] * k + [["T"], ["O"]] + [["C", p] for p in range(nprod)] + [["G"], ["T"]]


def mk_case(rng, cap, lossy, progs, faults, cmds, tag):
    if rng.random() < 0.4:
        cmds = [["Gp"] if k == ["G"] else k for k in cmds]   # the guard goes by a contained panic
    lines = {}
    for p in progs:
        for lid in p:
            lines[str(lid)] = payload(rng, lid)
    total = sum(len(p) for p in progs)
    return {"tag": tag, "cap": cap, "lossy": lossy, "progs": progs, "lines": lines, "faults": sorted(set(faults)),
            "cmds": cmds + epilogue(len(progs), total, cap)}


def gen_progs(rng, nprod, maxlines):
    progs = []
    for p in range(nprod):
        n = rng.randint(0, maxlines) if nprod > 1 else rng.randint(1, maxlines)
        progs.append([1000 * (p + 1) + i + 1 for i in range(n)])
    if not any(progs):
        progs[0] = [1001]
    return progs


def gen_faults(rng, total):
    r = rng.random()
    hi = 2 * total + 8
    if r < 0.35:
        return []
    if r < 0.55:
        return [rng.randrange(hi)]
    if r < 0.8:
        return [k for k in range(hi) if rng.random() < 0.25]
    if r < 0.9:
        a = rng.randrange(hi)
        return list(range(a, min(hi, a + rng.randint(2, 5))))
    return [k for k in range(hi) if rng.random() < 0.6]


def gen_random(rng, tag="random"):
    cap = rng.choice([1, 1, 1, 2, 2, 3, 4, 8])
    lossy = rng.random() < 0.5
    nprod = rng.choice([1, 2, 2, 3, 4])
    progs = gen_progs(rng, nprod, rng.choice([2, 3, 5]))
    total = sum(len(p) for p in progs)
    faults = gen_faults(rng, total)
    w = {"P": 5.0, "W": 4.0, "C": 0.4, "G": rng.choice([0.0, 0.25, 0.5]), "O": 0.15, "H": 0.3, "T": 0.05}
    style = rng.random()
    cmds = []
    n = rng.randint(6, 14 + 3 * total)
    if style < 0.35:
        # bursts: fill the queue, then drain it
        while len(cmds) < n:
            for _ in range(rng.randint(1, cap + 2)):
                cmds.append(["P", rng.randrange(nprod)])
            for _ in range(rng.randint(0, 3 * (cap + 1))):
                cmds.append(["W"])
            if rng.random() < 0.15:
                cmds.append(rng.choice([["G"], ["C", rng.randrange(nprod)], ["O"], ["H"]]))
    else:
        keys = list(w)
        for _ in range(n):
            k = rng.choices(keys, [w[x] for x in keys])[0]
            cmds.append([k, rng.randrange(nprod)] if k in ("P", "C") else [k])
    return mk_case(rng, cap, lossy, progs, faults, cmds, tag)


def gen_f11(rng):
    """lines written with the gates open, then the guard is dropped; the flush of the batch that consumes Shutdown
    (or a neighbour) is scripted to fail"""
    k = rng.randint(0, 4)
    cap = rng.choice([max(1, k), k + 1, 8])
    lossy = rng.random() < 0.6
    progs = [[1001 + i for i in range(k)]] if k else [[1001]]
    cmds = [["P", 0]] * k + [["O"]]
    # calls: k writes (0..k-1) + one flush (k) when k > 0; then the Shutdown batch's flush
    sd_flush = k + 1 if k else 0
    faults = [sd_flush + rng.choice([0, 0, 0, 1, -1])] if rng.random() < 0.85 else [sd_flush, sd_flush + 1, sd_flush + 2]
    faults = [f for f in faults if f >= 0]
    cmds += [["G"], ["T"]]
    return mk_case(rng, cap, lossy, progs, faults, cmds, "f11-shape")


def gen_timeout(rng):
    """the harness holds the worker at a gate so that one of the guard's two timeouts must fire"""
    lossy = rng.random() < 0.5
    if rng.random() < 0.5:
        # 100 ms: the queue is full and stays full
        cap = rng.choice([1, 2])
        progs = [[1001 + i for i in range(cap + 2)]]
        cmds = [["P", 0]] * (cap + 1) + [["G"], ["T"]] + [["W"]] * rng.randint(0, 4)
        tag = "forced-timeout-100ms"
    else:
        cap = rng.choice([2, 3, 4])
        n = rng.randint(1, cap - 1)
        progs = [[1001 + i for i in range(n + 2)], [2001]]
        cmds = [["P", 0]] * n + [["W"]] * rng.randint(0, 2) + [["G"]] + [["P", 1]] * rng.randint(0, 1) + [["W"]] * rng.randint(0, 3) + [["T"]] + [["P", 0]]
        tag = "forced-timeout-1s"
    return mk_case(rng, cap, lossy, progs, gen_faults(rng, 3) if rng.random() < 0.3 else [], cmds, tag)


def gen_guard(rng):
    """guard dropped at a chosen point of a gated run, then stepped to completion; sometimes lines arrive behind Shutdown"""
    cap = rng.choice([1, 2, 3, 4])
    lossy = rng.random() < 0.5
    nprod = rng.choice([1, 2, 3])
    progs = gen_progs(rng, nprod, 3)
    total = sum(len(p) for p in progs)
    cmds = []
    for _ in range(rng.randint(0, cap + 2)):
        cmds.append(["P", rng.randrange(nprod)])
    for _ in range(rng.randint(0, 4)):
        cmds.append(["W"])
    if rng.random() < 0.3:
        cmds += [["C", p] for p in range(nprod)]
    if rng.random() < 0.3:
        cmds.append(["O"])
    cmds.append(["G"])
    for _ in range(rng.randint(0, 3)):
        cmds.append(rng.choice([["P", rng.randrange(nprod)], ["W"], ["W"]]))
    faults = gen_faults(rng, total) if rng.random() < 0.5 else []
    return mk_case(rng, cap, lossy, progs, faults, cmds, "guard-drop")


def load_corpus():
    out = []
    for f in sorted(glob.glob(os.path.join(vlib.VERIF, "corpus", "C15", "*.json"))):
        try:
            c = json.load(open(f))
        except Exception as ex:  # a broken corpus file must not be silently skipped
            out.append({"tag": "corpus:" + os.path.basename(f), "broken": str(ex)})
            continue
        c["tag"] = "corpus:" + os.path.basename(f)
        total = sum(len(p) for p in c["progs"])
        if not c.get("no_epilogue"):
            c["cmds"] = c["cmds"] + epilogue(len(c["progs"]), total, c["cap"])
        out.append(c)
    return out


def gen_defaults(rng, dcap, dlossy):
    """tracing_appender::non_blocking(writer): the default configuration (capacity and mode as the translator read them)"""
    c = gen_random(rng, "defaults")
    c["cap"], c["lossy"], c["defaults"] = dcap, dlossy, True
    total = sum(len(p) for p in c["progs"])
    c["cmds"] = [k for k in c["cmds"] if k[0] != "Wp"][: 30] + epilogue(len(c["progs"]), total, 2)
    return c


def gen_cases(ctx, defaults=(128000, True)):
    rng = ctx.rng
    th = ctx.thorough()
    cases = [c for c in load_corpus()]
    n_rand, n_f11, n_to, n_g = (170, 14, 8, 60) if not th else (1300, 60, 40, 400)
    for _ in range(n_rand):
        cases.append(gen_random(rng))
    for _ in range(n_f11):
        cases.append(gen_f11(rng))
    for _ in range(n_to):
        cases.append(gen_timeout(rng))
    for _ in range(n_g):
        cases.append(gen_guard(rng))
    for _ in range(6 if not th else 30):
        cases.append(gen_defaults(rng, *defaults))
    for i, c in enumerate(cases):
        c["i"] = i
    return cases


# ------------------------------------------------------------------------------------------------------------------
# model

def coq_case(c, variant):
    progs = "[" + "; ".join("[" + "; ".join(str(x) for x in p) + "]" for p in c["progs"]) + "]"
    bad = "[" + "; ".join(str(x) for x in c["faults"]) + "]"
    ks = "[" + "; ".join("%s %d" % (OPS[k[0]], k[1]) if k[0] in ("P", "C") else OPS[k[0]] for k in c["cmds"]) + "]"
    return "observe_N %d %s %s %s %s %s" % (c["cap"], "true" if c["lossy"] else "false", variant, progs, bad, ks)


def model_eval(ctx, cases, variant, tag="cases"):
    chunk = 25
    terms = []
    for i in range(0, len(cases), chunk):
        terms.append(("m%d" % i, "[" + "; ".join(coq_case(c, variant) for c in cases[i:i + chunk]) + "]"))
    res = coq_eval(ctx, REQ, terms, tag=tag)
    out = []
    for i in range(0, len(cases), chunk):
        out.extend(res["m%d" % i])
    return out


def norm_model(m):
    snaps, log, hist, fin = m
    return {"snaps": [list(s) for s in snaps], "log": [list(e) for e in log], "hist": [list(h) for h in hist],
            "dropped": fin[0], "guard": fin[1], "wk": fin[2], "labels": fin[3]}


# ------------------------------------------------------------------------------------------------------------------
# implementation

def run_impl(binp, case, cmds, twait_ms):
    inp = {"cap": case["cap"], "lossy": case["lossy"], "progs": case["progs"], "lines": case["lines"], "faults": case["faults"],
           "cmds": cmds, "twait_ms": twait_ms, "settle_ms": 15000, "defaults": bool(case.get("defaults"))}
    rc, out = vlib.sh([binp], 120, input=json.dumps(inp))
    for line in out.splitlines():
        if line.startswith("{"):
            try:
                return json.loads(line), None
            except ValueError:
                pass
    return None, "rc=%d %s" % (rc, out[-300:])


def perturbed(o, cmds):
    """real time interfered: a guard timeout was observed at a command that did not ask for it, or the harness gave up
    waiting for quiescence"""
    if o is None:
        return True
    if any("quiescence" in p for p in o.get("problems", [])):
        return True
    prev = 0
    for s, k in zip(o["snaps"], cmds):
        if s[8] in (3, 4) and prev == 0 and k[0] != "T":
            return True
        prev = s[8]
    return False


def compare(m, o, ncmds):
    """first disagreement between the model's observation and the implementation's, or None"""
    if len(o["snaps"]) != ncmds:
        return {"at": "snapshots", "model": ncmds, "impl": len(o["snaps"]), "problems": o.get("problems")}
    for i, (a, b) in enumerate(zip(m["snaps"], o["snaps"])):
        if list(a) != list(b[:9]):
            return {"at": "after command %d" % i,
                    "fields": "status,worker_at,inflight,calls_logged,dropped,blocked_producer,writes_completed,guard_drop_running,guard_drop_result",
                    "model": list(a), "impl": list(b[:9])}
    il = [[e[0], e[1], e[2]] for e in o["log"]]
    if il != m["log"]:
        return {"at": "call log", "model": m["log"], "impl": il}
    if [list(h) for h in o["hist"]] != m["hist"]:
        return {"at": "write outcomes", "model": m["hist"], "impl": o["hist"]}
    if o["dropped"] != m["dropped"]:
        return {"at": "dropped_lines", "model": m["dropped"], "impl": o["dropped"]}
    if (m["wk"] == 6) != bool(o["worker_exited"]):
        return {"at": "worker exited", "model": m["wk"] == 6, "impl": o["worker_exited"]}
    return None


# ------------------------------------------------------------------------------------------------------------------
# oracle: the property on the implementation's own observations

def oracle(case, cmds, o, timeouts=None):
    """returns [(what, finding-or-None)]"""
    v = []
    # the guard's own timeouts: drop_ms is measured around drop(guard), an upper bound of how long the guard waited
    if timeouts and o.get("gres") in (3, 4):
        need = timeouts[0] if o["gres"] == 3 else timeouts[1]
        if o.get("drop_ms", need) < need:
            v.append(("drop(guard) reported the %s timeout (%s) after only %d ms, less than the %d ms the source declares for it: the guard gave up "
                      "on a worker that would have been served in time" % ("send" if o["gres"] == 3 else "rendezvous", o["stderr"].strip()[:80], o["drop_ms"], need), None))
    lossy, cap = case["lossy"], case["cap"]
    by_hex = {h: int(k) for k, h in case["lines"].items()}
    log, hist, snaps = o["log"], o["hist"], o["snaps"]
    complete = len(snaps) == len(cmds)
    # -- whole buffers
    for e in log:
        if e[0] == 1 and by_hex.get(e[3]) is None:
            v.append(("a write_all call on the underlying writer carries %d bytes that are not one accepted buffer (not whole)" % (len(e[3]) // 2), None))
            return v
    A = [h[1] for h in hist if h[2] == 1]
    Wr = [by_hex[e[3]] for e in log if e[0] == 1]
    # -- exactly once, in the order accepted
    if Wr != A[:len(Wr)]:
        k = next((i for i in range(len(Wr)) if i >= len(A) or Wr[i] != A[i]), len(Wr))
        v.append(("write_all call #%d carries line %s but the %d-th accepted line is %s (accepted order %s, written order %s): lost, duplicated or reordered"
                  % (k, Wr[k] if k < len(Wr) else None, k, A[k] if k < len(A) else None, A, Wr), None))
    # -- per producer order
    for p, prog in enumerate(case["progs"]):
        mine = [h[1] for h in hist if h[0] == p]
        if mine != prog[:len(mine)]:
            v.append(("producer %d's completed writes %s are not a prefix of its program %s" % (p, mine, prog), None))
    # -- outcomes
    for h in hist:
        if h[2] == 8:
            v.append(("write of line %d returned a short count" % h[1], None))
        if h[2] == 9:
            v.append(("lossy write of line %d returned an error" % h[1], None))
        if h[2] == 2 and not lossy:
            v.append(("non-lossy mode: line %d was dropped" % h[1], None))
    if not lossy and o["dropped"] != 0:
        v.append(("non-lossy mode: dropped_lines() = %d" % o["dropped"], None))
    # -- the queue never holds more than its capacity (producers wait / lines are dropped instead)
    g_at = next((i for i, k in enumerate(cmds) if k[0] in ("G", "Gp") and i < len(snaps) and snaps[i][0] == 1), None)
    for i, s in enumerate(snaps):
        acc = sum(1 for h in hist[:s[6]] if h[2] == 1)
        wr = sum(1 for e in log[:s[3]] if e[0] == 1)
        infl = 1 if s[1] == 1 else 0
        if acc - wr - infl > cap:
            v.append(("after command %d: %d lines accepted and not yet taken by the worker, capacity %d" % (i, acc - wr - infl, cap), None))
            break
    # -- counter: one per dropped line
    ndrop = sum(1 for h in hist if h[2] == 2)
    if lossy and o["dropped"] != ndrop:
        v.append(("lossy mode: dropped_lines() = %d but %d writes were dropped" % (o["dropped"], ndrop), None))
    # -- the guard drop
    nh_at_g = snaps[g_at - 1][6] if g_at else 0
    if g_at is not None:
        before = [h[1] for h in hist[:nh_at_g] if h[2] == 1]
        exited_before = g_at > 0 and snaps[g_at - 1][1] == 6
        done_at = next((i for i in range(g_at, len(snaps)) if snaps[i][8] != 0), None)
        if done_at is not None:
            s = snaps[done_at]
            res = s[8]
            lg = log[:s[3]]
            wr_then = [by_hex[e[3]] for e in lg if e[0] == 1]
            if res == 2 and not exited_before:
                # returned without a timeout while the worker was still there: through the join
                missing = [x for x in before if x not in wr_then]
                tail = [e[0] for e in lg[-2:]]
                if missing:
                    v.append(("drop(guard) returned but lines %s, accepted before the drop began, were never handed to write_all" % missing, None))
                if tail != [2, 3]:
                    v.append(("drop(guard) returned but the call log does not end with flush, release-of-writer (last calls: %s)" % tail, None))
                if s[1] != 6:
                    v.append(("drop(guard) returned without a timeout but the worker thread has not exited", None))
            elif res in (3, 4) and cmds[done_at][0] == "T" and done_at > 0:
                # The wait began with everything at rest (snapshot before T).  The timeout was forced by the harness iff
                # the worker was parked at one of its gates then.  Otherwise the worker sat idle in recv() on an empty
                # queue while the guard waited: nothing could ever have served the guard.
                prev = snaps[done_at - 1]
                forced = prev[1] in (1, 2, 3, 4, 5)
                if not forced:
                    lg0 = log[:prev[3]]
                    released = any(e[0] == 3 for e in lg0)
                    # the flush issued with Shutdown in hand: the first call after every line accepted before the drop
                    # has been attempted (Shutdown sits right behind them) - one later if a flush was already pending
                    nlog_g = snaps[g_at - 1][3] if g_at else 0
                    pos, seen = -1, 0
                    for k, e in enumerate(lg0):
                        if e[0] == 1:
                            seen += 1
                            if seen == len(before):
                                pos = k
                    skip = 1 if (g_at and snaps[g_at - 1][1] == 3) else 0   # a flush was already pending when the drop began
                    idx0 = max(nlog_g + skip, pos + 1)
                    rest = lg0[idx0:]
                    tf = rest[0] if rest else None
                    shape = (res == 4 and len([x for x in before if x in wr_idle(lg0, by_hex)]) == len(before)
                             and tf is not None and tf[0] == 2 and tf[2] == 0 and not released)
                    v.append(("drop(guard) could only end by its %s timeout although the underlying writer was never stalled: when the "
                              "wait began the worker was idle in recv() on an empty queue, the writer %sreleased%s"
                              % ("1 s" if res == 4 else "100 ms", "" if released else "not ",
                                 "; the flush issued with Shutdown in hand had failed" if shape else ""), "F11" if shape else None))
    # -- at the end of the script: everything has been shut down
    if complete:
        fin = snaps[-1]
        if fin[5] != 0:
            v.append(("at the end a producer is still blocked in send", None))
        if not o["worker_exited"] or not o["writer_dropped"]:
            v.append(("after every sender and the guard were dropped the worker %s and the underlying writer was %sreleased"
                      % ("exited" if o["worker_exited"] else "is still running", "" if o["writer_dropped"] else "never "), None))
        else:
            if [e[0] for e in log[-2:]] != [2, 3]:
                v.append(("the call log does not end with flush, release (last calls %s)" % [e[0] for e in log[-2:]], None))
            if sum(1 for e in log if e[0] == 3) != 1:
                v.append(("the underlying writer was released %d times" % sum(1 for e in log if e[0] == 3), None))
        stranded = A[len(Wr):]
        if Wr == A[:len(Wr)] and stranded:
            late = set(h[1] for h in hist[nh_at_g:]) if g_at is not None else set()
            lost = [x for x in stranded if x not in late]
            if lost:
                v.append(("lines %s were accepted (before any guard drop began) and never handed to write_all" % lost, None))
        ok_w = sum(1 for e in log if e[0] == 1 and e[2] == 1)
        bad_w = sum(1 for e in log if e[0] == 1 and e[2] == 0)
        refused = sum(1 for h in hist if h[2] == 3)
        if lossy:
            if ok_w + bad_w + o["dropped"] + len(stranded) != len(hist) or refused:
                v.append(("lossy accounting: offered %d, written %d, failed writes %d, dropped_lines() %d, accepted after the guard drop and stranded %d, refused %d"
                          % (len(hist), ok_w, bad_w, o["dropped"], len(stranded), refused), None))
        else:
            if ok_w + bad_w + refused + len(stranded) != len(hist):
                v.append(("non-lossy accounting: offered %d, written %d, failed writes %d, refused %d, stranded %d" % (len(hist), ok_w, bad_w, refused, len(stranded)), None))
    return v


def wr_idle(lg, by_hex):
    return [by_hex[e[3]] for e in lg if e[0] == 1]


def nontrivial_key(case, cmds, o):
    full = any(h[2] == 2 for h in o["hist"]) or any(s[0] == 2 for s in o["snaps"])
    empty = any(k[0] in ("W", "Wp") and s[0] == 1 and s[1] == 0 for s, k in zip(o["snaps"], cmds))
    fault = any(e[2] == 0 for e in o["log"])
    gq = False
    for i, (s, k) in enumerate(zip(o["snaps"], cmds)):
        if k[0] in ("G", "Gp") and s[0] == 1 and i > 0:
            p = o["snaps"][i - 1]
            acc = sum(1 for h in o["hist"][:p[6]] if h[2] == 1)
            wr = sum(1 for e in o["log"][:p[3]] if e[0] == 1)
            gq = acc > wr
    if (full and empty) or fault or gq:
        return hashlib.sha1(json.dumps([case["cap"], case["lossy"], case["progs"], case["faults"], cmds]).encode()).hexdigest()[:16]
    return None


# ------------------------------------------------------------------------------------------------------------------

def check_cases(ctx, rep, cases, variant, binp, timeouts):
    """model -> scripts -> implementation -> correspondence + oracle"""
    cases = [c for c in cases if not c.get("broken")]
    t = time.time()
    try:
        models = [norm_model(m) for m in model_eval(ctx, cases, variant)]
    except Exception as ex:  # ModelEvalError or a parse problem: the tie is broken, the oracle still runs
        rep.tie("model-eval", False, str(ex)[:400])
        models = None
    ctx.log("model: %d cases (%.1fs)" % (len(cases), time.time() - t))
    twait = timeouts[0] + timeouts[1] + 4000
    jobs = []
    for i, c in enumerate(cases):
        if models is not None:
            keep = [j for j, s in enumerate(models[i]["snaps"]) if s[0] != 0]
            cmds = [c["cmds"][j] for j in keep]
            models[i]["snaps"] = [models[i]["snaps"][j] for j in keep]
        else:
            cmds = c["cmds"]
        jobs.append((c, cmds))

    def timing_only(i, o):
        """the first disagreement with the model is only in guard_drop_running / guard_drop_result of one snapshot: the
        harness looked while drop(guard) was between two waits.  The scripts force the schedule, so a real defect of the
        guard drop shows on every try; only an observation made too early goes away on a re-run."""
        if models is None or o is None:
            return False
        for a, b in zip(models[i]["snaps"], o["snaps"]):
            if list(a) != list(b[:9]):
                return list(a)[:7] == list(b[:7])
        return False

    def one(ij):
        i, (c, cmds) = ij
        o, err = run_impl(binp, c, cmds, twait)
        tries = 1
        while (perturbed(o, cmds) or timing_only(i, o)) and tries < 4:
            o2, err2 = run_impl(binp, c, cmds, twait)
            tries += 1
            if o2 is not None:
                o, err = o2, err2
        return o, err, tries

    t = time.time()
    with ThreadPoolExecutor(max_workers=max(2, min(12, vlib.NCPU - 2))) as ex:
        outs = list(ex.map(one, list(enumerate(jobs))))
    ctx.log("implementation: %d cases (%.1fs)" % (len(cases), time.time() - t))

    disagree = []
    for i, ((c, cmds), (o, err, tries)) in enumerate(zip(jobs, outs)):
        rep.evaluations += 1
        rep.count("family:" + c["tag"].split(":")[0])
        rep.count("mode:" + ("lossy" if c["lossy"] else "non-lossy"))
        rep.count("cap:%d" % c["cap"])
        rep.count("producers:%d" % len(c["progs"]))
        if tries > 1:
            rep.count("retried-for-timing")
        replay_case = {"cap": c["cap"], "lossy": c["lossy"], "progs": c["progs"], "lines": c["lines"], "faults": c["faults"],
                       "cmds": cmds, "tag": c["tag"], "no_epilogue": True}
        if c.get("defaults"):
            replay_case["defaults"] = True
        if o is None:
            rep.tie("run:h_nonblocking", False, "case %d (%s): %s" % (i, c["tag"], err), replay_case)
            continue
        for k in cmds:
            rep.count("cmd:" + k[0])
        for e in o["log"]:
            rep.count("call:" + ("write", "flush", "release")[e[0] - 1] + ("" if e[2] else "-failed"))
        for h in o["hist"]:
            rep.count("outcome:" + {1: "accepted", 2: "dropped", 3: "refused"}.get(h[2], "other"))
        if o["gres"]:
            rep.count("guard-drop:" + {2: "returned", 3: "timeout-100ms", 4: "timeout-1s"}.get(o["gres"], "other"))
        if any(s[0] == 2 for s in o["snaps"]):
            rep.count("producer-blocked")
        key = nontrivial_key(c, cmds, o)
        if key:
            rep.nontrivial.add(key)
        if o.get("problems"):
            rep.count("harness-problem")
        # oracle
        for what, fid in oracle(c, cmds, o, timeouts):
            rep.violation(what, {"case": replay_case, "observed": {"log": [e[:3] for e in o["log"]], "hist": o["hist"], "dropped": o["dropped"],
                                                                     "guard_drop": o["gres"], "stderr": o["stderr"][:200]}}, finding=fid)
        # correspondence
        if models is not None:
            d = compare(models[i], o, len(cmds))
            if d is not None:
                d["case"] = replay_case
                d["tries"] = tries
                disagree.append(d)
            else:
                rep.traces_validated += 1
                rep.count("model-labels", models[i]["labels"])
        if len(rep.samples) < 6 and key:
            rep.samples.append({"tag": c["tag"], "cap": c["cap"], "lossy": c["lossy"], "progs": c["progs"], "faults": c["faults"],
                                "cmds": "".join(k[0] + (str(k[1]) if len(k) > 1 else "") + " " for k in cmds).strip(),
                                "call_log": [e[:3] for e in o["log"]], "outcomes": o["hist"], "dropped": o["dropped"], "guard_drop": o["gres"]})
    if models is not None:
        rep.tie("correspondence:model-vs-crate", not disagree, "%d of %d cases disagree" % (len(disagree), len(cases)), disagree[:1] or None)
    return disagree


# ------------------------------------------------------------------------------------------------------------------
# leg D: free-running producers (schedules the op-by-op driver cannot produce); one-sided verdict

def gen_storms(ctx):
    rng = ctx.rng
    n = 12 if not ctx.thorough() else 60
    out = []
    for i in range(n):
        lossy = (i % 4) != 3
        nprod = rng.choice([2, 4, 8, 8, 8])
        c = {"mode": "storm", "cap": rng.choice([1, 1, 2, 3, 4]), "lossy": lossy, "nprod": nprod,
             "throttle": rng.choice([0, 0, 1, 3, 1005, 1030]) if lossy else rng.choice([0, 0, 1]),
             "nlines": rng.choice([1500, 3000, 5000]) if lossy else rng.choice([60, 150, 300]),
             "faults": sorted(set(rng.randrange(400) for _ in range(rng.choice([0, 0, 2, 6])))),
             "guard_after": None, "bound_ms": 30000}
        if i % 6 == 5:
            c["guard_after"] = rng.randrange(1, c["nprod"] * c["nlines"])
        out.append(c)
    return out


def storm_oracle(c, o):
    """clauses that hold on every schedule; returns [(what, details)]"""
    v = []
    nprod, nlines, lossy = c["nprod"], c["nlines"], c["lossy"]
    offered = nprod * nlines
    exact = c.get("guard_after") is None
    W = [e[1] for e in o["log"] if e[0] == 1]
    nfail = sum(1 for e in o["log"] if e[0] == 1 and not e[2])
    ok_ret = sum(p[0] for p in o["producers"])
    err_ret = sum(p[1] for p in o["producers"])
    short = sum(p[2] for p in o["producers"])
    counts = {"offered": offered, "write_all_calls": len(W), "of_which_failed": nfail, "dropped_lines": o["dropped"],
              "writes_returned_ok": ok_ret, "writes_returned_err": err_ret, "short_counts": short}
    if o["problems"]:
        v.append(("concurrent run did not come to rest: %s" % "; ".join(o["problems"])[:300], counts))
        return v
    if o["unknown"]:
        v.append(("a write_all call carries bytes that are not one offered buffer (not whole): %s" % o["unknown"][0][:80], counts))
    seen = set()
    last = {}
    for x in W:
        if x == 0:
            continue
        p, i = x // 1000000 - 1, x % 1000000 - 1
        if not (0 <= p < nprod and 0 <= i < nlines):
            v.append(("line id %d was written but never offered" % x, counts))
            break
        if x in seen:
            v.append(("line %d (producer %d, its line #%d) was handed to write_all twice" % (x, p, i), counts))
            break
        seen.add(x)
        if last.get(p, -1) > i:
            v.append(("producer %d's line #%d was written after its line #%d: per-producer order broken" % (p, i, last[p]), counts))
            break
        last[p] = i
    if short:
        v.append(("%d writes returned a short count" % short, counts))
    if lossy and err_ret:
        v.append(("lossy mode: %d writes returned an error" % err_ret, counts))
    if not lossy and o["dropped"]:
        v.append(("non-lossy mode: dropped_lines() = %d" % o["dropped"], counts))
    if not o["worker_exited"] or not o["writer_dropped"]:
        v.append(("after every sender and the guard were dropped the worker %s, the writer was %sreleased"
                  % ("exited" if o["worker_exited"] else "is still running", "" if o["writer_dropped"] else "not "), counts))
        return v
    if [e[0] for e in o["log"][-2:]] != [2, 3] or sum(1 for e in o["log"] if e[0] == 3) != 1:
        v.append(("the call log does not end with one flush, release (last calls %s)" % [e[0] for e in o["log"][-2:]], counts))
    accounted = len(W) + o["dropped"] + (0 if lossy else err_ret)
    if exact:
        if not lossy and err_ret:
            v.append(("non-lossy mode: %d writes were refused although the guard was dropped only after every producer had finished" % err_ret, counts))
        if accounted != offered:
            missing = [(p + 1) * 1000000 + i + 1 for p in range(nprod) for i in range(nlines) if (p + 1) * 1000000 + i + 1 not in seen]
            counts["not_written_ids_sample"] = missing[:8]
            counts["not_written_total"] = len(missing)
            if accounted < offered:
                v.append(("%s accounting: offered %d, handed to write_all %d (%d of them failed), dropped_lines() %d: %d lines were silently lost "
                          "(neither written nor counted); %d ids never reached write_all but the counter explains only %d of them, e.g. line %d"
                          % ("lossy" if lossy else "non-lossy", offered, len(W), nfail, o["dropped"], offered - accounted, len(missing), o["dropped"],
                             missing[0] if missing else -1), counts))
            else:
                v.append(("%s accounting: offered %d but write_all calls %d + dropped_lines() %d = %d > offered (a line both written and counted as dropped)"
                          % ("lossy" if lossy else "non-lossy", offered, len(W), o["dropped"], accounted), counts))
    elif accounted > offered:
        v.append(("guard dropped while producers were running: write_all calls %d + dropped_lines() %d + refused %d exceed the %d lines offered"
                  % (len(W), o["dropped"], 0 if lossy else err_ret, offered), counts))
    return v


def run_storm_one(binp, c):
    rc, out = vlib.sh([binp], 120, input=json.dumps(c))
    for line in out.splitlines():
        if line.startswith("{"):
            try:
                return json.loads(line), None
            except ValueError:
                pass
    return None, "rc=%d %s" % (rc, out[-300:])


def check_storms(ctx, rep, binp, storms, attempts=1):
    t = time.time()
    for c in storms:
        bad = None
        for _ in range(attempts):
            o, err = run_storm_one(binp, c)
            rep.evaluations += 1
            rep.count("storm:rounds")
            if o is None:
                rep.tie("run:h_nonblocking-storm", False, str(err), {"case": {"storm": c}})
                break
            W = sum(1 for e in o["log"] if e[0] == 1)
            rep.count("storm:lines-offered", c["nprod"] * c["nlines"])
            rep.count("storm:write_all-calls", W)
            rep.count("storm:dropped", o["dropped"])
            rep.count("storm:" + ("lossy" if c["lossy"] else "non-lossy") + (":guard-dropped-mid-run" if c.get("guard_after") is not None else ""))
            if W and (o["dropped"] or not c["lossy"]):
                rep.nontrivial.add("storm:" + hashlib.sha1(json.dumps(c, sort_keys=True).encode()).hexdigest()[:12])
            bad = storm_oracle(c, o)
            if bad:
                break
        for what, counts in (bad or []):
            rep.violation(what, {"case": {"storm": c}, "observed": counts})
    ctx.log("storm: %d rounds (%.1fs)" % (len(storms), time.time() - t))


# ------------------------------------------------------------------------------------------------------------------
# leg E: byte-level script under std's write_all

def gen_bytes(ctx):
    rng = ctx.rng
    n = 30 if not ctx.thorough() else 200
    out = []
    body = b"abcdefghijklmnopqrstuvwxyz0123456789 =:"
    for _ in range(n):
        nl = rng.randint(1, 12)
        lines = []
        for j in range(nl):
            b = bytes([65 + j]) + bytes(rng.choice(body) for _ in range(rng.choice([0, 1, 2, 5, 9, 20, 40]))) + (b"\n" if rng.random() < 0.8 else b"")
            lines.append(b)
        script = []
        for b in lines:
            # as the unmodified worker would consume it: short writes / Interrupted, then all the rest or an error
            left = len(b)
            while True:
                r = rng.random()
                if r < 0.35 and left > 1:
                    k = rng.randint(1, left - 1)
                    script.append(["a", k])
                    left -= k
                elif r < 0.45:
                    script.append(["int", 0])
                elif r < 0.75:
                    script.append(["a", 1 << 30])
                    break
                else:
                    script.append([rng.choice(["wb", "wb", "err", "zero"]), 0])
                    break
        out.append({"mode": "bytes", "lossy": rng.random() < 0.5, "lines": [b.hex() for b in lines], "script": script, "bound_ms": 20000})
    return out


def bytes_oracle(c, o):
    v = []
    L = [bytes.fromhex(h) for h in c["lines"]]
    if o["problems"]:
        return ["byte-level run did not come to rest: %s" % "; ".join(o["problems"])[:200]]
    if any(r != 1 for r in o["rets"]) or o["dropped"]:
        v.append("a write into a queue with room for every line did not return Ok(len) (returns %s, dropped_lines() %d)" % (o["rets"], o["dropped"]))
    ranges = {j: [] for j in range(len(L))}
    errored = set()
    cur = None
    first_seen = []
    for idx, (bh, resp, n, _fl) in enumerate(o["calls"]):
        B = bytes.fromhex(bh)
        if B and 65 <= B[0] < 65 + len(L):
            j, off = B[0] - 65, 0
            if B != L[j]:
                v.append("write call #%d presents %r: it starts line %d but is not that line" % (idx, B[:30], j))
                break
        else:
            j = cur
            if j is None or len(B) > len(L[j]) or B != L[j][len(L[j]) - len(B):]:
                v.append("write call #%d presents %r, which is neither a whole accepted line nor the remainder of the line being written" % (idx, B[:30]))
                break
            off = len(L[j]) - len(B)
        if j not in first_seen:
            if first_seen and j < max(first_seen):
                v.append("line %d reaches the underlying writer after line %d: order broken" % (j, max(first_seen)))
            first_seen.append(j)
        if resp in ("wb", "err", "zero"):
            errored.add(j)
        if n > 0:
            have = max((e for _, e in ranges[j]), default=0)
            if off < have:
                v.append("bytes [%d,%d) of line %d (%r) were accepted by the underlying writer twice: the line was presented again from byte %d "
                         "after %d of its bytes had already been taken (write call #%d)" % (off, min(have, off + n), j, L[j][:20], off, have, idx))
                break
            if off > have:
                v.append("line %d: bytes [%d,%d) never reached the writer but byte %d onwards did (write call #%d)" % (j, have, off, off, idx))
                break
            ranges[j].append((off, off + n))
        cur = j
    if not v:
        for j in range(len(L)):
            have = max((e for _, e in ranges[j]), default=0)
            if j not in first_seen:
                v.append("accepted line %d never reached the underlying writer" % j)
            elif j not in errored and have != len(L[j]):
                v.append("line %d: no write call failed, yet only %d of its %d bytes were accepted (not whole)" % (j, have, len(L[j])))
        if not o["worker_exited"] or not o["writer_dropped"] or o["flushes"] < 1:
            v.append("after the guard drop: worker exited %s, writer released %s, flushes %d" % (o["worker_exited"], o["writer_dropped"], o["flushes"]))
    return v


def check_bytes(ctx, rep, binp, cases):
    t = time.time()

    def one(c):
        return run_storm_one(binp, c)

    with ThreadPoolExecutor(max_workers=max(2, min(8, vlib.NCPU - 2))) as ex:
        outs = list(ex.map(one, cases))
    for c, (o, err) in zip(cases, outs):
        rep.evaluations += 1
        rep.count("bytes:cases")
        if o is None:
            rep.tie("run:h_nonblocking-bytes", False, str(err), {"case": {"bytes": c}})
            continue
        for call in o["calls"]:
            rep.count("bytes:write-" + ("short" if call[1] == "a" and call[2] < len(call[0]) // 2 else {"a": "full"}.get(call[1], call[1])))
        if any(call[1] != "a" or call[2] < len(call[0]) // 2 for call in o["calls"]):
            rep.nontrivial.add("bytes:" + hashlib.sha1(json.dumps(c, sort_keys=True).encode()).hexdigest()[:12])
        for what in bytes_oracle(c, o):
            rep.violation(what, {"case": {"bytes": c}, "observed": {"write_calls": [[bytes.fromhex(x[0]).decode("latin1"), x[1], x[2]] for x in o["calls"]][:60]}})
    ctx.log("bytes: %d cases (%.1fs)" % (len(cases), time.time() - t))


def setup_report(ctx):
    rep = Report(ctx)
    rep.rule = ("seeded command scripts (producer write / close, worker gate release, guard drop, timeout wait, gates open / closed) over "
                "cap in {1,2,3,4,8}, lossy / non-lossy, 1-4 producers, fault scripts over write_all / flush calls; families: random, "
                "fill-then-drain bursts, guard drop at a chosen point, F11 shape, forced 100 ms / 1 s timeouts, corpus.  Non-trivial: the run "
                "reaches both a full queue (a dropped or blocked write) and an empty one (the worker goes idle), or an injected fault fires, or "
                "the guard is dropped with lines queued; distinct by (cap, mode, programs, faults, executed commands).  Plus storm rounds: 2-8 "
                "free-running producer threads x 60-5000 uniquely numbered lines, cap 1-4, worker free or slowed down, judged by schedule-independent "
                "clauses (non-trivial: lines were both written and dropped, or non-lossy)")
    rep.assumptions = [
        "crossbeam_channel is a dependency: bounded(n) is modelled as a FIFO of capacity n >= 1, bounded(0) as a rendezvous",
        "real time: the guard's 100 ms / 1 s timeouts are nondeterministic model steps; C15_guard_drop assumes they do not fire, i.e. the underlying writer makes progress within them (a writer stalled longer makes drop return without having written: by design, not a finding)",
        "a failing write_all writes nothing, a successful one the whole buffer (the scripted writer behaves so; std's Write contract for partial progress before an error is outside the model)",
        "lines accepted after the guard's drop began may be stranded behind Shutdown (accepted, never written, not counted as dropped): the property promises only what was accepted before the drop; the oracle accounts for them explicitly",
        "usize::MAX saturation of the drop counter is proved on the model (C15_lossy_accounting) and cannot be reached on the implementation",
        "harness quiescence detection reads /proc/self/task/<tid>/stat (Linux); at most one thread is blocked on a full queue at a time in generated scripts (the theorems have no such restriction)",
    ]
    rep.trusted_base = ["Coq 8.16.1 kernel + vm_compute", "translators/nonblocking.py (token-for-token comparison of the mirrored functions; fails closed)",
                        "harness/nonblocking/src/bin/h_nonblocking.rs (scripted writer, gates, /proc quiescence)", "driver/props/c15.py oracle"]
    return rep


def common_front(ctx, rep):
    text, unrec = nb_tr.main(ctx.repo, None)
    gen_if_changed(os.path.join(vlib.COQ, "gen", "Gen_nonblocking.v"), text)
    rep.tie("translator:Gen_nonblocking", not unrec, "; ".join(unrec[:4]), unrec[:1] or None)
    m = re.search(r"gen_worker_variant : variant := (\w+)\.", text)
    variant = m.group(1) if m else "FlushErrLosesState"
    ta = int(re.search(r"gen_send_timeout_ms : N := (\d+)", text).group(1))
    tb = int(re.search(r"gen_rdv_timeout_ms : N := (\d+)", text).group(1))
    dcap = int(re.search(r"gen_default_cap : N := (\d+)", text).group(1))
    dlossy = re.search(r"gen_default_lossy : bool := (\w+)", text).group(1) == "true"
    rep.extra["defaults_in_source"] = {"cap": dcap, "lossy": dlossy}
    rep.extra["worker_variant_in_source"] = variant
    rep.proof = coq_prove(ctx, "C15", ["theories/Properties/C15.vo"])
    ok, paths, log = cargo_build(ctx, "nonblocking", ["h_nonblocking"], release=False)
    if not ok:
        rep.tie("build:h_nonblocking", False, vlib.last_error(log))
        return None
    return variant, (ta, tb, dcap, dlossy), paths["h_nonblocking"]


def run(ctx):
    rep = setup_report(ctx)
    front = common_front(ctx, rep)
    if front is None:
        return rep
    variant, timeouts, binp = front
    if not os.path.exists("/proc/self/task"):
        rep.tie("platform:/proc", False, "the harness needs /proc/self/task/<tid>/stat")
        return rep
    cases = gen_cases(ctx, defaults=(timeouts[2], timeouts[3]))
    for c in cases:
        if c.get("broken"):
            rep.tie("corpus", False, "%s: %s" % (c["tag"], c["broken"]))
    check_cases(ctx, rep, cases, variant, binp, timeouts)
    check_storms(ctx, rep, binp, gen_storms(ctx))
    check_bytes(ctx, rep, binp, gen_bytes(ctx))
    if ctx.thorough():
        ok, rpaths, log = cargo_build(ctx, "nonblocking", ["h_nonblocking"], release=True)
        if not ok:
            rep.tie("build:h_nonblocking-release", False, vlib.last_error(log))
        else:
            sub = [c for c in cases if not c.get("broken")][: 400]
            check_cases(ctx, rep, sub, variant, rpaths["h_nonblocking"], timeouts)
            check_storms(ctx, rep, rpaths["h_nonblocking"], gen_storms(ctx))
    return rep


def replay(ctx, payload):
    """re-run one recorded case (oracle + correspondence)"""
    case = (payload.get("case") or {}).get("case")
    if payload.get("kind") != "failing-input" or not case:
        firsts = [f for f in (payload.get("first_disagreements") or []) if f]
        case = next((f[0]["case"] for f in firsts if isinstance(f, list) and f and isinstance(f[0], dict) and "case" in f[0]), None)
        if case is None:
            return run(ctx)
    rep = setup_report(ctx)
    rep.rule = "replay of one recorded case"
    front = common_front(ctx, rep)
    if front is None:
        return rep
    variant, timeouts, binp = front
    if "bytes" in case:
        check_bytes(ctx, rep, binp, [case["bytes"]])
        rep.nontrivial.add("replay")
        return rep
    if "storm" in case:
        # the failing schedule is the OS scheduler's: re-run the same round a few times (stops at the first violation)
        check_storms(ctx, rep, binp, [case["storm"]], attempts=8)
        rep.nontrivial.add("replay")
        return rep
    c = dict(case)
    c.setdefault("tag", "replay")
    check_cases(ctx, rep, [c], variant, binp, timeouts)
    rep.nontrivial.add("replay")
    return rep
