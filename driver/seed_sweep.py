#!/usr/bin/env python3
"""python3 driver/seed_sweep.py [ID ...] [--props C01,C04] [--jobs N]

Runs the registered checks against every kept seeded change (seeded/<PROP>-<V>/patch.diff): a scratch worktree of /repo HEAD
is created under /tmp, the patch applied there (never in /repo), `./check <PROP> --repo <worktree>` is run (and any extra
properties named in meta.json "also_check" or by --props), the verdict recorded in seeded/<id>/verdict.json, and the
worktree, its cargo target and the keyed cache directories removed again."""
import json, os, re, shutil, subprocess, sys, time, hashlib
from concurrent.futures import ThreadPoolExecutor

VERIF = os.path.dirname(os.path.dirname(os.path.abspath(__file__)))


def sh(cmd, cwd=None, timeout=3600, env=None):
    e = dict(os.environ); e.update(env or {})
    p = subprocess.run(cmd, cwd=cwd, shell=isinstance(cmd, str), stdout=subprocess.PIPE, stderr=subprocess.STDOUT, text=True,
                       errors="replace", timeout=timeout, env=e)
    return p.returncode, p.stdout


def one(sid, extra_props):
    d = os.path.join(VERIF, "seeded", sid)
    meta = json.load(open(os.path.join(d, "meta.json")))
    prop = meta["property"]
    wt = "/tmp/sweep_%s" % sid.lower().replace("-", "_")
    sh(["git", "-C", "/repo", "worktree", "remove", "--force", wt]); shutil.rmtree(wt, ignore_errors=True)
    rc, out = sh(["git", "-C", "/repo", "worktree", "add", "--detach", wt, "HEAD"])
    res = {"id": sid, "repo_head": sh(["git", "-C", "/repo", "rev-parse", "--short", "HEAD"])[1].strip(), "at": time.strftime("%Y-%m-%dT%H:%M:%S"), "checks": {}}
    try:
        if os.path.exists("/repo/Cargo.lock"):
            shutil.copy("/repo/Cargo.lock", wt)
        rc, out = sh(["git", "apply", os.path.join(d, "patch.diff")], cwd=wt)
        if rc != 0:
            rc, out = sh(["git", "apply", "-3", os.path.join(d, "patch.diff")], cwd=wt)
        res["applies"] = rc == 0
        if rc != 0:
            res["apply_error"] = out[-500:]
            return res
        props = [prop] + [p for p in meta.get("also_check", []) + list(extra_props) if p != prop]
        for p in props:
            t0 = time.time()
            rc, out = sh([os.path.join(VERIF, "check"), p, "--repo", wt], cwd=VERIF, timeout=3000,
                         env={"VERIF_CARGO_TARGET": os.path.join(wt, "target-verif")})
            lines = [l for l in out.splitlines() if l.startswith(("VIOLATION", p + ":"))]
            kf = [l[:160] for l in out.splitlines() if l.startswith("KNOWN-FINDING")]
            verdict = ("MISSED" if rc == 0 else
                       "VIOLATION-with-replay" if any(l.startswith("VIOLATION") and "no-failing-input-found" not in l for l in lines) else
                       "no-failing-input-found" if any("no-failing-input-found" in l for l in lines) else "error")
            first = None
            m = re.search(r"replay=(\S+)", out)
            if m and os.path.exists(m.group(1)):
                try:
                    j = json.load(open(m.group(1)))
                    first = {"what": j.get("what", j.get("no_longer_checks")), "case": j.get("case")}
                    first = json.loads(json.dumps(first, default=str)[:3000]) if len(json.dumps(first, default=str)) < 3000 else {"what": str(first["what"])[:1500]}
                except Exception:
                    pass
            res["checks"][p] = {"exit": rc, "verdict": verdict, "lines": lines[:6], "known_finding_lines": kf, "first_replay": first, "wall_s": round(time.time() - t0, 1)}
    finally:
        sh(["git", "-C", "/repo", "worktree", "remove", "--force", wt]); shutil.rmtree(wt, ignore_errors=True)
        key = hashlib.sha1(wt.encode()).hexdigest()[:10]
        for f in os.listdir(os.path.join(VERIF, ".cache")):
            if f.endswith("-" + key) or f.endswith("-" + key + ".lock"):
                p = os.path.join(VERIF, ".cache", f)
                shutil.rmtree(p, ignore_errors=True) if os.path.isdir(p) else os.unlink(p)
    json.dump(res, open(os.path.join(d, "verdict.json"), "w"), indent=1)
    return res


def main():
    args = [a for a in sys.argv[1:] if not a.startswith("--")]
    extra = []; jobs = 2
    for a in sys.argv[1:]:
        if a.startswith("--props="): extra = a.split("=", 1)[1].split(",")
        if a.startswith("--jobs="): jobs = int(a.split("=", 1)[1])
    ids = args or sorted(os.listdir(os.path.join(VERIF, "seeded")))
    ids = [i for i in ids if os.path.exists(os.path.join(VERIF, "seeded", i, "patch.diff"))]
    with ThreadPoolExecutor(jobs) as ex:
        for r in ex.map(lambda i: one(i, extra), ids):
            print(r["id"], "applies" if r.get("applies") else "DOES-NOT-APPLY", {p: c["verdict"] for p, c in r["checks"].items()})
            sys.stdout.flush()


if __name__ == "__main__":
    main()
